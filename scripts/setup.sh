#!/bin/bash
# Offline setup: build the harness against /repo's current working tree.
set -e
cd "$(dirname "$0")/.."
export CARGO_NET_OFFLINE=true
mkdir -p build evidence
if [ -f interpose/getrandom.c ]; then
  gcc -O2 -shared -fPIC -o build/libzyv_getrandom.so interpose/getrandom.c
fi
(cd engine && cargo build --offline 2>&1 | tail -3)
if [ -x scripts/setup_sched.sh ]; then scripts/setup_sched.sh; fi
echo "setup done"
