#!/bin/bash
# Self-test of the checks against the adopted seeded defects, without touching /repo:
# a scratch worktree of /repo's HEAD and scratch copies of the two harness workspaces (paths rewritten)
# under $ST; for every /verif/seeded/<name>/patch.diff: apply, rebuild, run the quick check of its
# property, expect exit 1 with a VIOLATION line; then revert. Everything is removed at the end.
# usage: scripts/selftest_seeds.sh [name-substring]
ST=${ST:-/tmp/st}
OUT=/verif/seeded/SELFTEST.txt
set -u
rm -rf "$ST"; mkdir -p "$ST/v"
git -C /repo worktree add --detach "$ST/repo" HEAD >/dev/null 2>&1 || { echo "cannot create worktree"; exit 2; }
rsync -a --exclude target /verif/engine "$ST/" ; rsync -a /verif/sched "$ST/"
grep -rl "/repo/" "$ST/engine/Cargo.toml" "$ST/engine/src/bin" "$ST/sched/zys/Cargo.toml" | xargs sed -i "s|/repo/|$ST/repo/|g"
cp /verif/known_findings.json "$ST/v/"; mkdir -p "$ST/v/build" "$ST/v/evidence"; cp /verif/build/libzyv_getrandom.so "$ST/v/build/" 2>/dev/null
export CARGO_NET_OFFLINE=true RUST_BACKTRACE=0 VERIF_ROOT="$ST/v" VERIF_REPO="$ST/repo"
: > "$OUT.new"
echo "self-test against /repo HEAD $(git -C /repo rev-parse --short HEAD) on $(date -u +%FT%TZ)" >> "$OUT.new"
for d in /verif/seeded/*/; do
  name=$(basename "$d")
  [ -n "${1:-}" ] && [[ "$name" != *"$1"* ]] && continue
  prop=$(python3 -c "import json;m=json.load(open('$d/meta.json'));print(m.get('check_property',m['property']))")
  if ! git -C "$ST/repo" apply --3way "$d/patch.diff" >/dev/null 2>&1; then
    git -C "$ST/repo" checkout -- . ; git -C "$ST/repo" reset -q --hard
    echo "$name ($prop): patch no longer applies to HEAD (skipped)" | tee -a "$OUT.new"; continue
  fi
  t0=$(date +%s)
  if [ "$prop" = "C17" ]; then
    (cd "$ST/sched" && CARGO_TARGET_DIR="$ST/target-sched" cargo build --offline >/dev/null 2>&1)
    (cd "$ST/engine" && CARGO_TARGET_DIR="$ST/target" cargo build --offline >/dev/null 2>&1)
    (cd "$ST/v" && "$ST/target-sched/debug/zys" check quick > "$ST/out.txt" 2>/dev/null; "$ST/target/debug/zyv" check C17 quick >> "$ST/out.txt" 2>&1)
  else
    if ! (cd "$ST/engine" && CARGO_TARGET_DIR="$ST/target" cargo build --offline > "$ST/build.log" 2>&1); then
      echo "$name ($prop): does not build with the harness" | tee -a "$OUT.new"; git -C "$ST/repo" reset -q --hard; continue
    fi
    (cd "$ST/v" && "$ST/target/debug/zyv" check "$prop" quick > "$ST/out.txt" 2>&1)
  fi
  n=$(grep -c "^VIOLATION property=$prop" "$ST/out.txt")
  fps=$(grep -E "^ +[0-9]+ x " "$ST/out.txt" | head -3 | sed 's/^ *//' | tr '\n' ';' | cut -c1-300)
  if [ "$n" -gt 0 ]; then verdict=DETECTED; else verdict=MISSED; fi
  echo "$name ($prop): $verdict in $(( $(date +%s) - t0 ))s — $fps" | tee -a "$OUT.new"
  git -C "$ST/repo" reset -q --hard
done
mv "$OUT.new" "$OUT"
git -C /repo worktree remove --force "$ST/repo"; git -C /repo worktree prune
rm -rf "$ST"
