#!/usr/bin/env python3
"""Generate /verif/MANIFEST.json from the table below (single source of truth)."""
import json, os
ROOT = os.path.dirname(os.path.dirname(os.path.abspath(__file__)))

CLAIMED = {
    "C05": dict(
        category="exploration",
        text="Exhaustive for the 8-bit types (all 65,536 operand pairs x 8 roles, all 256 to_string, per type), boundary cross products for wider integers and floats, and all literal spellings around every range boundary, each executed on the real dispatch path (Computation::Prim stepped on a live Runtime; closed literal programs through CompilerSession::analyze and the interpreter) against an i128 reference. Above the boundary sets nothing is claimed.",
        design_ref="C05",
        note="Trusts rustc's i128/f64 arithmetic for the reference, the harness's reading of literals, catch_unwind as panic observer.",
        technique="bounded-exhaustive enumeration of operand pairs and literal programs against a reference model, on the real code",
    ),
}

CLAIMED["C10"] = dict(
    category="exploration",
    text="Bounded-exhaustive input enumeration on the real front end: every token sequence of length <= 3 over a 71-symbol vocabulary (363k inputs), every directive x argument-list form (26k), every production at every sort (5k), every byte string of length <= 3 over a 12-byte alphabet as root and as import, and every single-token edit (delete/duplicate/swap/replace) of the mini corpus and small repository sources; each input is analysed in-process under catch_unwind in an isolated worker (abort, stack overflow and time-out are observed by the parent), every diagnostic is rendered through ariadne and through the CLI's own DiagnosticRenderer, and every reported span is checked against the file. Literal bodies: every character string of length <= 3 over 13 characters as a char and a string literal in an accepted and a rejected context (9,520 inputs). Inputs above the bounds, and deep nesting, are not covered.",
    design_ref="C10",
    note="Trusts catch_unwind + worker-process death as crash observers and a 30-120 s per-case watchdog as the loop observer; the CLI exit status itself is pinned by C16's process-level runs.",
    technique="bounded-exhaustive enumeration of token sequences, directive forms and token edits, each executed on the real front end under a panic/abort/time-out observer",
)
CLAIMED["C11"] = dict(
    category="exploration",
    text="For every base source (mini corpus + repository sources) and every token gap, each of 21 lexical irregularities x 4 followers is inserted and the real parser's root span is compared with the code tokens found by an independent hand-written scanner (validated against the repository lexer on all unmodified sources at start-up); plus every accepted mini program followed by 15 suffixes through the full front end. Exhaustive over gaps x irregularities for the files in the tier's size budget.",
    design_ref="C11",
    note="Trusts the reference scanner (self-checked against the real lexer on every unmodified corpus file before each run).",
    technique="exhaustive insertion of lexical irregularities at every token gap, oracle = independent scanner vs parsed root span",
)

UNI = "the program universe U(n): type-directed size-exact enumeration over 12 menus (complete below the per-menu size bound) plus 8 recursion/effect/record schemas with every hole filler below the filler bound (120k programs quick; one size step more in thorough), together with a System-F / F-omega mini universe (explicit type abstraction and application, aliases, existential packages, a type operator, value-level pure functions; 12.7k programs quick, each with all single-site mutants)"
CLAIMED["C01"] = dict(
    category="exploration",
    text="Every program of " + UNI + " is printed, accepted by the real front end, linked and stepped one public Eval::step at a time under catch_unwind; any unwind other than the defined arithmetic trap (or a host I/O failure of the legacy stream operations) is a violation attributed to the program text. Also: every mutant the checker accepts (reference-checker catalogue, variance negatives, System-F mutants) must not go wrong; 18 programs with a term hole in each position; 516 data/codata declarations over a small name pool; 1,870 existential-package openings (6 opening forms x 7 nestings x 9 binders x 6 bodies, an accepted pair escape would apply the wrong consumer); 378 constructor patterns in binder position x every run-time constructor; 168 fix-binder annotations. Decides the property for all programs below the bound; says nothing above it.",
    design_ref="C01",
    note="Trusts catch_unwind + panic location as the stuck-state observer and the harness's classification of defined traps.",
    technique="bounded-exhaustive program enumeration, each program stepped on the real interpreter under a stuck-state observer",
)
CLAIMED["C02"] = dict(
    category="exploration",
    text="Every program of " + UNI + ", printed under fresh naming and under maximal shadowing, is run on zydeco_dynamics::Runtime and on an independent big-step CBPV evaluator over the harness AST (no shared code with desugaring, resolution, linking or the CK machine); output bytes and final result must agree. Exhaustive below the bound. The System-F universe adds records (named components, projection, groups of projection patterns on records and packages; 6,180 programs) checked against a type-erasing evaluator.",
    design_ref="C02",
    note="Trusts the reference evaluator (boring by construction; validated by mass agreement) and the printer's precedence handling.",
    technique="bounded-exhaustive program enumeration with a differential oracle against an independent reference evaluator",
)
CLAIMED["C03"] = dict(
    category="exploration",
    text="Positive side: every program of " + UNI + " is well typed by construction in the reference system and printed with maximal annotations, so check must accept it. Negative side: every single-site mutant that the harness's reference checker rejects must be rejected (core catalogue on a stride of the universe; all 150k System-F / F-omega mutants incl. escaping abstract types). Type-equivalence matrix: all ordered pairs of 383 small types (quantifiers, free vs bound variables, an alias, pairs, existentials, operator applications) are accepted as equal iff alpha-equivalent. Declarations: 516 data/codata declarations over a pool of 3 names are accepted iff the names are distinct. Kinding: all 7.4k type expressions with <= 4 nodes (application, arrows, products, forall / exists / type-level fn at three binder kinds) are accepted iff a reference F-omega kinding judgment kinds them. Existential scoping: 1,462 programs (6 ways to open a package x 7 positions in a surrounding pattern x 7 binder constructs incl. value-level let x a control and 5 escape channels): control accepted, every escape rejected. Fix binders: 14 annotations x 4 bodies x 3 contexts accepted iff the annotation is transparently a thunk type.",
    design_ref="C03",
    note="Trusts the generator's typing discipline (type-directed construction) and the annotation policy; a rejected class is first treated as a generator bug.",
    technique="bounded-exhaustive enumeration of well-typed programs and of definite-error mutants, accept/reject oracle",
)
CLAIMED["C08"] = dict(
    category="model_checking",
    text="Explicit-state exploration of the real zydeco_utils::graph release protocol: all 66,066 directed graphs with self-loops on 1..4 nodes x 3 node numberings x hash seeds, every non-empty subset of offered groups (and single-node partial releases) as transitions, invariant checked in every state against transitive-closure SCCs; plus structured 5..8-node families. 8.8M states / 20M transitions in the quick tier.",
    design_ref="C08",
    note="States are deduplicated by released set with the offers re-compared on every revisit (path independence is itself checked). Hash seeds are owned through the getrandom interposer; K seeds is a bounded enumeration of the seed space, not all iteration orders.",
    technique="explicit-state model checking of the implementation's release protocol over all graphs up to 4 nodes",
    engine="zyv",
)
CLAIMED["C09"] = dict(
    category="model_checking",
    text="Every import edge set on 4 files (65,536 directory states) and every import/companion/signature-edge configuration on 3 files (111,616 states) is written to disk and loaded by the real CompilerSession::graph under several hash seeds; the answer is compared with a reference reachability/cycle DFS (sources, edges, signature pairing, provider order, reported cycle steps). Splice semantics: 14 consumer contexts x every assignment of 14 closed provider files (values, thunks, functions, type providers incl. a generative one, providers with companion signatures, a provider importing others) to their holes (924 programs): the multi-file program and the program with every import replaced textually by the parenthesised provider text get the same verdict and result, plus fixed generativity expectations. Path spellings: one file imported twice under every ordered pair of 9 spellings (relative, dotted, absolute, symlinked files, `..` after a symlink to a directory with another parent, with decoys where folding the text would land) with and without a back import under 4 spellings (405 directory states): one source per canonical file, cycles detected.",
    design_ref="C09",
    note="Random larger graphs and @[literal] splices are not covered. States = directory states, transitions = loads, all on the implementation.",
    technique="exhaustive enumeration of file-graph states, each loaded by the real loader and compared with a reference graph model",
)

CLAIMED["C04"] = dict(
    category="exploration",
    text="Every ordered arm list of length 0..k (k as large as a per-type budget allows; 25k matrices per type quick, 250k thorough) over all patterns of nesting depth <= 2, for 18 scrutinee types, is type-checked by the real checker and, when accepted, run on every enumerated value; the oracle is brute-force value enumeration (accept iff covered; reported missing patterns denote uncovered values and cover them all when not truncated; the first matching arm is taken). Comatches: every arm list of length <= 4 over codata with 0..3 destructors; generalized copatterns: every ordered list of <= 5 clauses over 8 spines (nested destructor paths, whole-subobject clauses, argument patterns; 37k lists) is accepted iff a reference says the observation tree is covered exactly once, and each observation selects the reference's clause. Binder patterns: every pattern of depth <= 2 over the same types in 5 binder constructs (820 one-row matrices) is accepted iff it matches every value.",
    design_ref="C04",
    note="Recursive types are enumerated to depth 3 (deeper than every pattern used). Alias patterns only with irrefutable members (the checker rejects others by design).",
    technique="bounded-exhaustive enumeration of pattern matrices with a brute-force value-enumeration oracle",
)
FMT = "sources = mini corpus + 43 formatter minis + grammar pairs (every production, parenthesised, in every one-hole context) + a stride of the generated programs of both universes + repository sources (size-limited per tier); deviations at every token gap (whitespace kinds, one parenthesised atom, one comment of 9 kinds); all 336 directive combinations on undeviated minis and 6 key configurations elsewhere (the 3 wide ones only for sources above 1500 bytes); each formatter call on the real PrettyFormatter under catch_unwind in a worker with a 120 s watchdog per case"
CLAIMED["C12"] = dict(
    category="exploration",
    text="Formatting is total and meaning-preserving: " + FMT + "; oracle: no unwind or hang, the output parses, and the desugared structure (bitter arena printed without ids/spans) of output and input are equal.",
    design_ref="C12",
    note="The structural comparison trusts bitter/fmt.rs (the repository's desugared-term printer) as a faithful serialiser; it shares no code with pretty.rs, the code under test.",
    technique="bounded-exhaustive enumeration of layout deviations x directive configurations with a reparse-and-desugar oracle",
)
CLAIMED["C13"] = dict(
    category="exploration",
    text="Formatting never loses source text: " + FMT + ", with each of the 9 comment kinds inserted at every visited token gap; oracle = independent hand-written scanner on input and output: identical ordered comment lists, and every name/literal token accounted for.",
    design_ref="C13",
    note="Comment position is checked only as order (the conservative reading); float literals are compared by value (the printer respells them).",
    technique="exhaustive comment insertion at token gaps with an independent-scanner oracle",
)
CLAIMED["C14"] = dict(
    category="exploration",
    text="Formatting is idempotent and canonical: " + FMT + "; oracle: fmt(fmt(x)) == fmt(x) bytewise, exactly one trailing newline, and horizontal-spacing / redundant single-line parenthesis deviations format to the same bytes as the undeviated source.",
    design_ref="C14",
    note="The `fmt --check` consistency clause is exercised through C16's process-level fmt runs; parenthesis canonicity only at widths >= 80 (single-line groups).",
    technique="bounded-exhaustive enumeration of layout deviations x directive configurations with a double-format oracle",
)
CLAIMED["C15"] = dict(
    category="model_checking",
    text="Stateless exploration of every history of <= 3 (thorough: 4) session operations (set_overlay, clear_overlay, write+refresh_disk, delete+refresh_disk over 4 interdependent files and 13 content variants; 34 operations) on a real long-lived CompilerSession, in three observation schedules (after every step, only at the end, with an analysis of the other root in between); after each observation a fresh session over the same directory and overlays must give the same graph, verdict, report messages and spans, query results and run result; two more schedules make every observation (warm-up included) on a snapshot that is dropped afterwards, as a language server does per request. 190k histories in the quick tier.",
    design_ref="C15",
    note="No state merging (memo state is history dependent). check_resolved is not in the alphabet yet.",
    technique="exhaustive enumeration of operation histories on the implementation with a fresh-session differential oracle",
)
CLAIMED["C16"] = dict(
    category="exploration",
    text="The real zydeco binary, one fresh process per (file, command, instance): compile/builtin fixtures x {check, run, build -t zir|zasm|asm|llvm}, fail/exec fixtures x {check, fmt}, multi-error programs x check; instances = hash seeds owned through an LD_PRELOAD getrandom interposer plus one run without ASLR; stdout, stderr and exit status must be byte-identical across instances. Plus in-process diagnostics of error-injected block shapes under 7 seeds, and 2.5k ill-typed programs of many error kinds plus 53 coverage rejections whose diagnostic lists several things (missing / repeated destructors, missing constructors) each checked by the real binary under 3 seeds.",
    design_ref="C16",
    note="A bounded enumeration of the hash-seed space (4 quick / 16 thorough), not of all iteration orders; address dependence only probed by ASLR on/off.",
    technique="enumeration of hash seeds per process (owned nondeterminism) with a byte-identity oracle across instances",
)
CLAIMED["C18"] = dict(
    category="exploration",
    text="Every accepted program of " + UNI + ", every runnable repository fixture under lib/tests and 9 hand-written binder forms is lowered stage by stage under catch_unwind (stack IR, closure conversion, assembly, renderers, AMD64 ELF/Mach-O, LLVM for 4 triples) and the SPSLow program is re-validated by an independent harness validator (closed root, blocks closed over their own label, unique labels, stack lets only around coproduct matches, unique comatch tags, sane product layouts, externs in the builtin table); emitted AMD64 text must not define a label twice.",
    design_ref="C18",
    note="Assembly-arena validation is limited to what the emitted text shows; the backend's unsupported pattern fragment is a known finding.",
    technique="bounded-exhaustive program enumeration through the real lowering pipeline with independent IR re-validation",
)
CLAIMED["C19"] = dict(
    category="translation_validation",
    text="Every accepted program of " + UNI + ", every runnable repository fixture under lib/tests and 9 hand-written binder forms is converted to first-order SPS by the real pipeline and run on the harness's SPSLow reference machine (layout-aware flat products, blocks closed over their own label, name-checked tags, host operations = the repository's implementations reached through the interpreter's Prim step); output and result must equal the interpreter's, and neither side may still be running after 200 times the other's steps. Hand-written forms add 60 recursive fix programs (variable / alias binder, five ways of entering) and matches without arms.",
    design_ref="C19",
    note="The machine is new code validated by mass agreement on the unchanged tree; native execution is unavailable offline.",
    technique="bounded-exhaustive program enumeration with per-program translation validation on a reference machine for the target IR",
)

CLAIMED["C06"] = dict(
    category="model_checking",
    text="All 126 host roles: (1) table agreement (arity vs declared classifier vs stack-IR table, names); (2) each role executed through Computation::Prim on a live Runtime with the full cross product of per-atom boundary domains read off its declared classifier (21k calls quick), generic oracle = exactly the declared arguments consumed and a result / continuation selection of the declared shape, plus an independent Vec<char> reference for the 16 text/bytes/char roles; (3) explicit-state exploration of every I/O operation sequence of length <= 3 (thorough 4) over a 25-operation alphabet on one live runtime against a handle/file model (closed handles stay closed, failures on the error continuation with the predicted kind, bytes equal the model); (4) for every role, the declared signature rendered to source is accepted and runs, and every one-position mutation of the classifier tree (6.4k mutants), relabelling to other roles and duplication is rejected; (5) 492 closed source programs call each role through a minimal Builtin signature (role first / last, two argument tuples) and print exactly what the Prim-level call gives. Decides the property on these domains; the I/O machine's file and stdin contents contain CR LF, CR CR LF and a final CR (line reading per docs/proposals/filesystem.md); argument values outside the boundary domains and OS-level I/O failures other than missing path / closed handle are not covered.",
    design_ref="C06",
    note="Trusts the harness's reading of the classifier (BuiltinOperationAbi::for_role is the declared type; lib/std/builtin.zy is tied to it by the repository's own acceptance of the standard library, exercised by every corpus program) and the marker-thunk decoding of continuation selection.",
    technique="exhaustive enumeration of roles x boundary argument tuples, of all short I/O operation sequences against a reference model, and of all one-position signature mutations, on the real code",
)
CLAIMED["C07"] = dict(
    category="exploration",
    text="(a) Probes: 33 binding forms x 5 enclosing layers x 4 providers of a same-named outer binding, plus block/boundary probes: the reference scoping discipline predicts which binder an occurrence denotes and the real resolver+checker+interpreter must agree (observable through distinct literal values). (b) Renaming: every program of the universe printed under four naming strategies (all fresh; one name for everything the scoping rules allow; a 3-name pool; binders named after types used in their own annotations) must be accepted alike and produce the same output and result. (c) Pattern shadowing: 9 pattern shapes x every assignment of two names to the leaves x 10 binder constructs incl. `that`: a repeated name denotes the last component binding it. Exhaustive below the universe bound (quick tier: every 3rd program for renaming).",
    design_ref="C07",
    note="Trusts the printer's capture-avoidance computation (which names a binder may take without capturing a later use), itself validated by agreement on the unchanged tree.",
    technique="bounded-exhaustive enumeration of scoping probes and of alpha-variants of every universe program, differential oracle between variants on the real pipeline",
)
CLAIMED["C20"] = dict(
    category="exploration",
    text="Every Ret-rooted program of the universe's effect-free menus is placed in a monadic frame (local Monad and Algebra structures passed through the repository's monadic-block elaboration) for the identity monad and for a continuation monad, and the elaborated program's observable result on the real pipeline must equal the direct program's result and the reference evaluator's. Exhaustive below the bound; other monads and the primitive-effect boundary are not covered.",
    design_ref="C20",
    note="Trusts the two hand-written monad/algebra structures (validated by mass agreement) and the reference evaluator.",
    technique="bounded-exhaustive program enumeration, differential oracle between direct and monadically elaborated execution on the real pipeline",
)

CLAIMED["C17"] = dict(
    category="model_checking",
    text="Deviation-bounded exhaustive schedule exploration of the real CompilerSession under shuttle's execution engine with a custom scheduler: salsa compiled in its shuttle mode (every lock, condvar and atomic inside salsa is a scheduling point), the session's DashMap shard locks replaced by a scheduler-aware lock, the key-space counter made visible through the zydeco_verif hook. Ten closed harnesses (snapshot readers vs owner edits on the same and on different roots, edit + revert, first load racing an overlay, independent IdAllocators racing an analysis, externally resolved programs through check_resolved, per-root facts recomputed after the single-entry arena memo was evicted by another root), each explored for ALL schedules with at most 1 preemption (2 for the two-thread harnesses) in the quick tier — 0.2M executions, each in a forked child of one warmed-up parent, each replayed deviation checked for divergence — against a sequential fresh-session oracle per snapshot; thorough: one more preemption, capped (cap and pending count reported). Second part (engine zyv): explicit-state exploration of the language server's refresh/commit protocol — every protocol-valid history of <= 6 events (didOpen / didChange / didSave / didClose / let the oldest or second-oldest unfinished handler commit / documentSymbol request) on the real cajun::Cajun handlers, polled by the harness on a current-thread tokio runtime (48k histories quick), oracle = every answer lists the symbols of the text the document has at that moment. Says nothing above the preemption bound or the history depth, about weak memory, or about tokio's own scheduler.",
    design_ref="C17",
    note="Trusts shuttle's engine (one vendored line changed so that locks released while unwinding with salsa::Cancelled still wake their waiters), the vendored dashmap lock shim and the poisoning-tolerant salsa shim; code between two scheduling points runs atomically.",
    technique="stateless model checking of the implementation: exhaustive enumeration of thread schedules up to a preemption bound under a controlled scheduler",
    engine="zys",
)

NOT_YET = {}

def main():
    props = [json.loads(l) for l in open(os.path.join(ROOT, "properties.jsonl"))]
    checks = []
    na = []
    for p in props:
        pid = p["id"]
        if pid in CLAIMED:
            c = CLAIMED[pid]
            checks.append({
                "property_id": pid,
                "quick_cmd": f"scripts/check {pid} quick",
                "thorough_cmd": f"scripts/check {pid} thorough",
                "evidence_file": f"evidence/{pid}.json",
                "replay_cmd_template": "scripts/replay {path}",
                "engine": c.get("engine", "zyv"),
                "level_claimed": {"category": c["category"], "text": c["text"], "design_ref": "DESIGN.md section " + c["design_ref"]},
                "level_note": c["note"],
                "technique": c["technique"],
            })
        else:
            na.append({"property_id": pid, "reason": NOT_YET.get(pid, "check not built yet in this round (work in progress; see DESIGN.md for the planned bounded-exhaustive check)")})
    manifest = {
        "version": 1,
        "setup_cmd": "scripts/setup.sh",
        "hooks": {
            "guard": "--cfg zydeco_verif",
            "enable": "only C17 builds /repo with the guard on: /verif/sched/.cargo/config.toml sets rustflags --cfg zydeco_verif and ZYDECO_VERIF_SYNC=sched/shim/verif_sync.rs (the atomic wrapper included by lang/utils/src/arena.rs under the guard); every other check builds /repo with the guard off",
            "baseline_off_cmd": "cd /repo && cargo nextest run --workspace --no-fail-fast --tool-config-file pb:/w/lib/nextest.toml --profile pb --test-threads 8 --offline",
            "source_commits": ["0e2af57", "762c9b7"],
            "add_only": True,
        },
        "engines": [
            {"name": "zys", "path": "sched", "serves_properties": ["C17"],
             "kind_free_text": "separate cargo workspace: custom shuttle Scheduler (deviation-bounded DFS over schedules, fork per execution), salsa with its shuttle feature, vendored shims for dashmap / salsa sync / shuttle-engine"},
            {"name": "zyv", "path": "engine", "serves_properties": [c["property_id"] for c in checks if c["engine"] == "zyv"] + ["C17"],
             "kind_free_text": "Rust harness crate path-depending on /repo's crates; bounded-exhaustive case enumeration, each case executed on the real implementation in crash/timeout-isolated worker processes and compared against harness reference models"},
        ],
        "checks": checks,
        "not_applicable": na,
        "notes": "All checks rebuild the harness from /repo's working tree (cargo path dependencies) before running. Known findings: known_findings.json.",
    }
    json.dump(manifest, open(os.path.join(ROOT, "MANIFEST.json"), "w"), indent=1)
    print("wrote MANIFEST.json:", len(checks), "claimed,", len(na), "not claimed")

main()
