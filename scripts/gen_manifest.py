#!/usr/bin/env python3
"""Generate /verif/MANIFEST.json from the table below (single source of truth)."""
import json, os
ROOT = os.path.dirname(os.path.dirname(os.path.abspath(__file__)))

CLAIMED = {
    "C05": dict(
        category="exploration",
        text="Exhaustive for the 8-bit types (all 65,536 operand pairs x 8 roles, all 256 to_string, per type), boundary cross products for wider integers and floats, and all literal spellings around every range boundary, each executed on the real dispatch path (Computation::Prim stepped on a live Runtime; closed literal programs through CompilerSession::analyze and the interpreter) against an i128 reference. Above the boundary sets nothing is claimed.",
        design_ref="C05",
        note="Trusts rustc's i128/f64 arithmetic for the reference, the harness's reading of literals, catch_unwind as panic observer.",
        technique="bounded-exhaustive enumeration of operand pairs and literal programs against a reference model, on the real code",
    ),
}

CLAIMED["C10"] = dict(
    category="exploration",
    text="Bounded-exhaustive input enumeration on the real front end: every token sequence of length <= 3 over a 71-symbol vocabulary (363k inputs), every directive x argument-list form (26k), every production at every sort (5k), every byte string of length <= 3 over a 12-byte alphabet as root and as import, and every single-token edit (delete/duplicate/swap/replace) of the mini corpus and small repository sources; each input is analysed in-process under catch_unwind in an isolated worker (abort, stack overflow and time-out are observed by the parent), every diagnostic is rendered through ariadne and through the CLI's own DiagnosticRenderer, and every reported span is checked against the file. Inputs above the bounds, and deep nesting, are not covered.",
    design_ref="C10",
    note="Trusts catch_unwind + worker-process death as crash observers and a 30-120 s per-case watchdog as the loop observer; the CLI exit status itself is pinned by C16's process-level runs.",
    technique="bounded-exhaustive enumeration of token sequences, directive forms and token edits, each executed on the real front end under a panic/abort/time-out observer",
)
CLAIMED["C11"] = dict(
    category="exploration",
    text="For every base source (mini corpus + repository sources) and every token gap, each of 21 lexical irregularities x 4 followers is inserted and the real parser's root span is compared with the code tokens found by an independent hand-written scanner (validated against the repository lexer on all unmodified sources at start-up); plus every accepted mini program followed by 15 suffixes through the full front end. Exhaustive over gaps x irregularities for the files in the tier's size budget.",
    design_ref="C11",
    note="Trusts the reference scanner (self-checked against the real lexer on every unmodified corpus file before each run).",
    technique="exhaustive insertion of lexical irregularities at every token gap, oracle = independent scanner vs parsed root span",
)

NOT_YET = {}

def main():
    props = [json.loads(l) for l in open(os.path.join(ROOT, "properties.jsonl"))]
    checks = []
    na = []
    for p in props:
        pid = p["id"]
        if pid in CLAIMED:
            c = CLAIMED[pid]
            checks.append({
                "property_id": pid,
                "quick_cmd": f"scripts/check {pid} quick",
                "thorough_cmd": f"scripts/check {pid} thorough",
                "evidence_file": f"evidence/{pid}.json",
                "replay_cmd_template": "scripts/replay {path}",
                "engine": c.get("engine", "zyv"),
                "level_claimed": {"category": c["category"], "text": c["text"], "design_ref": "DESIGN.md section " + c["design_ref"]},
                "level_note": c["note"],
                "technique": c["technique"],
            })
        else:
            na.append({"property_id": pid, "reason": NOT_YET.get(pid, "check not built yet in this round (work in progress; see DESIGN.md for the planned bounded-exhaustive check)")})
    manifest = {
        "version": 1,
        "setup_cmd": "scripts/setup.sh",
        "hooks": {
            "guard": "--cfg zydeco_verif",
            "enable": "none needed: all checks drive public API of the crates under /repo via path dependencies; no source hooks exist",
            "baseline_off_cmd": "cd /repo && cargo nextest run --workspace --no-fail-fast --tool-config-file pb:/w/lib/nextest.toml --profile pb --test-threads 8 --offline",
            "source_commits": [],
            "add_only": True,
        },
        "engines": [
            {"name": "zyv", "path": "engine", "serves_properties": [c["property_id"] for c in checks if c["engine"] == "zyv"],
             "kind_free_text": "Rust harness crate path-depending on /repo's crates; bounded-exhaustive case enumeration, each case executed on the real implementation in crash/timeout-isolated worker processes and compared against harness reference models"},
        ],
        "checks": checks,
        "not_applicable": na,
        "notes": "All checks rebuild the harness from /repo's working tree (cargo path dependencies) before running. Known findings: known_findings.json.",
    }
    json.dump(manifest, open(os.path.join(ROOT, "MANIFEST.json"), "w"), indent=1)
    print("wrote MANIFEST.json:", len(checks), "claimed,", len(na), "not claimed")

main()
