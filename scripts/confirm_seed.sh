#!/bin/bash
# usage: confirm_seed.sh <worktree>  — re-run the repository suite on a seeded change and compare with the baseline
WT="$1"
export CARGO_PROFILE_DEV_DEBUG=0 CARGO_PROFILE_TEST_DEBUG=0 CARGO_INCREMENTAL=0 CARGO_NET_OFFLINE=true RUST_BACKTRACE=0
cd "$WT" || exit 2
git diff --stat HEAD > _result/confirm_diffstat.txt
cargo nextest run --workspace --no-fail-fast --tool-config-file pb:/w/lib/nextest.toml --profile pb --test-threads 8 --offline > _result/confirm_suite.log 2>&1
python3 /verif/scripts/baseline_compare.py "$WT/target/nextest/pb/junit.xml" > _result/confirm_baseline.txt 2>&1
echo "baseline exit $?" >> _result/confirm_baseline.txt
cat _result/confirm_baseline.txt
