#!/bin/bash
set -e
cd "$(dirname "$0")/../sched"
export CARGO_NET_OFFLINE=true
CARGO_TARGET_DIR=../target/sched cargo build --offline 2>&1 | tail -2
