#!/usr/bin/env python3
"""Merge the evidence written by the two C17 engines (schedule explorer, LSP protocol explorer)."""
import json, sys, os
root = os.path.dirname(os.path.dirname(os.path.abspath(__file__)))
a = json.load(open(os.path.join(root, "build/C17-sched.json")))
b = json.load(open(os.path.join(root, "build/C17-lsp.json")))
ca, cb = a["coverage"], b["coverage"]
cov = {
    "exhaustive": bool(ca.get("exhaustive")) and bool(cb.get("exhaustive", True)),
    "rule": "[schedules] " + ca["rule"] + " || [lsp] " + cb["rule"],
    "evaluations": ca["evaluations"] + cb["evaluations"],
    "distinct_nontrivial": ca["distinct_nontrivial"] + cb["distinct_nontrivial"],
    "states": ca["states"] + cb.get("counters", {}).get("states", 0),
    "transitions": ca["transitions"] + cb.get("counters", {}).get("transitions", 0),
    "traces_validated_against_impl": ca["traces_validated_against_impl"] + cb.get("counters", {}).get("traces", 0),
    "samples": (ca.get("samples") or [])[:12] + (cb.get("samples") or [])[:6],
    "explanation": ca.get("explanation", "") + " For the LSP part states = histories and transitions = events executed on the real server.",
    "schedule_exploration": {k: ca[k] for k in ca if k in ("harnesses", "counters", "known_findings_hit")},
    "lsp_protocol": {k: cb[k] for k in cb if k in ("counters", "evaluations", "distinct_nontrivial", "known_findings_hit", "by_check")},
}
out = {
    "property_id": "C17", "tier": a["tier"], "level": "model_checking", "seed": 0,
    "wall_s": a["wall_s"] + b["wall_s"],
    "coverage": cov,
    "assumptions": a.get("assumptions", []) + b.get("assumptions", []) + ["LSP part: after a handler starts an analysis the harness waits for the analysis to finish before the next event (cancellation in the middle of an analysis is the schedule explorer's part)"],
    "violations": int(a.get("violations", 0)) + int(b.get("violations", 0)),
}
json.dump(out, open(os.path.join(root, "evidence/C17.json"), "w"), indent=1)
