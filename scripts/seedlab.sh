#!/bin/bash
# Scratch lab for trying seeded changes without touching /repo:
#   seedlab.sh init                 create $ST (worktree of /repo HEAD + engine copy with rewritten paths)
#   seedlab.sh try <patch> <prop> [tier]   apply patch, rebuild, run zyv check <prop>, revert; prints verdict
#   seedlab.sh sync                 refresh engine sources from /verif/engine
#   seedlab.sh done                 remove everything
ST=${ST:-/tmp/lab}
export CARGO_NET_OFFLINE=true RUST_BACKTRACE=0 VERIF_ROOT="$ST/v" VERIF_REPO="$ST/repo"
sync_engine() {
  rsync -a --delete --exclude target /verif/engine "$ST/"
  grep -rl "/repo/" "$ST/engine/Cargo.toml" "$ST/engine/src/bin" 2>/dev/null | xargs -r sed -i "s|/repo/|$ST/repo/|g"
  cp /verif/known_findings.json "$ST/v/"
}
case "$1" in
  init)
    rm -rf "$ST"; mkdir -p "$ST/v/build" "$ST/v/evidence"
    git -C /repo worktree add --detach "$ST/repo" HEAD >/dev/null 2>&1 || { echo "cannot create worktree"; exit 2; }
    sync_engine
    cp /verif/build/libzyv_getrandom.so "$ST/v/build/" 2>/dev/null
    (cd "$ST/engine" && CARGO_TARGET_DIR="$ST/target" cargo build --offline 2>&1 | tail -2) ;;
  sync) sync_engine ;;
  try)
    patch=$2; prop=$3; tier=${4:-quick}
    git -C "$ST/repo" reset -q --hard
    [ -s "$patch" ] && { git -C "$ST/repo" apply "$patch" || { echo "patch does not apply"; exit 2; }; }
    sync_engine
    (cd "$ST/engine" && CARGO_TARGET_DIR="$ST/target" cargo build --offline > "$ST/build.log" 2>&1) || { echo "build failed"; tail -20 "$ST/build.log"; git -C "$ST/repo" reset -q --hard; exit 2; }
    (cd "$ST/v" && "$ST/target/debug/zyv" check "$prop" "$tier" > "$ST/out.txt" 2>&1); rc=$?
    git -C "$ST/repo" reset -q --hard
    echo "exit=$rc violations=$(grep -c '^VIOLATION' "$ST/out.txt")"
    grep -E "^ +[0-9]+ x " "$ST/out.txt" | head -8 | cut -c1-260 ;;
  try17)
    # C17 needs both engines: the schedule explorer (zys) and the LSP protocol part of zyv
    patch=$2; tier=${3:-quick}
    git -C "$ST/repo" reset -q --hard
    [ -s "$patch" ] && { git -C "$ST/repo" apply "$patch" || { echo "patch does not apply"; exit 2; }; }
    sync_engine
    rsync -a --delete --exclude target /verif/sched "$ST/"
    grep -rl "/repo/" "$ST/sched/zys/Cargo.toml" | xargs -r sed -i "s|/repo/|$ST/repo/|g"
    (cd "$ST/sched" && CARGO_TARGET_DIR="$ST/target-sched" cargo build --offline > "$ST/build17.log" 2>&1) || { echo "sched build failed"; tail -20 "$ST/build17.log"; git -C "$ST/repo" reset -q --hard; exit 2; }
    (cd "$ST/engine" && CARGO_TARGET_DIR="$ST/target" cargo build --offline > "$ST/build.log" 2>&1) || { echo "build failed"; tail -20 "$ST/build.log"; git -C "$ST/repo" reset -q --hard; exit 2; }
    (cd "$ST/v" && "$ST/target-sched/debug/zys" check "$tier" > "$ST/out.txt" 2>&1; echo "zys exit=$?" >> "$ST/out.txt"; "$ST/target/debug/zyv" check C17 "$tier" >> "$ST/out.txt" 2>&1; echo "zyv exit=$?" >> "$ST/out.txt")
    git -C "$ST/repo" reset -q --hard
    echo "violations=$(grep -c '^VIOLATION' "$ST/out.txt")"; grep "exit=" "$ST/out.txt"
    grep -E "^ +[0-9]+ x |findings" "$ST/out.txt" | head -12 | cut -c1-260 ;;
  done)
    git -C /repo worktree remove --force "$ST/repo"; git -C /repo worktree prune; rm -rf "$ST" ;;
esac
