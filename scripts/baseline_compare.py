#!/usr/bin/env python3
"""Compare the last nextest run of /repo (junit) with the pinned baseline's stable_pass list."""
import json, sys, xml.etree.ElementTree as ET
junit = sys.argv[1] if len(sys.argv) > 1 else "/repo/target/nextest/pb/junit.xml"
base = json.load(open("/root/.vp/BASELINE.json"))["stable_pass"]
root = ET.parse(junit).getroot()
passed, failed = set(), set()
for suite in root.iter("testsuite"):
    sname = suite.get("name")
    for case in suite.iter("testcase"):
        name = f"{sname}::{case.get('name')}"
        bad = any(ch.tag in ("failure", "error") for ch in case)
        (failed if bad else passed).add(name)
missing = [t for t in base if t not in passed]
print(f"baseline stable_pass={len(base)} passed_now={len(passed)} failed_now={len(failed)} baseline_tests_not_passing={len(missing)}")
for t in missing[:40]:
    print("  NOT PASSING:", t)
sys.exit(1 if missing else 0)
