#!/bin/bash
# usage: adopt_seed.sh <worktree> <seed-name> "<which checks caught it / note>"
WT="$1"; NAME="$2"; NOTE="$3"
D=/verif/seeded/$NAME
mkdir -p "$D"
cd "$WT/_result" || exit 2
for f in *; do
  case "$f" in zydeco.before|*.log|suite*|confirm_suite.log) continue;; esac
  if [ -f "$f" ] && [ $(stat -c %s "$f") -lt 200000 ]; then cp "$f" "$D/"; fi
  if [ -d "$f" ]; then cp -r "$f" "$D/"; fi
done
python3 - "$D" "$NOTE" <<'PY'
import json,sys,os
d,note=sys.argv[1],sys.argv[2]
m=json.load(open(os.path.join(d,'meta.json')))
conf=open(os.path.join(d,'confirm_baseline.txt')).read().strip() if os.path.exists(os.path.join(d,'confirm_baseline.txt')) else 'not re-run'
m['confirmed_by_verifier']={'suite_rerun_in_scratch_worktree':conf,'checks_run_against_patch':note}
json.dump(m,open(os.path.join(d,'meta.json'),'w'),indent=1)
PY
ls "$D"
