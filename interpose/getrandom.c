/* Hash-seed ownership (DESIGN E3): std's RandomState draws its SipHash keys through the libc
 * `getrandom` symbol once per thread.  This interposer answers from a splitmix64 stream seeded by
 * VERIF_HASH_SEED (or zyv_set_hash_seed), so hash-map iteration orders are a function of the seed. */
#define _GNU_SOURCE
#include <stddef.h>
#include <stdint.h>
#include <stdlib.h>
#include <string.h>
#include <sys/types.h>

static uint64_t state;
static int initialised;

void zyv_set_hash_seed(uint64_t k) {
    state = k * 0x9E3779B97F4A7C15ULL + 0x2545F4914F6CDD1DULL;
    initialised = 1;
}

static uint64_t next(void) {
    uint64_t z = (state += 0x9E3779B97F4A7C15ULL);
    z = (z ^ (z >> 30)) * 0xBF58476D1CE4E5B9ULL;
    z = (z ^ (z >> 27)) * 0x94D049BB133111EBULL;
    return z ^ (z >> 31);
}

ssize_t getrandom(void *buf, size_t len, unsigned int flags) {
    (void)flags;
    if (!initialised) {
        const char *e = getenv("VERIF_HASH_SEED");
        zyv_set_hash_seed(e ? strtoull(e, 0, 10) : 0);
    }
    unsigned char *p = buf;
    size_t i = 0;
    while (i < len) {
        uint64_t v = next();
        size_t n = len - i < 8 ? len - i : 8;
        memcpy(p + i, &v, n);
        i += n;
    }
    return (ssize_t)len;
}

int getentropy(void *buf, size_t len) {
    getrandom(buf, len, 0);
    return 0;
}
