// Included into zydeco-utils' arena.rs when built with `--cfg zydeco_verif` (see /verif/DESIGN.md, C17).
// A std atomic whose every operation is preceded by a scheduling point of the controlled scheduler.
pub use std::sync::atomic::Ordering;

unsafe extern "C" {
    fn zyv_sched_point();
}

#[inline]
fn point() {
    unsafe { zyv_sched_point() }
}

pub struct AtomicU64(std::sync::atomic::AtomicU64);

#[allow(dead_code)]
impl AtomicU64 {
    pub const fn new(v: u64) -> Self {
        Self(std::sync::atomic::AtomicU64::new(v))
    }
    pub fn load(&self, o: Ordering) -> u64 {
        point();
        self.0.load(o)
    }
    pub fn store(&self, v: u64, o: Ordering) {
        point();
        self.0.store(v, o)
    }
    pub fn swap(&self, v: u64, o: Ordering) -> u64 {
        point();
        self.0.swap(v, o)
    }
    pub fn fetch_add(&self, v: u64, o: Ordering) -> u64 {
        point();
        self.0.fetch_add(v, o)
    }
    pub fn fetch_max(&self, v: u64, o: Ordering) -> u64 {
        point();
        self.0.fetch_max(v, o)
    }
    pub fn compare_exchange(&self, c: u64, n: u64, s: Ordering, f: Ordering) -> Result<u64, u64> {
        point();
        self.0.compare_exchange(c, n, s, f)
    }
    pub fn compare_exchange_weak(&self, c: u64, n: u64, s: Ordering, f: Ordering) -> Result<u64, u64> {
        point();
        self.0.compare_exchange(c, n, s, f)
    }
    pub fn fetch_update<F>(&self, s: Ordering, f: Ordering, g: F) -> Result<u64, u64>
    where
        F: FnMut(u64) -> Option<u64>,
    {
        point();
        self.0.fetch_update(s, f, g)
    }
}
