//! The closed concurrent drivers (small, sharp, forced to collide) and their oracles.
use crate::explore::{ChildReport, Explorer};
use crate::IN_EXECUTION;
use std::collections::BTreeMap;
use std::panic::AssertUnwindSafe;
use std::path::{Path, PathBuf};
use std::sync::atomic::Ordering;
use std::sync::{Arc, Mutex};
use zydeco_session::{AnalysisOutcome, CompilerSession};
use zydeco_utils::arena::{Allocates, ArenaId, IdAllocator};

pub struct Harness {
    pub name: &'static str,
    pub about: &'static str,
    pub threads: usize,
    pub bound_quick: u32,
    pub bound_thorough: u32,
    pub cap_quick: u64,
    pub cap_thorough: u64,
    /// thorough tier only: branch for the last preemption only within this many choice points after the previous one
    pub window: Option<u32>,
    pub body: fn(&Ctx),
    pub judge: fn(&Ctx, &BTreeMap<String, String>) -> Result<(), String>,
    pub oracles: fn(&PathBuf) -> BTreeMap<String, String>,
}

#[derive(Clone)]
pub struct Ctx {
    pub dir: PathBuf,
    /// sequential oracle observations, by contents key
    pub oracle: BTreeMap<String, String>,
}

/* ----------------------------------- observations ----------------------------------- */

static OBS: Mutex<Vec<(String, String)>> = Mutex::new(Vec::new());
static LAST_PANIC: Mutex<Option<String>> = Mutex::new(None);

pub fn panic_hook(info: &std::panic::PanicHookInfo<'_>) {
    let msg = if let Some(s) = info.payload().downcast_ref::<&str>() {
        s.to_string()
    } else if let Some(s) = info.payload().downcast_ref::<String>() {
        s.clone()
    } else {
        "<non-string panic payload>".to_string()
    };
    let loc = info.location().map(|l| format!("{}:{}", l.file(), l.line())).unwrap_or_default();
    let mut g = LAST_PANIC.lock().unwrap_or_else(|e| e.into_inner());
    if g.is_none() {
        *g = Some(format!("{msg} at {loc}"));
    }
}

fn record(label: &str, value: String) {
    OBS.lock().unwrap_or_else(|e| e.into_inner()).push((label.to_string(), value));
}

const ROOT: &str = "let Ret = @(intrinsic(ret)) in let Int64 = @(intrinsic(i64)) in let x : Int64 = @(import(\"lib.zy\")) in ret x";
const ROOT2: &str = "let Ret = @(intrinsic(ret)) in let x = @(import(\"lib.zy\")) in let y = @(import(\"other.zy\")) in ret (x, y)";
const LIB_V1: &str = "1";
const LIB_V2: &str = "\"s\"";
const OTHER_V1: &str = "7";
const OTHER_V2: &str = "\"eight\"";

fn write_files(dir: &Path) {
    let _ = std::fs::remove_dir_all(dir);
    std::fs::create_dir_all(dir).unwrap();
    std::fs::write(dir.join("root.zy"), ROOT).unwrap();
    std::fs::write(dir.join("root2.zy"), ROOT2).unwrap();
    std::fs::write(dir.join("lib.zy"), LIB_V1).unwrap();
    std::fs::write(dir.join("other.zy"), OTHER_V1).unwrap();
}

/// What one analysis shows, with identities masked: verdict, report messages with their
/// locations, and the text of every source the analysis was computed from.
pub fn observe(session: &CompilerSession, dir: &Path, root: &str) -> String {
    let path = dir.join(root);
    let mask = |s: String| s.replace(&dir.display().to_string(), "DIR");
    match session.analyze(&path) {
        | Ok(analysis) => {
            let mut out = vec![];
            match analysis.outcome() {
                | AnalysisOutcome::Checked { .. } => out.push("checked".to_string()),
                | AnalysisOutcome::Rejected { reports } => {
                    out.push("rejected".to_string());
                    for s in reports.spans.iter() {
                        match s {
                            | Some((p, r, msg)) => out.push(mask(format!("report {}:{:?} {}", p.as_path().display(), r, msg.lines().next().unwrap_or("")))),
                            | None => out.push("report <no span>".into()),
                        }
                    }
                }
            }
            let mut srcs: Vec<String> = analysis.sources().map(|(p, t)| mask(format!("{}={:?}", p.display(), t))).collect();
            srcs.sort();
            out.extend(srcs);
            out.join(" | ")
        }
        | Err(e) => mask(format!("error {e}")),
    }
}

fn reader(label: &'static str, snap: CompilerSession, dir: PathBuf, root: &'static str) -> shuttle::thread::JoinHandle<()> {
    shuttle::thread::spawn(move || {
        let r = salsa::Cancelled::catch(AssertUnwindSafe(|| observe(&snap, &dir, root)));
        // a cancelled reader must let go of its snapshot, or the writer waits for ever
        drop(snap);
        record(
            label,
            match r {
                | Ok(o) => o,
                | Err(_) => "cancelled".into(),
            },
        );
    })
}

/* -------------------------------------- oracles -------------------------------------- */

/// fresh-session observation of `root` with the given overlays installed (run sequentially)
fn fresh(dir: &Path, root: &str, overlays: &[(&str, &str)]) -> String {
    let mut s = CompilerSession::default();
    for (f, t) in overlays {
        s.set_overlay(dir.join(f), t.to_string()).unwrap();
    }
    observe(&s, dir, root)
}

fn oracles_lib(dir: &PathBuf) -> BTreeMap<String, String> {
    let mut m = BTreeMap::new();
    m.insert("root/v1".into(), fresh(dir, "root.zy", &[]));
    m.insert("root/v2".into(), fresh(dir, "root.zy", &[("lib.zy", LIB_V2)]));
    m.insert("root2/v1".into(), fresh(dir, "root2.zy", &[]));
    m.insert("root2/v2".into(), fresh(dir, "root2.zy", &[("lib.zy", LIB_V2)]));
    m.insert("root2/other2".into(), fresh(dir, "root2.zy", &[("other.zy", OTHER_V2)]));
    m
}

fn expect_in(obs: &BTreeMap<String, String>, label: &str, allowed: &[(&str, &str)]) -> Result<String, String> {
    let Some(v) = obs.get(label) else { return Err(format!("thread `{label}` recorded no result")) };
    for (name, a) in allowed {
        if v == a {
            return Ok(name.to_string());
        }
    }
    Err(format!("`{label}` observed a result that is none of {:?}: {}", allowed.iter().map(|(n, _)| *n).collect::<Vec<_>>(), v))
}

/* -------------------------------------- harnesses -------------------------------------- */

fn h1_body(ctx: &Ctx) {
    let dir = ctx.dir.clone();
    let mut s = CompilerSession::default();
    let r1 = reader("r1", s.snapshot(), dir.clone(), "root.zy");
    let r2 = reader("r2", s.snapshot(), dir.clone(), "root.zy");
    s.set_overlay(dir.join("lib.zy"), LIB_V2.to_string()).unwrap();
    let r3 = reader("r3", s.snapshot(), dir.clone(), "root.zy");
    record("own", observe(&s, &dir, "root.zy"));
    r1.join().unwrap();
    r2.join().unwrap();
    r3.join().unwrap();
    record("own-final", observe(&s, &dir, "root.zy"));
}

fn h1b_body(ctx: &Ctx) {
    // same as h1, but the owner lets the readers run first (a voluntary yield is not a preemption),
    // so the schedules within the bound are those where the edit lands in the middle of an analysis
    let dir = ctx.dir.clone();
    let mut s = CompilerSession::default();
    let r1 = reader("r1", s.snapshot(), dir.clone(), "root.zy");
    let r2 = reader("r2", s.snapshot(), dir.clone(), "root.zy");
    shuttle::thread::yield_now();
    s.set_overlay(dir.join("lib.zy"), LIB_V2.to_string()).unwrap();
    let r3 = reader("r3", s.snapshot(), dir.clone(), "root.zy");
    shuttle::thread::yield_now();
    record("own", observe(&s, &dir, "root.zy"));
    r1.join().unwrap();
    r2.join().unwrap();
    r3.join().unwrap();
    record("own-final", observe(&s, &dir, "root.zy"));
}

fn h1_judge(ctx: &Ctx, obs: &BTreeMap<String, String>) -> Result<(), String> {
    let v1 = ctx.oracle["root/v1"].as_str();
    let v2 = ctx.oracle["root/v2"].as_str();
    expect_in(obs, "r1", &[("cancelled", "cancelled"), ("v1", v1)])?;
    expect_in(obs, "r2", &[("cancelled", "cancelled"), ("v1", v1)])?;
    expect_in(obs, "r3", &[("v2", v2)])?;
    expect_in(obs, "own", &[("v2", v2)])?;
    expect_in(obs, "own-final", &[("v2", v2)])?;
    Ok(())
}

fn h2_body(ctx: &Ctx) {
    let dir = ctx.dir.clone();
    let mut s = CompilerSession::default();
    let r1 = reader("r1", s.snapshot(), dir.clone(), "root.zy");
    let r2 = reader("r2", s.snapshot(), dir.clone(), "root2.zy");
    s.set_overlay(dir.join("lib.zy"), LIB_V2.to_string()).unwrap();
    let r3 = reader("r3", s.snapshot(), dir.clone(), "root2.zy");
    s.clear_overlay(dir.join("lib.zy")).unwrap();
    record("own", observe(&s, &dir, "root.zy"));
    r1.join().unwrap();
    r2.join().unwrap();
    r3.join().unwrap();
    record("own-final", observe(&s, &dir, "root2.zy"));
}

fn h2b_body(ctx: &Ctx) {
    let dir = ctx.dir.clone();
    let mut s = CompilerSession::default();
    let r1 = reader("r1", s.snapshot(), dir.clone(), "root.zy");
    let r2 = reader("r2", s.snapshot(), dir.clone(), "root2.zy");
    shuttle::thread::yield_now();
    s.set_overlay(dir.join("lib.zy"), LIB_V2.to_string()).unwrap();
    let r3 = reader("r3", s.snapshot(), dir.clone(), "root2.zy");
    shuttle::thread::yield_now();
    s.clear_overlay(dir.join("lib.zy")).unwrap();
    record("own", observe(&s, &dir, "root.zy"));
    r1.join().unwrap();
    r2.join().unwrap();
    r3.join().unwrap();
    record("own-final", observe(&s, &dir, "root2.zy"));
}

fn h2_judge(ctx: &Ctx, obs: &BTreeMap<String, String>) -> Result<(), String> {
    expect_in(obs, "r1", &[("cancelled", "cancelled"), ("v1", &ctx.oracle["root/v1"])])?;
    expect_in(obs, "r2", &[("cancelled", "cancelled"), ("v1", &ctx.oracle["root2/v1"])])?;
    expect_in(obs, "r3", &[("cancelled", "cancelled"), ("v2", &ctx.oracle["root2/v2"])])?;
    expect_in(obs, "own", &[("v1", &ctx.oracle["root/v1"])])?;
    expect_in(obs, "own-final", &[("v1", &ctx.oracle["root2/v1"])])?;
    Ok(())
}

fn h3_body(ctx: &Ctx) {
    // nothing is loaded yet: the reader's first load of other.zy races with the owner's overlay on it
    let dir = ctx.dir.clone();
    let mut s = CompilerSession::default();
    let r1 = reader("r1", s.snapshot(), dir.clone(), "root2.zy");
    s.set_overlay(dir.join("other.zy"), OTHER_V2.to_string()).unwrap();
    record("own", observe(&s, &dir, "root2.zy"));
    r1.join().unwrap();
    record("own-final", observe(&s, &dir, "root2.zy"));
    let r2 = reader("r2", s.snapshot(), dir.clone(), "root2.zy");
    r2.join().unwrap();
}

fn h3b_body(ctx: &Ctx) {
    let dir = ctx.dir.clone();
    let mut s = CompilerSession::default();
    let r1 = reader("r1", s.snapshot(), dir.clone(), "root2.zy");
    shuttle::thread::yield_now();
    s.set_overlay(dir.join("other.zy"), OTHER_V2.to_string()).unwrap();
    record("own", observe(&s, &dir, "root2.zy"));
    r1.join().unwrap();
    record("own-final", observe(&s, &dir, "root2.zy"));
    let r2 = reader("r2", s.snapshot(), dir.clone(), "root2.zy");
    r2.join().unwrap();
}

fn h3_judge(ctx: &Ctx, obs: &BTreeMap<String, String>) -> Result<(), String> {
    expect_in(obs, "r1", &[("cancelled", "cancelled"), ("disk", &ctx.oracle["root2/v1"])])?;
    expect_in(obs, "own", &[("overlay", &ctx.oracle["root2/other2"])])?;
    expect_in(obs, "own-final", &[("overlay", &ctx.oracle["root2/other2"])])?;
    expect_in(obs, "r2", &[("overlay", &ctx.oracle["root2/other2"])])?;
    Ok(())
}

/* ---- facts recomputed after the arena memo (lru = 1) was evicted by another root ---- */

const ROOT_BAD: &str = "let Ret = @(intrinsic(ret)) in let Int64 = @(intrinsic(i64)) in let x : Int64 = \"s\" in let y : Int64 = @(import(\"lib.zy\")) in ret y";

fn facts(session: &CompilerSession, dir: &Path, root: &str) -> String {
    let path = dir.join(root);
    let first = observe(session, dir, root);
    let reports = match session.reports(&path) {
        | Ok(r) => format!("{}", r.map(|r| r.reports.len()).unwrap_or(0)),
        | Err(e) => format!("error {e}"),
    };
    let coverage = match session.coverage(&path) {
        | Ok(c) => format!("{}", c.len()),
        | Err(e) => format!("error {e}"),
    };
    // the analysis again: its memo may have been evicted in between
    let again = observe(session, dir, root);
    format!("{first} || reports {reports} || coverage {coverage} || again-equal {}", first == again)
}

fn oracles_facts(dir: &PathBuf) -> BTreeMap<String, String> {
    std::fs::write(dir.join("bad.zy"), ROOT_BAD).unwrap();
    let mut m = oracles_lib(dir);
    m.insert("facts/bad".into(), facts(&CompilerSession::default(), dir, "bad.zy"));
    m.insert("facts/root2".into(), facts(&CompilerSession::default(), dir, "root2.zy"));
    m
}

fn h6_body(ctx: &Ctx) {
    let dir = ctx.dir.clone();
    let s = CompilerSession::default();
    let worker = |label: &'static str, snap: CompilerSession, dir: PathBuf, root: &'static str| {
        shuttle::thread::spawn(move || {
            let r = salsa::Cancelled::catch(AssertUnwindSafe(|| facts(&snap, &dir, root)));
            drop(snap);
            record(label, r.unwrap_or_else(|_| "cancelled".into()));
        })
    };
    let t1 = worker("t1", s.snapshot(), dir.clone(), "bad.zy");
    let t2 = worker("t2", s.snapshot(), dir.clone(), "root2.zy");
    t1.join().unwrap();
    t2.join().unwrap();
    record("own", facts(&s, &dir, "bad.zy"));
}

fn h6_judge(ctx: &Ctx, obs: &BTreeMap<String, String>) -> Result<(), String> {
    expect_in(obs, "t1", &[("bad", &ctx.oracle["facts/bad"])])?;
    expect_in(obs, "t2", &[("root2", &ctx.oracle["facts/root2"])])?;
    expect_in(obs, "own", &[("bad", &ctx.oracle["facts/bad"])])?;
    Ok(())
}

zydeco_utils::new_key_type! { pub struct NodeId; }
pub enum Nodes {}
impl Allocates<NodeId> for Nodes {}

fn h4_body(ctx: &Ctx) {
    let dir = ctx.dir.clone();
    let s = CompilerSession::default();
    let alloc = |label: &'static str| {
        shuttle::thread::spawn(move || {
            let mut a = IdAllocator::<Nodes>::new();
            let mut b = IdAllocator::<Nodes>::new();
            let x: NodeId = a.alloc();
            let y: NodeId = b.alloc();
            record(label, format!("{} {}", x.key_space().as_u64(), y.key_space().as_u64()));
        })
    };
    let t1 = alloc("a1");
    let t2 = alloc("a2");
    let r1 = reader("r1", s.snapshot(), dir.clone(), "root.zy");
    t1.join().unwrap();
    t2.join().unwrap();
    r1.join().unwrap();
}

fn h4_judge(ctx: &Ctx, obs: &BTreeMap<String, String>) -> Result<(), String> {
    let mut spaces: Vec<u64> = vec![];
    for l in ["a1", "a2"] {
        let Some(v) = obs.get(l) else { return Err(format!("thread `{l}` recorded no result")) };
        spaces.extend(v.split(' ').map(|x| x.parse::<u64>().unwrap()));
    }
    let mut d = spaces.clone();
    d.sort();
    d.dedup();
    if d.len() != spaces.len() {
        return Err(format!("two independent allocators were issued the same key space: {:?}", spaces));
    }
    expect_in(obs, "r1", &[("v1", &ctx.oracle["root/v1"])])?;
    Ok(())
}

/* ---- externally resolved programs through the shared pending-parts slot ---- */

const P_OK: &str = "let Ret = @(intrinsic(ret)) in let Int64 = @(intrinsic(i64)) in let x : Int64 = 1 in ret x";
const P_BAD: &str = "let Ret = @(intrinsic(ret)) in let Int64 = @(intrinsic(i64)) in let x : Int64 = \"s\" in ret x";

fn check_external(session: &CompilerSession, dir: &Path, file: &str) -> String {
    use zydeco_surface::bitter::{SourceDesugarOut, SourceUnitDesugarer};
    use zydeco_surface::scoped::{ResolveSourceOut, Resolver};
    use zydeco_utils::pass::CompilerPass;
    let graph = session.graph(dir.join(file)).expect("graph");
    let zydeco_session::source::TextualProgram { spans, arena, unit } = graph.parse().expect("parse");
    let SourceDesugarOut { arena, prim, root } = SourceUnitDesugarer::new(&spans, &arena, unit).run().expect("desugar");
    let ResolveSourceOut { prim, arena, root } = Resolver::new(&spans, arena, prim).run_source(root).expect("resolve");
    let out = session.check_resolved(spans, prim, arena, root);
    match out.outcome.into_result() {
        | Ok(_) => "checked".to_string(),
        | Err(reports) => format!("rejected {}", reports.spans.iter().flatten().map(|(_, r, m)| format!("{:?} {}", r, m.lines().next().unwrap_or(""))).collect::<Vec<_>>().join("; ")),
    }
}

fn oracles_external(dir: &PathBuf) -> BTreeMap<String, String> {
    std::fs::write(dir.join("p_ok.zy"), P_OK).unwrap();
    std::fs::write(dir.join("p_bad.zy"), P_BAD).unwrap();
    let mut m = BTreeMap::new();
    m.insert("ok".into(), check_external(&CompilerSession::default(), dir, "p_ok.zy"));
    m.insert("bad".into(), check_external(&CompilerSession::default(), dir, "p_bad.zy"));
    m
}

fn h5_body(ctx: &Ctx) {
    let dir = ctx.dir.clone();
    let s = CompilerSession::default();
    let worker = |label: &'static str, snap: CompilerSession, dir: PathBuf, file: &'static str| {
        shuttle::thread::spawn(move || {
            let r = salsa::Cancelled::catch(AssertUnwindSafe(|| check_external(&snap, &dir, file)));
            drop(snap);
            record(label, r.unwrap_or_else(|_| "cancelled".into()));
        })
    };
    let t1 = worker("t1", s.snapshot(), dir.clone(), "p_ok.zy");
    let t2 = worker("t2", s.snapshot(), dir.clone(), "p_bad.zy");
    t1.join().unwrap();
    t2.join().unwrap();
}

fn h5_judge(ctx: &Ctx, obs: &BTreeMap<String, String>) -> Result<(), String> {
    expect_in(obs, "t1", &[("ok", &ctx.oracle["ok"])])?;
    expect_in(obs, "t2", &[("bad", &ctx.oracle["bad"])])?;
    Ok(())
}

pub fn all() -> Vec<Harness> {
    vec![
        Harness {
            name: "edit-vs-same-root",
            about: "cold session; two snapshot threads analyse root.zy (imports lib.zy) while the owner installs an overlay on lib.zy (Int64 -> String, which flips the verdict), then a third snapshot analyses and the owner analyses; oracle: r1, r2 are cancelled or equal the fresh-session answer for the old contents, r3 and the owner equal the fresh-session answer for the new contents (verdict, reports, and the source texts the analysis was computed from); no deadlock, no panic",
            threads: 4,
            bound_quick: 1,
            bound_thorough: 2,
            cap_quick: 40_000,
            cap_thorough: 600_000,
            window: Some(40),
            body: h1_body,
            judge: h1_judge,
            oracles: oracles_lib,
        },
        Harness {
            name: "edit-vs-same-root.readers-first",
            about: "as edit-vs-same-root, but the owner yields before the edit and before its own analysis, so the default schedule runs the readers to completion and the schedules within the bound are those where the edit lands at each point inside an analysis",
            threads: 4,
            bound_quick: 1,
            bound_thorough: 2,
            cap_quick: 40_000,
            cap_thorough: 600_000,
            window: Some(40),
            body: h1b_body,
            judge: h1_judge,
            oracles: oracles_lib,
        },
        Harness {
            name: "edit-revert-vs-different-roots",
            about: "cold session; snapshots analyse root.zy and root2.zy (both import lib.zy) while the owner sets an overlay on lib.zy, starts a third snapshot reader, and clears the overlay again; oracle: each reader is cancelled or equals the fresh-session answer for the contents at its snapshot; the owner ends with the answers for the original contents",
            threads: 4,
            bound_quick: 1,
            bound_thorough: 2,
            cap_quick: 40_000,
            cap_thorough: 600_000,
            window: Some(40),
            body: h2_body,
            judge: h2_judge,
            oracles: oracles_lib,
        },
        Harness {
            name: "edit-revert-vs-different-roots.readers-first",
            about: "as edit-revert-vs-different-roots, with the owner yielding before each edit",
            threads: 4,
            bound_quick: 1,
            bound_thorough: 2,
            cap_quick: 40_000,
            cap_thorough: 600_000,
            window: Some(40),
            body: h2b_body,
            judge: h2_judge,
            oracles: oracles_lib,
        },
        Harness {
            name: "first-load-vs-overlay.readers-first",
            about: "as first-load-vs-overlay, with the owner yielding before the overlay so that the edit lands at each point inside the reader's first load",
            threads: 2,
            bound_quick: 1,
            bound_thorough: 3,
            cap_quick: 60_000,
            cap_thorough: 2_000_000,
            window: Some(60),
            body: h3b_body,
            judge: h3_judge,
            oracles: oracles_lib,
        },
        Harness {
            name: "first-load-vs-overlay",
            about: "nothing loaded; a snapshot thread analyses root2.zy (its first load of other.zy goes through the shared file table) while the owner installs an overlay on other.zy, which it has not loaded either; oracle: the reader is cancelled or saw the disk contents; the owner's analysis, its analysis after the join, and a later snapshot all show the overlay (fresh-session answer with the overlay installed)",
            threads: 2,
            bound_quick: 2,
            bound_thorough: 3,
            cap_quick: 60_000,
            cap_thorough: 2_000_000,
            window: Some(60),
            body: h3_body,
            judge: h3_judge,
            oracles: oracles_lib,
        },
        Harness {
            name: "allocators-vs-analysis",
            about: "two threads each create two IdAllocators and allocate while a snapshot thread analyses root.zy (which claims key spaces itself); oracle: the four key spaces are pairwise distinct, the analysis equals the fresh-session answer",
            threads: 4,
            bound_quick: 1,
            bound_thorough: 2,
            cap_quick: 40_000,
            cap_thorough: 600_000,
            window: Some(40),
            body: h4_body,
            judge: h4_judge,
            oracles: oracles_lib,
        },
        Harness {
            name: "facts-after-eviction",
            about: "no edits; two snapshot threads analyse different roots (one ill typed) sharing an import and then ask for the per-root facts (reports, coverage) and the analysis again, while the other thread's analysis evicts the single-entry arena memo; oracle: each thread's answers equal the fresh-session answers for its root, the repeated analysis equals the first, and the owner gets the same afterwards",
            threads: 3,
            bound_quick: 1,
            bound_thorough: 2,
            cap_quick: 40_000,
            cap_thorough: 600_000,
            window: Some(40),
            body: h6_body,
            judge: h6_judge,
            oracles: oracles_facts,
        },
        Harness {
            name: "external-programs-shared-slot",
            about: "two threads on snapshots of one session each push an externally resolved program (one well typed, one ill typed) through check_resolved, which hands the arenas to the query graph through the session's shared pending-parts slot; oracle: each thread gets the answer a fresh session gives for its own program; the non-preemptive schedule is the sequential case",
            threads: 3,
            bound_quick: 1,
            bound_thorough: 2,
            cap_quick: 40_000,
            cap_thorough: 600_000,
            window: Some(40),
            body: h5_body,
            judge: h5_judge,
            oracles: oracles_external,
        },
    ]
}

/* ------------------------------------- execution ------------------------------------- */

fn config() -> shuttle::Config {
    let mut cfg = shuttle::Config::new();
    cfg.stack_size = 256 << 20;
    cfg.failure_persistence = shuttle::FailurePersistence::None;
    cfg.max_steps = shuttle::MaxSteps::FailAfter(3_000_000);
    cfg.silence_warnings = true;
    cfg
}

/// One single-task execution under the same engine (salsa's shuttle-mode primitives need one).
fn in_execution<T: Send + 'static>(f: impl Fn() -> T + Send + Sync + 'static) -> T {
    let slot: Arc<Mutex<Option<T>>> = Arc::new(Mutex::new(None));
    let slot2 = slot.clone();
    IN_EXECUTION.store(true, Ordering::Relaxed);
    shuttle::Runner::new(Explorer::new(vec![]), config()).run(move || {
        let v = f();
        *slot2.lock().unwrap() = Some(v);
    });
    IN_EXECUTION.store(false, Ordering::Relaxed);
    slot.lock().unwrap().take().expect("execution produced a value")
}

pub fn prepare(h: &Harness) -> Ctx {
    // fixed-length, pid-free name: path text feeds hash maps, and replays must see the same text
    let tag = std::env::var("ZYS_TAG").unwrap_or_else(|_| "r".into());
    let dir = PathBuf::from(format!("/dev/shm/zys-{}-{}", &tag[..1], h.name));
    write_files(&dir);
    let oracles = h.oracles;
    let d2 = dir.clone();
    let oracle = in_execution(move || oracles(&d2));
    Ctx { dir, oracle }
}

pub fn cleanup(ctx: &Ctx) {
    let _ = std::fs::remove_dir_all(&ctx.dir);
}

pub fn fingerprint(status: &str, detail: &str) -> String {
    // first sentence of the detail, without observation payloads
    let head: String = detail.split(':').next().unwrap_or("").chars().take(120).collect();
    format!("{status}: {head}")
}

pub fn run_child(h: &Harness, ctx: &Ctx, schedule: &[(u32, u8)]) -> ChildReport {
    OBS.lock().unwrap().clear();
    *LAST_PANIC.lock().unwrap() = None;
    let explorer = Explorer::new(schedule.to_vec());
    let log = explorer.log.clone();
    let body = h.body;
    let ctx2 = ctx.clone();
    IN_EXECUTION.store(true, Ordering::Relaxed);
    let res = std::panic::catch_unwind(AssertUnwindSafe(|| {
        shuttle::Runner::new(explorer, config()).run(move || body(&ctx2));
    }));
    IN_EXECUTION.store(false, Ordering::Relaxed);
    let log = log.lock().unwrap_or_else(|e| e.into_inner());
    let obs: BTreeMap<String, String> = OBS.lock().unwrap_or_else(|e| e.into_inner()).iter().cloned().collect();
    let (status, detail) = if let Some(d) = &log.diverged {
        ("diverged".to_string(), d.clone())
    } else {
        match res {
            | Err(payload) => {
                let msg = if let Some(s) = payload.downcast_ref::<&str>() {
                    s.to_string()
                } else if let Some(s) = payload.downcast_ref::<String>() {
                    s.clone()
                } else if payload.downcast_ref::<salsa::Cancelled>().is_some() {
                    "salsa::Cancelled escaped a thread that holds no snapshot".to_string()
                } else {
                    "<non-string panic payload>".to_string()
                };
                let first = LAST_PANIC.lock().unwrap_or_else(|e| e.into_inner()).clone().unwrap_or_default();
                if msg.contains("deadlock") {
                    ("deadlock".to_string(), format!("deadlock: {msg}"))
                } else if msg.contains("exceeded max_steps") {
                    ("livelock".to_string(), format!("livelock: {msg}"))
                } else {
                    ("panic".to_string(), format!("panic {}: first panic {}", msg.chars().take(200).collect::<String>(), first))
                }
            }
            | Ok(()) => match (h.judge)(ctx, &obs) {
                | Ok(()) => ("ok".to_string(), String::new()),
                | Err(e) => ("violation".to_string(), e),
            },
        }
    };
    // outcome class for statistics: which oracle answer each label matched
    let outcome = obs
        .iter()
        .map(|(k, v)| {
            let class = ctx.oracle.iter().find(|(_, o)| *o == v).map(|(n, _)| n.clone()).unwrap_or_else(|| if v == "cancelled" { "cancelled".into() } else if v.len() < 40 { "value".into() } else { "OTHER".into() });
            format!("{k}={class}")
        })
        .collect::<Vec<_>>()
        .join(" ");
    ChildReport { points: log.points.clone(), total_points: log.total_points, total_steps: log.total_steps, trace_hash: log.trace_hash, status, detail, outcome }
}
