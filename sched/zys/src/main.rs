//! C17 — concurrent analyses on session snapshots: deviation-bounded exhaustive schedule
//! exploration of the real `CompilerSession` (salsa in shuttle mode, scheduler-aware dashmap
//! shard locks, scheduler-visible key-space counter) — see /verif/DESIGN.md, section C17.
mod explore;
mod harness;

use explore::*;
use std::collections::BTreeMap;
use std::path::PathBuf;
use std::sync::atomic::{AtomicBool, Ordering};

pub static IN_EXECUTION: AtomicBool = AtomicBool::new(false);

/// scheduling point for code that is not written against shuttle's primitives
/// (the key-space counter behind `--cfg zydeco_verif`, the vendored dashmap shard lock)
#[unsafe(no_mangle)]
pub extern "C" fn zyv_sched_point() {
    if IN_EXECUTION.load(Ordering::Relaxed) {
        shuttle::thread::sleep(std::time::Duration::ZERO);
    }
}

#[unsafe(no_mangle)]
pub extern "C" fn zyv_sched_yield() {
    if IN_EXECUTION.load(Ordering::Relaxed) {
        shuttle::thread::yield_now();
    } else {
        panic!("contended lock outside a controlled execution");
    }
}

fn verif_root() -> PathBuf {
    std::env::var_os("VERIF_ROOT").map(PathBuf::from).unwrap_or_else(|| PathBuf::from("/verif"))
}

#[derive(serde::Deserialize)]
struct Known {
    property: String,
    fingerprint: String,
    #[allow(dead_code)]
    #[serde(default)]
    note: String,
}

fn load_known() -> Vec<Known> {
    #[derive(serde::Deserialize)]
    struct File {
        findings: Vec<Known>,
    }
    let p = verif_root().join("known_findings.json");
    match std::fs::read_to_string(&p) {
        | Ok(s) => serde_json::from_str::<File>(&s).map(|f| f.findings).unwrap_or_default(),
        | Err(_) => vec![],
    }
}

/// Re-execute under a fixed process environment (no address-space randomisation, fixed hash keys via the
/// getrandom interposer) so that choice-point numbering — and therefore every replay file — is
/// reproducible across processes, not only across the forked children of one parent.
fn stabilise() {
    if std::env::var_os("ZYS_STABLE").is_some() {
        return;
    }
    use std::os::unix::process::CommandExt;
    let me = std::env::current_exe().expect("current_exe");
    let so = verif_root().join("build/libzyv_getrandom.so");
    let mut c = std::process::Command::new("setarch");
    c.arg(std::env::consts::ARCH).arg("-R").arg(me).args(std::env::args().skip(1));
    c.env("ZYS_STABLE", "1").env("VERIF_HASH_SEED", "17");
    if so.exists() {
        c.env("LD_PRELOAD", so);
    }
    let err = c.exec();
    eprintln!("MACHINERY: cannot re-execute under setarch: {err}");
    std::process::exit(3);
}

fn main() {
    stabilise();
    let args: Vec<String> = std::env::args().collect();
    let cmd = args.get(1).map(|s| s.as_str()).unwrap_or("check");
    std::panic::set_hook(Box::new(harness::panic_hook));
    match cmd {
        | "check" => {
            let tier = args.get(2).map(|s| s.as_str()).unwrap_or("quick").to_string();
            std::process::exit(check(&tier));
        }
        | "replay" => {
            let file = args.get(2).expect("replay <file>");
            std::process::exit(replay(file));
        }
        | "list" => {
            for h in harness::all() {
                println!("{}: {}", h.name, h.about);
            }
        }
        | _ => {
            eprintln!("usage: zys check [quick|thorough] | replay <file> | list");
            std::process::exit(2);
        }
    }
}

fn check(tier: &str) -> i32 {
    // SAFETY: single-threaded at this point
    unsafe { std::env::set_var("ZYS_TAG", if tier == "thorough" { "t" } else { "q" }) };
    let started = std::time::Instant::now();
    let thorough = tier == "thorough";
    let only = std::env::var("VERIF_ONLY").ok();
    let workers: usize = std::env::var("VERIF_WORKERS").ok().and_then(|s| s.parse().ok()).unwrap_or(16);
    let known = load_known();
    let mut evidence_h = vec![];
    let mut violations: Vec<serde_json::Value> = vec![];
    let mut known_hit: BTreeMap<String, u64> = BTreeMap::new();
    let mut new_fps: BTreeMap<String, (u64, String)> = BTreeMap::new();
    let mut total_exec = 0u64;
    let mut total_points = 0u64;
    let mut total_steps = 0u64;
    let mut samples: Vec<serde_json::Value> = vec![];
    let mut machinery_failure = false;
    let replay_dir = verif_root().join("replays/C17");
    let _ = std::fs::create_dir_all(&replay_dir);
    for h in harness::all() {
        if let Some(o) = &only {
            if !h.name.contains(o.as_str()) {
                continue;
            }
        }
        let (bound, cap, window) = if thorough { (h.bound_thorough, h.cap_thorough, h.window) } else { (h.bound_quick, h.cap_quick, None) };
        let t0 = std::time::Instant::now();
        let ctx = harness::prepare(&h);
        let body = |sched: &[(u32, u8)]| harness::run_child(&h, &ctx, sched);
        // determinism: the default schedule twice must give identical traces and observations
        let a = run_once(&body, &[]);
        let b = run_once(&body, &[]);
        let det_ok = match (&a, &b) {
            | (ChildEnd::Report(x), ChildEnd::Report(y)) => x.trace_hash == y.trace_hash && x.total_points == y.total_points && x.outcome == y.outcome && x.points == y.points,
            | _ => false,
        };
        if !det_ok {
            eprintln!("[C17] {}: MACHINERY: the default schedule is not reproducible across two forked executions: {:?} vs {:?}", h.name, summarize(&a), summarize(&b));
            machinery_failure = true;
            continue;
        }
        let mut findings = vec![];
        let stats = explore(&body, bound, cap, workers, window, &mut findings);
        total_exec += stats.executions;
        total_points += stats.choice_points_max as u64;
        total_steps += stats.steps_total;
        for (sched, outcome) in stats.samples.iter() {
            samples.push(serde_json::json!({"harness": h.name, "schedule_deviations": sched, "outcome": outcome}));
        }
        // every finding is replayed once more before it is believed (same schedule must fail the same way)
        let mut confirmed = vec![];
        for f in findings {
            let again = run_once(&body, &f.schedule);
            let same = match &again {
                | ChildEnd::Report(r) => r.status == f.status,
                | ChildEnd::Crashed(_) => f.status == "crash",
                | ChildEnd::Timeout => false,
            };
            if !same {
                eprintln!("[C17] {}: MACHINERY: schedule {:?} gave `{}` once and {:?} on replay", h.name, f.schedule, f.status, summarize(&again));
                machinery_failure = true;
                continue;
            }
            confirmed.push(f);
        }
        println!(
            "[C17] {}: {} executions (by preemptions {:?}), completed bound {:?}{}, <= {} choice points and {} steps per execution, {} distinct outcomes, {} pruned as invisible blocking, {} findings, {:.1}s",
            h.name,
            stats.executions,
            stats.by_cost,
            stats.completed_bound,
            if stats.capped { format!(" (CAPPED at {} executions, {} schedules pending)", cap, stats.pending_at_cap) } else { String::new() },
            stats.choice_points_max,
            stats.steps_max,
            stats.outcomes.len(),
            stats.timeouts,
            confirmed.len(),
            t0.elapsed().as_secs_f64()
        );
        for f in &confirmed {
            let fp = format!("{}: {}", h.name, harness::fingerprint(&f.status, &f.detail));
            if let Some(k) = known.iter().find(|k| k.property.split(',').any(|p| p.trim() == "C17") && fp.contains(&k.fingerprint)) {
                *known_hit.entry(k.fingerprint.clone()).or_default() += 1;
                continue;
            }
            let e = new_fps.entry(fp.clone()).or_insert((0, String::new()));
            e.0 += 1;
            if e.1.is_empty() {
                let file = replay_dir.join(format!("{}-{}.json", h.name, violations.len()));
                let rec = serde_json::json!({"property": "C17", "harness": h.name, "schedule": f.schedule, "status": f.status, "detail": f.detail, "fingerprint": fp,
                    "how": "scripts/replay <this file> re-runs exactly this schedule (list of (choice point, alternative) deviations from the non-preemptive default) in a forked child"});
                let _ = std::fs::write(&file, serde_json::to_vec_pretty(&rec).unwrap());
                e.1 = file.display().to_string();
                violations.push(serde_json::json!({"fingerprint": fp, "replay": e.1, "detail": f.detail.chars().take(600).collect::<String>()}));
            }
        }
        evidence_h.push(serde_json::json!({
            "harness": h.name, "about": h.about, "threads": h.threads,
            "preemption_bound": bound, "completed_bound": stats.completed_bound, "capped": stats.capped, "cap": cap, "pending_at_cap": stats.pending_at_cap,
            "window_after_previous_deviation_for_top_level": window,
            "executions": stats.executions, "executions_by_preemptions": stats.by_cost,
            "choice_points_max": stats.choice_points_max, "steps_max": stats.steps_max,
            "outcomes": stats.outcomes, "pruned_invisible_blocking": stats.timeouts,
            "determinism": "default schedule executed twice in separate forked children: identical choice-point trace and observations",
        }));
        harness::cleanup(&ctx);
    }
    for (k, n) in &known_hit {
        println!("KNOWN-FINDING: property=C17 {} ({} schedules)", k, n);
    }
    for (fp, (n, file)) in &new_fps {
        println!("VIOLATION property=C17 replay={}", file);
        println!("  {} x {}", n, fp);
    }
    let ev = serde_json::json!({
        "property_id": "C17",
        "tier": tier,
        "level": "model_checking",
        "wall_s": started.elapsed().as_secs_f64(),
        "seed": 0,
        "coverage": {
            "exhaustive": evidence_h.iter().all(|h| !h["capped"].as_bool().unwrap_or(true)),
            "rule": "every schedule of each harness with at most the stated number of preemptions (iterative preemption bounding, all non-preemptive choices explored in full), each executed on the real CompilerSession in a forked child; oracle per harness in `harnesses[].about`",
            "evaluations": total_exec,
            "distinct_nontrivial": total_exec,
            "states": total_exec,
            "transitions": total_steps,
            "traces_validated_against_impl": total_exec,
            "samples": samples,
            "explanation": "stateless exploration: states = complete executions (one per distinct schedule), transitions = scheduling steps executed over all of them; every trace is an implementation run, so traces_validated_against_impl = executions",
            "counters": {"schedules": total_exec, "choice_points_max_sum": total_points},
            "harnesses": evidence_h,
            "known_findings_hit": known_hit.keys().collect::<Vec<_>>(),
        },
        "assumptions": [
            "shuttle treats every atomic as sequentially consistent: weak-memory behaviours are out of scope",
            "scheduling points are the operations of salsa's synchronisation shim (shuttle mode), of the dashmap shard lock (vendored, yield-based) and of the key-space counter (hook); code between two such points runs atomically",
            "tokio, spawn_blocking and the language server's commit protocol in editor/cajun are not explored",
        ],
        "violations": violations.len(),
        "violation_details": violations,
    });
    let _ = std::fs::create_dir_all(verif_root().join("evidence"));
    let _ = std::fs::write(verif_root().join("evidence/C17.json"), serde_json::to_vec_pretty(&ev).unwrap());
    if machinery_failure {
        return 3;
    }
    if new_fps.is_empty() { 0 } else { 1 }
}

fn summarize(e: &ChildEnd) -> String {
    match e {
        | ChildEnd::Report(r) => format!("report status={} points={} hash={:x} outcome={}", r.status, r.total_points, r.trace_hash, r.outcome),
        | ChildEnd::Timeout => "timeout".into(),
        | ChildEnd::Crashed(w) => format!("crashed: {w}"),
    }
}

fn replay(file: &str) -> i32 {
    let v: serde_json::Value = serde_json::from_str(&std::fs::read_to_string(file).expect("read replay file")).expect("json");
    let name = v["harness"].as_str().unwrap();
    let schedule: Vec<(u32, u8)> = serde_json::from_value(v["schedule"].clone()).unwrap();
    let h = harness::all().into_iter().find(|h| h.name == name).expect("harness");
    let ctx = harness::prepare(&h);
    let body = |sched: &[(u32, u8)]| harness::run_child(&h, &ctx, sched);
    let r = run_once(&body, &schedule);
    println!("{}", summarize(&r));
    let code = match &r {
        | ChildEnd::Report(rep) => {
            println!("{}", rep.detail);
            if rep.status == "ok" { 0 } else { 1 }
        }
        | _ => 1,
    };
    if code == 1 {
        println!("VIOLATION property=C17 replay={}", file);
    }
    harness::cleanup(&ctx);
    code
}
