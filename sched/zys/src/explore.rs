//! Deviation-bounded exhaustive schedule exploration on top of shuttle's execution engine.
//!
//! A schedule is the list of its deviations from the default (non-preemptive) schedule:
//! `(choice point index, alternative)`. Every execution runs in a forked child of the warmed-up
//! parent, so every execution starts from the identical process image (process-wide counters,
//! per-thread hash keys, allocator state). The child replays the deviations (a deviation that does
//! not fit the observed choice point is a hard error), takes choice 0 everywhere else, and reports
//! every choice point after its last deviation; the parent enumerates the alternatives, charging
//! one preemption for leaving a task that could have continued.
use serde::{Deserialize, Serialize};
use shuttle::scheduler::{Schedule, Scheduler, Task, TaskId};
use std::collections::{BTreeMap, VecDeque};
use std::sync::{Arc, Mutex};

#[derive(Clone, Debug, Serialize, Deserialize, PartialEq, Eq)]
pub struct Point {
    /// index among the choice points of this execution (points with >= 2 enabled tasks)
    pub idx: u32,
    /// number of alternatives in canonical order (0 = default)
    pub n: u8,
    /// true if the running task could have continued (so alternatives cost one preemption)
    pub preemptive: bool,
    /// preemptions charged before this point
    pub pre: u32,
}

#[derive(Default)]
pub struct Log {
    pub points: Vec<Point>,
    pub total_points: u32,
    pub total_steps: u64,
    pub diverged: Option<String>,
    /// digest of the whole choice-point sequence (n, preemptive, chosen task) for determinism checks
    pub trace_hash: u64,
}

pub struct Explorer {
    deviations: Vec<(u32, u8)>,
    next_dev: usize,
    point: u32,
    preemptions: u32,
    started: bool,
    pub log: Arc<Mutex<Log>>,
}

impl Explorer {
    pub fn new(deviations: Vec<(u32, u8)>) -> Self {
        Explorer { deviations, next_dev: 0, point: 0, preemptions: 0, started: false, log: Arc::new(Mutex::new(Log::default())) }
    }
}

fn mix(h: u64, v: u64) -> u64 {
    (h ^ v).wrapping_mul(0x100000001b3).rotate_left(17)
}

impl Scheduler for Explorer {
    fn new_execution(&mut self) -> Option<Schedule> {
        if self.started {
            None
        } else {
            self.started = true;
            Some(Schedule::new(0))
        }
    }

    fn next_task(&mut self, runnable: &[&Task], current: Option<TaskId>, is_yielding: bool) -> Option<TaskId> {
        let mut ids: Vec<usize> = runnable.iter().map(|t| usize::from(t.id())).collect();
        ids.sort();
        let cur = current.map(usize::from);
        let cur_enabled = cur.is_some_and(|c| ids.contains(&c));
        // canonical order: the running task first if it can continue and is not yielding, then
        // ascending ids; a yielding task goes last (leaving it is free) and hands over round-robin
        let mut order: Vec<usize> = vec![];
        if let (Some(c), true, false) = (cur, cur_enabled, is_yielding) {
            order.push(c);
        }
        if let (Some(c), true) = (cur, is_yielding) {
            // fairness: a yielding task hands over round-robin (next id after it, cyclically). With
            // "lowest id first" two spinning tasks with low ids would pass control back and forth
            // for ever and starve the lock holder with the higher id (an artifact, not a livelock)
            order.extend(ids.iter().filter(|i| **i > c));
            order.extend(ids.iter().filter(|i| **i < c));
        } else {
            for i in &ids {
                if Some(*i) != cur {
                    order.push(*i);
                }
            }
        }
        if let (Some(c), true, true) = (cur, cur_enabled, is_yielding) {
            if order.is_empty() {
                order.push(c);
            }
            // a yielding task is not offered as an alternative while others can run
        }
        let mut log = self.log.lock().unwrap();
        log.total_steps += 1;
        let choice = if order.len() >= 2 {
            let idx = self.point;
            self.point += 1;
            let preemptive = cur_enabled && !is_yielding;
            let alt = match self.deviations.get(self.next_dev) {
                | Some((p, a)) if *p == idx => {
                    self.next_dev += 1;
                    if (*a as usize) >= order.len() {
                        log.diverged = Some(format!("deviation ({p},{a}) does not fit choice point {idx} with {} alternatives", order.len()));
                        return None;
                    }
                    *a as usize
                }
                | _ => 0,
            };
            if self.next_dev >= self.deviations.len() && alt == 0 {
                // after the last deviation: report the point so the parent can branch here
                log.points.push(Point { idx, n: order.len().min(255) as u8, preemptive, pre: self.preemptions });
            }
            if alt != 0 && preemptive {
                self.preemptions += 1;
            }
            log.total_points = self.point;
            log.trace_hash = mix(mix(mix(log.trace_hash, order.len() as u64), preemptive as u64), order[alt] as u64);
            alt
        } else {
            0
        };
        Some(TaskId::from(order[choice]))
    }

    fn next_u64(&mut self) -> u64 {
        0
    }
}

/* ----------------------------- child process management ----------------------------- */

#[derive(Clone, Debug, Serialize, Deserialize)]
pub struct ChildReport {
    pub points: Vec<Point>,
    pub total_points: u32,
    pub total_steps: u64,
    pub trace_hash: u64,
    /// "ok" | "violation" | "deadlock" | "panic" | "diverged"
    pub status: String,
    pub detail: String,
    /// the harness's observations (thread label -> outcome class), for outcome statistics
    pub outcome: String,
}

#[derive(Debug)]
pub enum ChildEnd {
    Report(ChildReport),
    /// killed by the watchdog: a task blocked on a lock the scheduler cannot see
    Timeout,
    Crashed(String),
}

struct Running {
    pid: libc::pid_t,
    fd: libc::c_int,
    buf: Vec<u8>,
    schedule: Vec<(u32, u8)>,
    cost: u32,
}

pub struct Stats {
    pub executions: u64,
    pub choice_points_max: u32,
    pub steps_max: u64,
    pub timeouts: u64,
    pub by_cost: BTreeMap<u32, u64>,
    pub outcomes: BTreeMap<String, u64>,
    pub completed_bound: Option<u32>,
    pub capped: bool,
    pub pending_at_cap: u64,
    pub determinism_checked: u64,
    pub steps_total: u64,
    /// a few (schedule, outcome) pairs, one per distinct outcome
    pub samples: Vec<(Vec<(u32, u8)>, String)>,
}

/// a harness stops once it has this many findings
pub const MAX_FINDINGS: usize = 40;

pub struct Finding {
    pub schedule: Vec<(u32, u8)>,
    pub status: String,
    pub detail: String,
}

/// Explore all schedules of `child_body` with at most `bound` preemptions, cost level by cost level.
/// `child_body(schedule)` runs in the forked child and returns the report.
pub fn explore(
    child_body: &dyn Fn(&[(u32, u8)]) -> ChildReport, bound: u32, max_executions: u64, workers: usize, window: Option<u32>, findings: &mut Vec<Finding>,
) -> Stats {
    let mut stats = Stats { executions: 0, choice_points_max: 0, steps_max: 0, timeouts: 0, by_cost: BTreeMap::new(), outcomes: BTreeMap::new(), completed_bound: None, capped: false, pending_at_cap: 0, determinism_checked: 0, steps_total: 0, samples: vec![] };
    // queues per cost level
    let mut queues: Vec<VecDeque<Vec<(u32, u8)>>> = (0..=bound).map(|_| VecDeque::new()).collect();
    queues[0].push_back(vec![]);
    let mut running: Vec<Running> = vec![];
    let mut level = 0u32;
    loop {
        // current level = lowest non-empty queue or lowest cost among running
        let lowest_q = queues.iter().position(|q| !q.is_empty()).map(|l| l as u32);
        let lowest_r = running.iter().map(|r| r.cost).min();
        let cur = match (lowest_q, lowest_r) {
            | (None, None) => break,
            | (a, b) => a.into_iter().chain(b).min().unwrap(),
        };
        if cur > level {
            // everything below `cur` is finished
            stats.completed_bound = Some(cur - 1);
            level = cur;
        }
        // spawn (only from the current level: strict iterative bounding)
        while running.len() < workers && stats.executions + (running.len() as u64) < max_executions {
            let Some(s) = queues[level as usize].pop_front() else { break };
            running.push(spawn(child_body, s, level));
        }
        if running.is_empty() {
            if queues.iter().any(|q| !q.is_empty()) {
                if stats.executions >= max_executions {
                    stats.capped = true;
                    stats.pending_at_cap = queues.iter().map(|q| q.len() as u64).sum();
                    return stats;
                }
                continue;
            }
            break;
        }
        // enough findings to report: stop this harness (a finding is a verdict; thousands of them only cost memory)
        if findings.len() >= MAX_FINDINGS {
            for r in running.drain(..) {
                unsafe {
                    libc::kill(r.pid, libc::SIGKILL);
                    let mut st = 0;
                    libc::waitpid(r.pid, &mut st, 0);
                    libc::close(r.fd);
                }
            }
            stats.capped = true;
            stats.pending_at_cap = queues.iter().map(|q| q.len() as u64).sum();
            return stats;
        }
        // wait for one child
        let (r, end) = wait_one(&mut running);
        stats.executions += 1;
        *stats.by_cost.entry(r.cost).or_default() += 1;
        match end {
            | ChildEnd::Timeout => {
                stats.timeouts += 1;
                *stats.outcomes.entry("<blocked on a lock invisible to the scheduler: pruned>".into()).or_default() += 1;
            }
            | ChildEnd::Crashed(why) => findings.push(Finding { schedule: r.schedule.clone(), status: "crash".into(), detail: why }),
            | ChildEnd::Report(rep) => {
                stats.choice_points_max = stats.choice_points_max.max(rep.total_points);
                stats.steps_max = stats.steps_max.max(rep.total_steps);
                stats.steps_total += rep.total_steps;
                if !stats.outcomes.contains_key(&rep.outcome) && stats.samples.len() < 12 {
                    stats.samples.push((r.schedule.clone(), rep.outcome.clone()));
                }
                *stats.outcomes.entry(rep.outcome.clone()).or_default() += 1;
                if rep.status != "ok" {
                    findings.push(Finding { schedule: r.schedule.clone(), status: rep.status.clone(), detail: rep.detail.clone() });
                }
                if rep.status == "diverged" {
                    continue;
                }
                for p in &rep.points {
                    if let Some(w) = window {
                        // thorough-tier cap for the top level: only branch inside the window after the previous deviation
                        if r.cost + 1 == bound && bound >= 2 && r.schedule.last().is_some_and(|(last, _)| p.idx > last + w) {
                            continue;
                        }
                    }
                    let cost = r.cost + if p.preemptive { 1 } else { 0 };
                    if cost > bound {
                        continue;
                    }
                    for alt in 1..p.n {
                        let mut s = r.schedule.clone();
                        s.push((p.idx, alt));
                        queues[cost as usize].push_back(s);
                    }
                }
            }
        }
    }
    stats.completed_bound = Some(bound);
    stats
}

fn spawn(child_body: &dyn Fn(&[(u32, u8)]) -> ChildReport, schedule: Vec<(u32, u8)>, cost: u32) -> Running {
    let mut fds = [0 as libc::c_int; 2];
    unsafe {
        assert_eq!(libc::pipe(fds.as_mut_ptr()), 0, "pipe");
        let pid = libc::fork();
        assert!(pid >= 0, "fork failed");
        if pid == 0 {
            libc::close(fds[0]);
            libc::alarm(20);
            let rep = child_body(&schedule);
            let bytes = serde_json::to_vec(&rep).unwrap();
            let mut off = 0;
            while off < bytes.len() {
                let n = libc::write(fds[1], bytes[off..].as_ptr() as *const libc::c_void, bytes.len() - off);
                if n <= 0 {
                    break;
                }
                off += n as usize;
            }
            libc::_exit(0);
        }
        libc::close(fds[1]);
        Running { pid, fd: fds[0], buf: vec![], schedule, cost }
    }
}

fn wait_one(running: &mut Vec<Running>) -> (Running, ChildEnd) {
    loop {
        let mut pfds: Vec<libc::pollfd> = running.iter().map(|r| libc::pollfd { fd: r.fd, events: libc::POLLIN, revents: 0 }).collect();
        let n = unsafe { libc::poll(pfds.as_mut_ptr(), pfds.len() as libc::nfds_t, 30_000) };
        if n < 0 {
            continue;
        }
        for (i, p) in pfds.iter().enumerate() {
            if p.revents & (libc::POLLIN | libc::POLLHUP | libc::POLLERR) != 0 {
                let mut chunk = [0u8; 65536];
                let got = unsafe { libc::read(running[i].fd, chunk.as_mut_ptr() as *mut libc::c_void, chunk.len()) };
                if got > 0 {
                    running[i].buf.extend_from_slice(&chunk[..got as usize]);
                    continue;
                }
                // EOF: child finished (or died)
                let r = running.swap_remove(i);
                let mut status = 0;
                unsafe {
                    libc::close(r.fd);
                    libc::waitpid(r.pid, &mut status, 0);
                }
                let end = if libc::WIFSIGNALED(status) && libc::WTERMSIG(status) == libc::SIGALRM {
                    ChildEnd::Timeout
                } else if libc::WIFSIGNALED(status) {
                    ChildEnd::Crashed(format!("child killed by signal {}", libc::WTERMSIG(status)))
                } else {
                    match serde_json::from_slice::<ChildReport>(&r.buf) {
                        | Ok(rep) => ChildEnd::Report(rep),
                        | Err(e) => ChildEnd::Crashed(format!("child exited with status {} and an unreadable report ({e}); {} bytes", libc::WEXITSTATUS(status), r.buf.len())),
                    }
                };
                return (r, end);
            }
        }
    }
}

/// Run one schedule in a forked child and return its report (used for replay and determinism checks).
pub fn run_once(child_body: &dyn Fn(&[(u32, u8)]) -> ChildReport, schedule: &[(u32, u8)]) -> ChildEnd {
    let mut running = vec![spawn(child_body, schedule.to_vec(), 0)];
    wait_one(&mut running).1
}
