//! Front-end totality oracle shared by C10/C11: analyse a text in-process, render every diagnostic
//! through the same ariadne path as the CLI (to a buffer), and check every reported location.
use crate::subject::*;
use std::path::Path;
use zydeco_session::{AnalysisError, AnalysisOutcome, CompilerSession, SourceCaches};

pub struct FrontOutcome {
    pub verdict: Option<Verdict>,
    /// (fingerprint, detail)
    pub problems: Vec<(String, String)>,
    pub rendered: String,
}

fn strip_ansi(s: &str) -> String {
    let mut out = String::new();
    let mut it = s.chars().peekable();
    while let Some(c) = it.next() {
        if c == '\u{1b}' {
            for d in it.by_ref() {
                if d.is_ascii_alphabetic() {
                    break;
                }
            }
        } else {
            out.push(c);
        }
    }
    out
}

fn check_range(problems: &mut Vec<(String, String)>, what: &str, path: &Path, range: &std::ops::Range<usize>, lookup: &dyn Fn(&Path) -> Option<String>) {
    if path == Path::new("<internal>") {
        return;
    }
    match lookup(path) {
        | None => problems.push((
            format!("{what}: diagnostic names a file that is not a source of the program"),
            format!("path {}", path.display()),
        )),
        | Some(src) => {
            if range.start > range.end || range.end > src.len() {
                problems.push((
                    format!("{what}: diagnostic span outside the file"),
                    format!("span {:?} but file {} has {} bytes", range, path.display(), src.len()),
                ));
            } else if !src.is_char_boundary(range.start) || !src.is_char_boundary(range.end) {
                problems.push((
                    format!("{what}: diagnostic span not on a character boundary"),
                    format!("span {:?} in {}", range, path.display()),
                ));
            }
        }
    }
}

/// Check `path:line:col` headers of rendered ariadne output against the named file's extent.
fn check_rendered(problems: &mut Vec<(String, String)>, rendered: &str, lookup: &dyn Fn(&Path) -> Option<String>) {
    for line in rendered.lines() {
        let Some(i) = line.find("─[") else { continue };
        let inner = line[i + "─[".len()..].trim().trim_end_matches(']').trim();
        // path:line:col (path may contain ':', split from the right)
        let mut parts = inner.rsplitn(3, ':');
        let (Some(col), Some(ln), Some(path)) = (parts.next(), parts.next(), parts.next()) else { continue };
        let (Ok(col), Ok(ln)) = (col.trim().parse::<usize>(), ln.trim().parse::<usize>()) else {
            if inner.contains('?') {
                problems.push(("rendered diagnostic has an unknown location".into(), line.to_string()));
            }
            continue;
        };
        let Some(src) = lookup(Path::new(path.trim())) else { continue };
        let lines: Vec<&str> = src.split('\n').collect();
        let ok = ln >= 1 && ln <= lines.len() && col >= 1 && col <= lines[ln - 1].chars().count() + 1;
        if !ok {
            problems.push((
                "rendered diagnostic location outside the file".into(),
                format!("{} but file has {} lines (line length {:?})", line.trim(), lines.len(), lines.get(ln.wrapping_sub(1)).map(|l| l.chars().count())),
            ));
        }
    }
}

/// Run the whole front end on `root` with `session`, rendering diagnostics like the CLI does.
pub fn front_end(session: &CompilerSession, root: &Path) -> FrontOutcome {
    let mut problems = Vec::new();
    let mut rendered = String::new();
    let res = guarded(|| session.analyze(root));
    let result = match res {
        | Ok(r) => r,
        | Err(p) => {
            problems.push((format!("front end panicked at {}: {}", short_loc(&p.loc), short_msg(&p.msg)), format!("{:?}", p)));
            return FrontOutcome { verdict: None, problems, rendered };
        }
    };
    let verdict = verdict_of(&result);
    let render = guarded(|| {
        let mut problems: Vec<(String, String)> = Vec::new();
        let mut buf: Vec<u8> = Vec::new();
        match &result {
            | Ok(analysis) => {
                let lookup = |p: &Path| analysis.source(p).map(|s| s.to_string());
                for site in analysis.warnings() {
                    check_range(&mut problems, "warning", site.path(), site.warning.range(), &lookup);
                    let _ = site.warning.message();
                    let _ = site.warning.note();
                }
                if let AnalysisOutcome::Rejected { reports } = analysis.outcome() {
                    for (i, report) in reports.reports.iter().enumerate() {
                        if let Some(Some((path, range, _msg))) = reports.spans.get(i) {
                            check_range(&mut problems, "type error", path.as_path(), range, &lookup);
                        }
                        let _ = report.write(SourceCaches::analysis(analysis), &mut buf);
                    }
                    if reports.reports.is_empty() {
                        problems.push(("rejected without any report".into(), String::new()));
                    }
                }
                let text = strip_ansi(&String::from_utf8_lossy(&buf));
                check_rendered(&mut problems, &text, &lookup);
                (problems, text)
            }
            | Err(AnalysisError::Resolve { error, graph }) => {
                let lookup = |p: &Path| {
                    graph.sources.iter().find_map(|(_, f)| (f.path == p).then(|| f.source.clone()))
                };
                let _ = error.to_report().write(SourceCaches::graph(graph), &mut buf);
                let text = strip_ansi(&String::from_utf8_lossy(&buf));
                check_rendered(&mut problems, &text, &lookup);
                (problems, text)
            }
            | Err(other) => {
                let text = format!("{other}");
                if text.trim().is_empty() {
                    problems.push(("error with an empty message".into(), format!("{:?}", other)));
                }
                (problems, text)
            }
        }
    });
    // the CLI's own rendering path (prints to the process's stdout/stderr, which workers discard)
    let cli = guarded(|| match &result {
        | Ok(analysis) => {
            zydeco_cli::DiagnosticRenderer::warnings(analysis);
            zydeco_cli::DiagnosticRenderer::observations(analysis);
            if let AnalysisOutcome::Rejected { .. } = analysis.outcome() {
                zydeco_cli::DiagnosticRenderer::error(&zydeco_cli::CompileError::Rejected(analysis.clone()));
            }
        }
        | Err(e) => zydeco_cli::DiagnosticRenderer::error(&zydeco_cli::CompileError::Analysis(e.clone())),
    });
    if let Err(p) = cli {
        problems.push((format!("CLI diagnostic renderer panicked at {}: {}", short_loc(&p.loc), short_msg(&p.msg)), format!("{:?}", p)));
    }
    match render {
        | Ok((p, text)) => {
            problems.extend(p);
            rendered = text;
        }
        | Err(p) => problems.push((format!("diagnostic rendering panicked at {}: {}", short_loc(&p.loc), short_msg(&p.msg)), format!("{:?}", p))),
    }
    FrontOutcome { verdict: Some(verdict), problems, rendered }
}

/// Panic location without machine-specific prefixes and without line numbers of generated code.
pub fn short_loc(loc: &str) -> String {
    let l = loc.rsplit("/repo/").next().unwrap_or(loc);
    if l.contains("/out/") || l.contains("target/") {
        // generated parser: keep only the file name
        let f = l.rsplit('/').next().unwrap_or(l);
        return f.split(':').next().unwrap_or(f).to_string();
    }
    // no line number: unrelated edits to the same file must not change a fingerprint
    l.split(':').next().unwrap_or(l).to_string()
}

/// Panic message without input-specific payload (text after the first ':' or '`' is dropped).
pub fn short_msg(msg: &str) -> String {
    let cut = msg.find([':', '`', '(']).unwrap_or(msg.len());
    msg[..cut].trim().chars().take(60).collect()
}
