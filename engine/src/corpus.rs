//! Repository source corpus (read from /repo's working tree at run time) and a mini corpus.
use crate::common::repo_root;
use std::path::PathBuf;

pub fn repo_sources() -> Vec<PathBuf> {
    let mut out = Vec::new();
    let root = repo_root();
    let mut stack = vec![root.join("lib"), root.join("docs")];
    while let Some(d) = stack.pop() {
        let Ok(rd) = std::fs::read_dir(&d) else { continue };
        for e in rd.flatten() {
            let p = e.path();
            if p.is_dir() {
                stack.push(p);
            } else if matches!(p.extension().and_then(|e| e.to_str()), Some("zy" | "zyi" | "zydeco")) {
                out.push(p);
            }
        }
    }
    out.sort();
    out
}

/// Total size of a source plus everything it transitively imports (textual scan of import paths,
/// companion signatures included); used only to budget expensive cases.
pub fn transitive_size(path: &std::path::Path) -> usize {
    let mut seen = std::collections::BTreeSet::new();
    let mut stack = vec![path.to_path_buf()];
    let mut total = 0;
    while let Some(p) = stack.pop() {
        let p = p.canonicalize().unwrap_or(p);
        if !seen.insert(p.clone()) {
            continue;
        }
        let Ok(text) = std::fs::read_to_string(&p) else { continue };
        total += text.len();
        if p.extension().and_then(|e| e.to_str()) == Some("zy") {
            stack.push(p.with_extension("zyi"));
        }
        let mut rest = text.as_str();
        while let Some(i) = rest.find("import(\"") {
            rest = &rest[i + 8..];
            if let Some(j) = rest.find('"') {
                let rel = &rest[..j];
                let target = if rel.starts_with('/') { PathBuf::from(rel) } else { p.parent().unwrap().join(rel) };
                stack.push(target);
                rest = &rest[j..];
            }
        }
    }
    total
}

/// Small self-contained sources covering the grammar's productions (closed: intrinsics only).
pub const MINIS: &[&str] = &[
    "ret ()",
    "let Ret = @(intrinsic(ret)) in let Int64 = @(intrinsic(i64)) in let x : Int64 = 1 in ret x",
    "let Ret = @(intrinsic(ret)) in let Thk = @(intrinsic(thk)) in let Int64 = @(intrinsic(i64)) in let f : Thk (Int64 -> Ret Int64) = { fn x => ret x } in ! f 5",
    "let Ret = @(intrinsic(ret)) in let Int64 = @(intrinsic(i64)) in do x <- ret 1; ret (x, 2)",
    "let Ret = @(intrinsic(ret)) in let Unit = @(intrinsic(unit)) in let B = data | +T : Unit | +F : Unit end in let b : B = +T() in match b | +T() => ret 1 | +F() => ret 0 end",
    "let Ret = @(intrinsic(ret)) in let Int64 = @(intrinsic(i64)) in let C = codata | .a : Ret Int64 | .b : Ret Int64 end in (comatch | .a => ret 1 | .b => ret 2 end : C) .a",
    "let Ret = @(intrinsic(ret)) in let Thk = @(intrinsic(thk)) in let Int64 = @(intrinsic(i64)) in (fix (f : Thk (Int64 -> Ret Int64)) => fn x => ret x) 3",
    "let Ret = @(intrinsic(ret)) in let Int64 = @(intrinsic(i64)) in let r : (a :: Int64) * (b :: Int64) = (a = 1, b = 2) in ret (r/a)",
    "let Ret = @(intrinsic(ret)) in let VType = @(intrinsic(vtype)) in let Int64 = @(intrinsic(i64)) in let Thk = @(intrinsic(thk)) in let id : Thk (forall (A : VType) . A -> Ret A) = { fn A x => ret x } in ! id Int64 7",
    "let Ret = @(intrinsic(ret)) in let VType = @(intrinsic(vtype)) in let Int64 = @(intrinsic(i64)) in let p : exists (X : VType) . X * Int64 = (Int64, 1, 2) in match p | (X, a, b) => ret b end",
    "begin let Ret = @(intrinsic(ret)) that let Int64 = @(intrinsic(i64)) that def y : Int64 = x that def x : Int64 = 1 that ret y end",
    "begin let Ret = @(intrinsic(ret)) that let Unit = @(intrinsic(unit)) that let VType = @(intrinsic(vtype)) that def Nat : VType = data | +Z : Unit | +S : Nat end that let n : Nat = +S(+Z()) in match n | +Z() => ret 0 | +S(m) => ret 1 end end",
    "let Ret = @(intrinsic(ret)) in let Int64 = @(intrinsic(i64)) in let ((a, b); whole) : Int64 * Int64 = (1, 2) in ret (a, whole)",
    "let Ret = @(intrinsic(ret)) in let String = @(intrinsic(string)) in let Char = @(intrinsic(char)) in ret (\"a\\n\", 'c', 1.5, -2)",
    "-- comment\nlet Ret = @(intrinsic(ret)) in /- block /- nested -/ -/ ret () -- trailing\n",
    "--| doc text\n@[doc] ret ()",
];
