//! C01/C02/C03(positive) over the program universe.
use crate::common::*;
use crate::print::{Cfg, Naming};
use crate::subject::*;
use crate::uni::*;

pub enum Mode {
    /// C01: accepted programs never go wrong
    Safety,
    /// C02: interpreter = reference semantics
    Agreement,
    /// C03 positive side: well-typed programs are accepted
    Acceptance,
}

pub struct Universe {
    mode: Mode,
    progs: Vec<Prog>,
    chunk: usize,
    scratch: Option<Scratch>,
}

impl Universe {
    pub fn new(mode: Mode, tier: Tier) -> Self {
        Universe { mode, progs: universe(tier), chunk: 16, scratch: None }
    }
}

pub fn panic_fingerprint(p: &PanicInfo, at: &Option<String>) -> String {
    format!(
        "interpreter reached an undefined state: {} at {} while stepping {}",
        crate::front::short_msg(&p.msg),
        crate::front::short_loc(&p.loc),
        at.clone().unwrap_or_default().split('(').next().unwrap_or("")
    )
}

impl Check for Universe {
    fn property(&self) -> &'static str {
        match self.mode {
            | Mode::Safety => "C01",
            | Mode::Agreement => "C02",
            | Mode::Acceptance => "C03",
        }
    }
    fn name(&self) -> String {
        match self.mode {
            | Mode::Safety => "c01-universe".into(),
            | Mode::Agreement => "c02-universe".into(),
            | Mode::Acceptance => "c03-positive".into(),
        }
    }
    fn len(&self) -> usize {
        self.progs.len().div_ceil(self.chunk)
    }
    fn describe(&self, i: usize) -> String {
        let p = &self.progs[i * self.chunk];
        format!("programs #{}..#{} of the universe; first ({}), stdin {:?}:\n{}", i * self.chunk, (i + 1) * self.chunk, p.origin, String::from_utf8_lossy(p.stdin), crate::print::program(&p.body, &p.root, &Cfg::default()).0)
    }
    fn rule(&self) -> String {
        let what = match self.mode {
            | Mode::Safety => "oracle: every public Eval::step of an accepted program either steps, finishes, or unwinds with the defined arithmetic trap; any other unwind (panic/expect/unreachable in eval.rs, impls.rs, link.rs) is a violation; out-of-fuel passes; non-trivial = accepted programs that ran >= 3 steps",
            | Mode::Agreement => "oracle: output bytes and final result of zydeco_dynamics::Runtime equal those of the harness's independent big-step CBPV evaluator (right-nested product grouping normalised); printed under fresh naming and under maximal shadowing (pool of 2 names), both must agree with the reference; non-trivial = programs that terminate within fuel in both",
            | Mode::Acceptance => "oracle: every program of the universe is well typed by construction in the reference system and printed with maximal annotations, so CompilerSession::analyze must return Checked; non-trivial = programs using >= 3 distinct term formers",
        };
        format!("the program universe U(n): type-directed size-exact enumeration, complete below the per-profile size bound, over 8 menus (functions/thunks with beta-redexes, products with named components and projections incl. a last named component that is itself a product, alias patterns, data + match, recursive data, codata with 3 destructors, fix, executable slice with output/arith/trap, arith in Ret programs), plus schema instances (Nat recursion using a parameter after the recursive call, list fold through a captured closure, codata objects in both declaration orders with visible output order, stdin echo with a division trap, nested named records) with every filler below the filler bound; {} programs; case = {} programs; {}", self.progs.len(), self.chunk, what)
    }
    fn timeout(&self) -> std::time::Duration {
        std::time::Duration::from_secs(120)
    }
    fn run(&mut self, i: usize) -> CaseResult {
        let scratch = self.scratch.get_or_insert_with(|| Scratch::new("uni"));
        let a = i * self.chunk;
        let b = ((i + 1) * self.chunk).min(self.progs.len());
        let mut r = CaseResult::ok("chunk").key(hash64(&format!("u{}", i)));
        let mut nontrivial = 0u64;
        for prog in &self.progs[a..b] {
            let cfgs: Vec<Cfg> = match self.mode {
                | Mode::Agreement => vec![Cfg::default(), Cfg { naming: Naming::Pool(2), multiline: false }],
                | _ => vec![Cfg::default()],
            };
            for cfg in &cfgs {
                let ev = evaluate(scratch, prog, cfg, !matches!(self.mode, Mode::Acceptance));
                r = r.count("programs", 1);
                if let Some(p) = &ev.front_panic {
                    r = r.violation(format!("front end panicked at {}", crate::front::short_loc(&p.loc)), format!("{:?}\n{}", p, ev.text));
                    continue;
                }
                if !ev.verdict.accepted() {
                    r = r.count(&format!("not_accepted_{}", ev.verdict.tag()), 1);
                    if matches!(self.mode, Mode::Acceptance) {
                        r = r.violation(
                            format!("well-typed fully annotated program not accepted ({}; origin {})", ev.verdict.tag(), prog.origin),
                            format!("verdict {:?}\n{}", ev.verdict, ev.text),
                        );
                    }
                    continue;
                }
                r = r.count("accepted", 1);
                let Some(run) = &ev.run else {
                    if matches!(self.mode, Mode::Acceptance) {
                        nontrivial += 1;
                    }
                    continue;
                };
                r = r.count("steps", run.steps);
                match self.mode {
                    | Mode::Safety => {
                        if run.steps >= 3 {
                            nontrivial += 1;
                        }
                        match &run.end {
                            | RunEnd::Panic(p) if !defined_trap(p) && !host_io_failure(p) => {
                                r = r.violation(panic_fingerprint(p, &run.at), format!("{:?} after {} steps\nstdin {:?}\n{}", p, run.steps, String::from_utf8_lossy(prog.stdin), ev.text));
                            }
                            | RunEnd::LinkError(e) | RunEnd::NotRunnable(e) => {
                                r = r.violation("accepted program cannot be linked/run".to_string(), format!("{e}\n{}", ev.text));
                            }
                            | _ => {}
                        }
                    }
                    | Mode::Agreement => {
                        if !matches!(run.end, RunEnd::OutOfFuel) && !matches!(ev.reference.end, crate::lang::REnd::OutOfFuel) {
                            nontrivial += 1;
                        }
                        if let Some(d) = disagreement(run, &ev.reference) {
                            let fp = match &run.end {
                                | RunEnd::Panic(p) if !defined_trap(p) => format!("interpreter stuck where the reference semantics is defined: {} at {}", crate::front::short_msg(&p.msg), crate::front::short_loc(&p.loc)),
                                | _ => format!("interpreter result differs from CBPV reference semantics (origin {})", prog.origin),
                            };
                            r = r.violation(fp, format!("{}\ninterpreter: {:?} output {:?}\nreference: {:?} output {:?}\nstdin {:?}\n{}", d, run.end, String::from_utf8_lossy(&run.output), ev.reference.end, String::from_utf8_lossy(&ev.reference.output), String::from_utf8_lossy(prog.stdin), ev.text));
                        }
                    }
                    | Mode::Acceptance => {}
                }
            }
        }
        r.nontrivial = nontrivial > 0;
        r.count("nontrivial_programs", nontrivial)
    }
}
