//! C09, semantic side: an import occurrence means what writing the provider's closed term at that
//! place would mean (differential: multi-file program vs the same program with every import
//! replaced textually by the parenthesised provider text), each occurrence a fresh copy
//! (generativity), a companion signature = ascription; and the same file reached under different
//! path spellings (relative, dotted, absolute, symlinked) is one source.
use crate::common::*;
use crate::subject::*;
use std::collections::BTreeSet;
use std::path::{Path, PathBuf};
use zydeco_session::{CompilerSession, SourceLoadError};

/* ------------------------------------- providers ------------------------------------- */

#[derive(Clone)]
pub struct Provider {
    pub file: &'static str,
    pub text: &'static str,
    /// companion signature text (written next to the implementation as <file>i)
    pub sig: Option<&'static str>,
    /// other providers this one imports
    pub deps: &'static [&'static str],
}

pub fn providers() -> Vec<Provider> {
    let p = |file, text, sig, deps| Provider { file, text, sig, deps };
    vec![
        p("one.zy", "1", None, &[]),
        p("str.zy", "\"s\"", None, &[]),
        p("pair.zy", "(1, 2)", None, &[]),
        p("thunk.zy", "{ ret 7 }", None, &[]),
        p("fun.zy", "begin let Ret = @(intrinsic(ret)) that let Int64 = @(intrinsic(i64)) that { fn (x : Int64) => ret x } end", None, &[]),
        p("bool.zy", "begin let Unit = @(intrinsic(unit)) that let B = data | +T : Unit | +F : Unit end that (+T() : B) end", None, &[]),
        p("nested.zy", "((@(import(\"one.zy\"))), (@(import(\"pair.zy\"))))", None, &["one.zy", "pair.zy"]),
        p("int.zy", "@(intrinsic(i64))", None, &[]),
        p("gen.zy", "begin let VType = @(intrinsic(vtype)) that let Unit = @(intrinsic(unit)) that def T : VType = data | +K : Unit end that T end", None, &[]),
        p("alias.zy", "begin let Unit = @(intrinsic(unit)) that data | +K : Unit end end", None, &[]),
        p("poly.zy", "begin let VType = @(intrinsic(vtype)) that let Ret = @(intrinsic(ret)) that forall (X : VType) . X -> Ret X end", None, &[]),
        p("sigint.zy", "1", Some("@(intrinsic(i64))"), &[]),
        p("sigbad.zy", "\"s\"", Some("@(intrinsic(i64))"), &[]),
        p("sigfun.zy", "{ fn x => ret x }", Some("begin let Thk = @(intrinsic(thk)) that let Ret = @(intrinsic(ret)) that let Int64 = @(intrinsic(i64)) that Thk (Int64 -> Ret Int64) end"), &[]),
    ]
}

/* ------------------------------------- consumers ------------------------------------- */

const PRELUDE: &str = "begin\n  let VType = @(intrinsic(vtype)) that\n  let Ret = @(intrinsic(ret)) that\n  let Thk = @(intrinsic(thk)) that\n  let Int64 = @(intrinsic(i64)) that\n  ";

/// consumer contexts; `#1` / `#2` are the holes
pub fn consumers() -> Vec<&'static str> {
    vec![
        "let x = #1 in ret x",
        "let x : Int64 = #1 in ret x",
        "do y <- ! #1; ret y",
        "! #1 5",
        "let x : #1 = 1 in ret x",
        "ret (#1, #2)",
        "let A = #1 in let B = #2 in let x : A = +K() in let y : B = x in ret 0",
        "let A = #1 in let B = A in let x : A = +K() in let y : B = x in ret 0",
        "let f : Thk (#1) = { fn (X : VType) (x : X) => ret x } in ! f Int64 3",
        "match #1 | +T() => ret 1 | +F() => ret 2 end",
        "let (a, b) = #1 in ret b",
        "let x = #1 in let y = #1 in ret (x, y)",
        "let g : Thk (#1 -> Ret #2) = { fn v => ret v } in ret 0",
        "do y <- ! #1 #2; ret y",
    ]
}

fn holes(k: &str) -> usize {
    if k.contains("#2") { 2 } else { 1 }
}

fn inline_text(p: &Provider, all: &[Provider]) -> String {
    let mut t = p.text.to_string();
    for d in p.deps {
        let dp = all.iter().find(|q| q.file == *d).unwrap();
        t = t.replace(&format!("@(import(\"{}\"))", d), &format!("({})", inline_text(dp, all)));
    }
    match p.sig {
        | Some(s) => format!("(({}) : ({}))", t, s),
        | None => format!("({})", t),
    }
}

pub struct Splice {
    cases: Vec<(usize, Vec<usize>)>,
    scratch: Option<Scratch>,
}
impl Splice {
    pub fn new(_tier: Tier) -> Self {
        let np = providers().len();
        let mut cases = vec![];
        for (k, ctx) in consumers().iter().enumerate() {
            if holes(ctx) == 1 {
                for a in 0..np {
                    cases.push((k, vec![a]));
                }
            } else {
                for a in 0..np {
                    for b in 0..np {
                        cases.push((k, vec![a, b]));
                    }
                }
            }
        }
        Splice { cases, scratch: None }
    }
    fn texts(&self, i: usize) -> (String, String) {
        let all = providers();
        let (k, ps) = &self.cases[i];
        let ctx = consumers()[*k];
        let mut multi = ctx.to_string();
        let mut inl = ctx.to_string();
        for (h, p) in ps.iter().enumerate() {
            let hole = format!("#{}", h + 1);
            multi = multi.replace(&hole, &format!("(@(import(\"{}\")))", all[*p].file));
            inl = inl.replace(&hole, &inline_text(&all[*p], &all));
        }
        (format!("{PRELUDE}{multi}\nend\n"), format!("{PRELUDE}{inl}\nend\n"))
    }
}

fn outcome(path: &Path) -> Result<(bool, String, String), PanicInfo> {
    guarded(|| {
        let s = Subject::analyze(path);
        let v = s.verdict();
        if v.accepted() {
            let r = s.run(b"", &[], 5000);
            (true, format!("{:?} out={:?}", r.end, r.output), String::new())
        } else {
            (false, String::new(), format!("{:?}", v).chars().take(300).collect())
        }
    })
}

impl Check for Splice {
    fn property(&self) -> &'static str {
        "C09"
    }
    fn name(&self) -> String {
        "c09-splice".into()
    }
    fn len(&self) -> usize {
        self.cases.len()
    }
    fn level(&self) -> &'static str {
        "model_checking"
    }
    fn describe(&self, i: usize) -> String {
        let (m, inl) = self.texts(i);
        let all = providers();
        let files: Vec<String> = all.iter().map(|p| format!("{} = {:?}{}", p.file, p.text, p.sig.map(|s| format!(" with companion {:?}", s)).unwrap_or_default())).collect();
        format!("multi-file root:\n{m}\ninlined:\n{inl}\nprovider files: {}", files.join("; "))
    }
    fn rule(&self) -> String {
        format!("every consumer context ({} contexts with one or two holes in value, computation-head, type and scrutinee positions, incl. the same import twice and two imports compared as types) x every assignment of {} closed provider files to its holes (values, thunks, functions, a constructor at a local data type, a provider that itself imports two others, type providers: an intrinsic, a generative sealed data type, a transparent data type, a quantified type; three providers with companion signatures, one mismatching) — all combinations, well sorted or not; the multi-file program (imports) and the single-file program obtained by replacing every import occurrence textually by the parenthesised provider text (`((impl) : (sig))` with a companion) must get the same verdict and, when accepted, the same run result; plus fixed expectations: a generative provider imported twice gives two distinct types (rejected), bound once to a name and used twice it is shared (accepted), a transparent provider imported twice is accepted; states = programs; non-trivial = combinations accepted by at least one side", consumers().len(), providers().len())
    }
    fn run(&mut self, i: usize) -> CaseResult {
        let (multi, inl) = self.texts(i);
        let (k, ps) = self.cases[i].clone();
        let scratch = self.scratch.get_or_insert_with(|| Scratch::new("c09splice"));
        scratch.clear();
        let all = providers();
        for p in &all {
            scratch.write(p.file, p.text);
            if let Some(s) = p.sig {
                scratch.write(&format!("{}i", p.file), s);
            }
        }
        let root = scratch.write("root.zy", &multi);
        let a = outcome(&root);
        std::fs::create_dir_all(scratch.dir.join("single")).ok();
        let single = scratch.write("single/root.zy", &inl);
        let b = outcome(&single);
        let mut r = CaseResult::ok("combination").key(i as u64);
        match (a, b) {
            | (Err(p), _) | (_, Err(p)) => r = r.violation(format!("front end panics on an import splice: {}", crate::front::short_msg(&p.msg)), format!("{:?}\n{}\n{}", p, multi, inl)),
            | (Ok((acc_m, run_m, why_m)), Ok((acc_i, run_i, why_i))) => {
                r = r.nontrivial(acc_m || acc_i).count("states", 1).count("transitions", 2).count("traces", 1).count("accepted", acc_m as u64);
                if acc_m != acc_i {
                    r = r.violation(
                        format!("an import is {} where the inlined provider text is {}", if acc_m { "accepted" } else { "rejected" }, if acc_i { "accepted" } else { "rejected" }),
                        format!("multi-file ({}):\n{}\ninlined ({}):\n{}", if acc_m { run_m.clone() } else { why_m.clone() }, multi, if acc_i { run_i.clone() } else { why_i.clone() }, inl),
                    );
                } else if acc_m && run_m != run_i {
                    r = r.violation("a program with imports behaves differently from the same program with the providers inlined".to_string(), format!("multi-file: {run_m}\ninlined: {run_i}\n{multi}\n{inl}"));
                }
                // fixed expectations on generativity
                let name = |j: usize| all[ps[j]].file;
                let expect = match (k, ps.len()) {
                    | (6, 2) if name(0) == "gen.zy" && name(1) == "gen.zy" => Some((false, "a generative provider imported twice must give two distinct types")),
                    | (6, 2) if name(0) == "alias.zy" && name(1) == "alias.zy" => Some((true, "a transparent provider imported twice gives equal types")),
                    | (7, 1) if name(0) == "gen.zy" => Some((true, "one import bound to a name is shared")),
                    | (1, 1) if name(0) == "sigbad.zy" => Some((false, "an implementation that does not have its companion signature's type is rejected")),
                    | (1, 1) if name(0) == "sigint.zy" => Some((true, "an implementation with a matching companion signature is accepted at the signature's type")),
                    | _ => None,
                };
                if let Some((want, why)) = expect {
                    if acc_m != want {
                        r = r.violation(format!("import semantics: {why}"), format!("expected {}, got {}\n{}", if want { "accepted" } else { "rejected" }, if acc_m { "accepted" } else { "rejected" }, multi));
                    }
                }
            }
        }
        r
    }
}

/* ------------------------------------ path spellings ------------------------------------ */

pub struct Spellings {
    cases: Vec<(usize, usize, usize)>,
    scratch: Option<Scratch>,
}
const N_LIB_SPELLINGS: usize = 9;
const N_BACK: usize = 5;
impl Spellings {
    pub fn new() -> Self {
        let mut cases = vec![];
        for a in 0..N_LIB_SPELLINGS {
            for b in 0..N_LIB_SPELLINGS {
                for back in 0..N_BACK {
                    cases.push((a, b, back));
                }
            }
        }
        Spellings { cases, scratch: None }
    }
    fn lib_spelling(dir: &Path, k: usize) -> String {
        match k {
            | 0 => "lib.zy".into(),
            | 1 => "./lib.zy".into(),
            | 2 => "sub/../lib.zy".into(),
            | 3 => dir.join("lib.zy").display().to_string(),
            | 4 => "link.zy".into(),
            | 5 => "sub/up.zy".into(),
            | 6 => format!("{}/sub/../link.zy", dir.display()),
            // `..` after a symlink to a directory with another parent: resolves to other/target.zy (a
            // symlink to lib.zy), while folding the text would give the decoy ./target.zy
            | 7 => "dlink/../target.zy".into(),
            | _ => format!("{}/dlink/../target.zy", dir.display()),
        }
    }
    fn back_spelling(dir: &Path, k: usize) -> Option<String> {
        match k {
            | 0 => None,
            | 1 => Some(dir.join("root.zy").display().to_string()),
            | 2 => Some(dir.join("rootlink.zy").display().to_string()),
            | 3 => Some(format!("{}/sub/../root.zy", dir.display())),
            // resolves to other/rootback.zy (a symlink to root.zy); the textual fold is a harmless decoy
            | _ => Some(format!("{}/dlink/../rootback.zy", dir.display())),
        }
    }
}
impl Check for Spellings {
    fn property(&self) -> &'static str {
        "C09"
    }
    fn name(&self) -> String {
        "c09-path-spellings".into()
    }
    fn len(&self) -> usize {
        self.cases.len()
    }
    fn level(&self) -> &'static str {
        "model_checking"
    }
    fn describe(&self, i: usize) -> String {
        let (a, b, back) = self.cases[i];
        let d = Path::new("<dir>");
        format!("root.zy imports lib.zy as {:?} and as {:?}; lib.zy {}; links: link.zy -> lib.zy, sub/up.zy -> ../lib.zy, rootlink.zy -> root.zy, dlink -> other/deep, other/target.zy -> ../lib.zy, other/rootback.zy -> ../root.zy; decoys target.zy, rootback.zy", Self::lib_spelling(d, a), Self::lib_spelling(d, b), match Self::back_spelling(d, back) {
            | None => "imports nothing".to_string(),
            | Some(s) => format!("imports the root back as {:?}", s),
        })
    }
    fn rule(&self) -> String {
        format!("root.zy imports one file twice under every ordered pair of {} spellings (plain relative, `./`, through `sub/..`, absolute, a symlink in the same directory, a symlink in a subdirectory, absolute through `..` and a symlink, relative and absolute through `..` after a symlink to a directory with another parent — where folding the text instead of asking the file system reaches a decoy file), and that file imports nothing or the root back under {} absolute spellings (direct, symlink, through `..`, through `..` after a directory symlink): {} directory states, each loaded by the real CompilerSession::graph and analysed; oracle (reference: std::fs::canonicalize): without a back import the load succeeds with exactly two sources (each canonical file once), two import edges both ending in the same source, providers before consumers, and the program returns (1, 1); with a back import the load fails with a cycle whose steps connect exactly the two canonical files; states = directory states", N_LIB_SPELLINGS, N_BACK - 1, self.cases.len())
    }
    fn run(&mut self, i: usize) -> CaseResult {
        let scratch = self.scratch.get_or_insert_with(|| Scratch::new("c09spell"));
        scratch.clear();
        let dir = std::fs::canonicalize(&scratch.dir).unwrap_or(scratch.dir.clone());
        let (a, b, back) = self.cases[i];
        std::fs::create_dir_all(dir.join("sub")).ok();
        let lib_text = match Self::back_spelling(&dir, back) {
            | None => "1".to_string(),
            | Some(s) => format!("(@(import(\"{}\")))", s),
        };
        std::fs::write(dir.join("lib.zy"), &lib_text).unwrap();
        let root_text = format!("let Ret = @(intrinsic(ret)) in let a = (@(import(\"{}\"))) in let b = (@(import(\"{}\"))) in ret (a, b)", Self::lib_spelling(&dir, a), Self::lib_spelling(&dir, b));
        std::fs::write(dir.join("root.zy"), &root_text).unwrap();
        let _ = std::os::unix::fs::symlink("lib.zy", dir.join("link.zy"));
        let _ = std::os::unix::fs::symlink("../lib.zy", dir.join("sub/up.zy"));
        let _ = std::os::unix::fs::symlink("root.zy", dir.join("rootlink.zy"));
        std::fs::create_dir_all(dir.join("other/deep")).ok();
        let _ = std::os::unix::fs::symlink("other/deep", dir.join("dlink"));
        let _ = std::os::unix::fs::symlink("../lib.zy", dir.join("other/target.zy"));
        let _ = std::os::unix::fs::symlink("../root.zy", dir.join("other/rootback.zy"));
        std::fs::write(dir.join("target.zy"), "2").unwrap();
        std::fs::write(dir.join("rootback.zy"), "3").unwrap();
        let mut r = CaseResult::ok("state").nontrivial(true).key(i as u64).count("states", 1).count("transitions", 1).count("traces", 1);
        let detail = |what: String| format!("{what}\nroot.zy = {root_text}\nlib.zy = {lib_text}");
        let canon = |p: &Path| std::fs::canonicalize(p).unwrap_or(p.to_path_buf());
        let croot = canon(&dir.join("root.zy"));
        let clib = canon(&dir.join("lib.zy"));
        let res = guarded(|| {
            let s = CompilerSession::default();
            let g = s.graph(dir.join("root.zy"));
            match g {
                | Ok(g) => {
                    let files: Vec<PathBuf> = g.sources.iter().map(|(_, f)| canon(&f.path)).collect();
                    let distinct: BTreeSet<PathBuf> = files.iter().cloned().collect();
                    let targets: BTreeSet<PathBuf> = g.imports.iter().map(|(_, e)| canon(&g.sources[&e.imported].path)).collect();
                    let target_ids: BTreeSet<String> = g.imports.iter().map(|(_, e)| format!("{:?}", e.imported)).collect();
                    let order: Vec<PathBuf> = g.provider_order().iter().map(|id| canon(&g.sources[id].path)).collect();
                    Ok((files, distinct, g.imports.iter().count(), targets, target_ids, order))
                }
                | Err(e) => Err(e),
            }
        });
        match res {
            | Err(p) => r = r.violation(format!("source loader panics: {}", crate::front::short_msg(&p.msg)), detail(format!("{:?}", p))),
            | Ok(Ok((files, distinct, n_imports, targets, target_ids, order))) => {
                if back != 0 {
                    r = r.violation("a cycle through a differently spelled path is not detected".to_string(), detail(format!("loaded sources {:?}", files)));
                } else {
                    if files.len() != 2 || distinct != [croot.clone(), clib.clone()].into_iter().collect() {
                        r = r.violation("the same file reached under two spellings is loaded more than once (or a file is missing)".to_string(), detail(format!("sources {:?}", files)));
                    }
                    if n_imports != 2 || targets.len() != 1 || target_ids.len() != 1 {
                        r = r.violation("two imports of one file do not end in the same source".to_string(), detail(format!("{} import edges to {:?} ({:?})", n_imports, targets, target_ids)));
                    }
                    if order.last() != Some(&croot) {
                        r = r.violation("provider order does not end with the root".to_string(), detail(format!("{:?}", order)));
                    }
                    match outcome(&dir.join("root.zy")) {
                        | Ok((true, run, _)) if run.contains("(Integer(1),Integer(1))") => {}
                        | other => r = r.violation("a program importing one file under two spellings does not return (1, 1)".to_string(), detail(format!("{:?}", other))),
                    }
                }
            }
            | Ok(Err(e)) => match e.as_ref() {
                | SourceLoadError::Cycle(c) if back != 0 => {
                    let ends: BTreeSet<PathBuf> = c.steps.iter().flat_map(|s| [canon(&s.dependent), canon(&s.dependency)]).collect();
                    let closed = c.steps.iter().enumerate().all(|(j, s)| canon(&s.dependency) == canon(&c.steps[(j + 1) % c.steps.len()].dependent));
                    if ends != [croot.clone(), clib.clone()].into_iter().collect() || !closed || c.steps.len() != 2 {
                        r = r.violation("the reported cycle is not the cycle between the two files".to_string(), detail(format!("{c}")));
                    }
                }
                | other => r = r.violation(if back == 0 { "an acyclic directory is rejected".to_string() } else { "a cyclic directory is rejected with another error than the cycle".to_string() }, detail(format!("{other}"))),
            },
        }
        r
    }
}

pub fn checks(tier: Tier) -> Vec<Box<dyn Check>> {
    vec![Box::new(Splice::new(tier)), Box::new(Spellings::new())]
}
