//! Driver for the subject (zydeco) pipeline: analyse, link, step, lower.
use std::any::Any;
use std::cell::RefCell;
use std::path::{Path, PathBuf};
use std::sync::Arc;
use zydeco_dynamics::{
    BuiltinRootLinker, Eval, ProgKont, RootLinker, Runtime, Step,
    syntax::{Computation, SemValue},
};
use zydeco_session::{AnalysisError, AnalysisOutcome, CompilerSession, ProgramAnalysis};
use zydeco_statics::syntax::TermAnnId;

thread_local! {
    static LAST_PANIC: RefCell<Option<(String, String)>> = const { RefCell::new(None) };
    static GUARD_DEPTH: std::cell::Cell<u32> = const { std::cell::Cell::new(0) };
}

/// Install a panic hook that records message+location per thread and prints nothing.
pub fn install_quiet_panic_hook() {
    std::panic::set_hook(Box::new(|info| {
        let loc = info.location().map(|l| format!("{}:{}", l.file(), l.line())).unwrap_or_default();
        let msg = payload_str(info.payload());
        if GUARD_DEPTH.with(|d| d.get()) == 0 {
            eprintln!("zyv: unguarded panic: {msg} at {loc}");
        }
        LAST_PANIC.with(|p| *p.borrow_mut() = Some((msg, loc)));
    }));
}

pub fn payload_str(p: &(dyn Any + Send)) -> String {
    if let Some(s) = p.downcast_ref::<&str>() {
        s.to_string()
    } else if let Some(s) = p.downcast_ref::<String>() {
        s.clone()
    } else {
        "<non-string panic payload>".to_string()
    }
}

#[derive(Clone, Debug, PartialEq, Eq, Hash)]
pub struct PanicInfo {
    pub msg: String,
    pub loc: String,
}

/// Run `f` under catch_unwind, returning the panic message and location on unwind.
pub fn guarded<T>(f: impl FnOnce() -> T) -> Result<T, PanicInfo> {
    LAST_PANIC.with(|p| *p.borrow_mut() = None);
    GUARD_DEPTH.with(|d| d.set(d.get() + 1));
    let result = std::panic::catch_unwind(std::panic::AssertUnwindSafe(f));
    GUARD_DEPTH.with(|d| d.set(d.get() - 1));
    match result {
        | Ok(v) => Ok(v),
        | Err(payload) => {
            let (msg, loc) = LAST_PANIC
                .with(|p| p.borrow_mut().take())
                .unwrap_or_else(|| (payload_str(payload.as_ref()), String::new()));
            Err(PanicInfo { msg, loc })
        }
    }
}

/// Per-thread scratch directory holding the files of one case.
pub struct Scratch {
    pub dir: PathBuf,
}

impl Scratch {
    pub fn new(tag: &str) -> Self {
        let base = if Path::new("/dev/shm").is_dir() { PathBuf::from("/dev/shm") } else { std::env::temp_dir() };
        let dir = base.join(format!("zyv-{}-{}-{:?}", tag, std::process::id(), std::thread::current().id()).replace(['(', ')'], ""));
        let _ = std::fs::remove_dir_all(&dir);
        std::fs::create_dir_all(&dir).expect("scratch dir");
        let dir = dir.canonicalize().expect("canonical scratch");
        Scratch { dir }
    }
    pub fn clear(&self) {
        if let Ok(rd) = std::fs::read_dir(&self.dir) {
            for e in rd.flatten() {
                let p = e.path();
                if p.is_dir() && !p.is_symlink() {
                    let _ = std::fs::remove_dir_all(&p);
                } else {
                    let _ = std::fs::remove_file(&p);
                }
            }
        }
    }
    pub fn write(&self, name: &str, text: &str) -> PathBuf {
        let p = self.dir.join(name);
        if let Some(parent) = p.parent() {
            let _ = std::fs::create_dir_all(parent);
        }
        std::fs::write(&p, text).expect("write scratch file");
        p
    }
    pub fn path(&self, name: &str) -> PathBuf {
        self.dir.join(name)
    }
}

impl Drop for Scratch {
    fn drop(&mut self) {
        let _ = std::fs::remove_dir_all(&self.dir);
    }
}

/// Front-end verdict for one root.
#[derive(Clone, Debug, PartialEq, Eq, Hash)]
pub enum Verdict {
    Checked,
    /// type checker rejected; debug names of report kinds
    Rejected(Vec<String>),
    Resolve(String),
    Desugar(String),
    Textual(String),
    Source(String),
}

impl Verdict {
    pub fn tag(&self) -> &'static str {
        match self {
            | Verdict::Checked => "checked",
            | Verdict::Rejected(_) => "rejected",
            | Verdict::Resolve(_) => "resolve-error",
            | Verdict::Desugar(_) => "desugar-error",
            | Verdict::Textual(_) => "textual-error",
            | Verdict::Source(_) => "source-error",
        }
    }
    pub fn accepted(&self) -> bool {
        matches!(self, Verdict::Checked)
    }
}

pub fn first_word(s: &str) -> String {
    s.split(|c: char| !(c.is_alphanumeric() || c == '_')).find(|w| !w.is_empty()).unwrap_or("").to_string()
}

pub fn verdict_of(result: &Result<Arc<ProgramAnalysis>, AnalysisError>) -> Verdict {
    match result {
        | Ok(analysis) => match analysis.outcome() {
            | AnalysisOutcome::Checked { .. } => Verdict::Checked,
            | AnalysisOutcome::Rejected { reports } => {
                Verdict::Rejected(report_kinds(reports))
            }
        },
        | Err(AnalysisError::Source { error }) => Verdict::Source(first_word(&format!("{:?}", error))),
        | Err(AnalysisError::TextualProgram { error }) => Verdict::Textual(first_word(&format!("{:?}", error))),
        | Err(AnalysisError::Desugar { error }) => Verdict::Desugar(first_word(&format!("{:?}", error))),
        | Err(AnalysisError::Resolve { error, .. }) => Verdict::Resolve(first_word(&format!("{:?}", error))),
    }
}

pub fn report_kinds(reports: &zydeco_statics::TyckReports) -> Vec<String> {
    let dbg = format!("{:?}", reports);
    // Conservative: keep only a short debug prefix as a classifier.
    vec![dbg.chars().take(200).collect()]
}

/// How a run of the interpreter ended.
#[derive(Clone, Debug, PartialEq)]
pub enum RunEnd {
    Ret(String),
    Exit(i32),
    OutOfFuel,
    Panic(PanicInfo),
    LinkError(String),
    NotRunnable(String),
}

#[derive(Clone, Debug, PartialEq)]
pub struct RunResult {
    pub end: RunEnd,
    pub output: Vec<u8>,
    pub steps: u64,
    /// debug rendering of the computation being stepped when a panic occurred
    pub at: Option<String>,
}

pub fn show_sem(v: &SemValue) -> String {
    use zydeco_dynamics::syntax::*;
    match v {
        | SemValue::Closure(_) => "<vclosure>".into(),
        | SemValue::Thunk(_) => "<thunk>".into(),
        | SemValue::Ctor(Ctor(name, body)) => format!("{}({})", name.0, show_sem(body)),
        | SemValue::Triv(_) => "()".into(),
        | SemValue::VCons(ConsN(items, tail)) => {
            // flatten right-nested products: layout is not observable
            let mut parts: Vec<String> = items.iter().map(show_sem).collect();
            let t = show_sem(tail);
            if let SemValue::VCons(_) = tail.as_ref() {
                parts.push(t[1..t.len() - 1].to_string());
            } else {
                parts.push(t);
            }
            format!("({})", parts.join(","))
        }
        | SemValue::Literal(l) => format!("{:?}", l),
        | SemValue::Host(h) => format!("<host {:?}>", h),
    }
}

fn kind_of_compu(c: &Computation) -> String {
    match c {
        | Computation::Hole(_) => "Hole".into(),
        | Computation::VAbs(_) => "VAbs".into(),
        | Computation::VApp(_) => "VApp".into(),
        | Computation::Fix(_) => "Fix".into(),
        | Computation::Force(_) => "Force".into(),
        | Computation::Ret(_) => "Ret".into(),
        | Computation::Do(_) => "Do".into(),
        | Computation::Let(_) => "Let".into(),
        | Computation::Match(_) => "Match".into(),
        | Computation::CoMatch(_) => "CoMatch".into(),
        | Computation::Dtor(_) => "Dtor".into(),
        | Computation::Prim(p) => format!("Prim({:?})", p.role),
    }
}

/// Step a linked program one public step at a time under a fuel bound.
pub fn step_program(
    program: zydeco_dynamics::syntax::DynamicsProgram, stdin: &[u8], args: &[String], fuel: u64,
) -> RunResult {
    let mut input = std::io::Cursor::new(stdin.to_vec());
    let mut output: Vec<u8> = Vec::new();
    let mut steps = 0u64;
    let mut at = None;
    let end = {
        let mut rt = Runtime::new(&mut input, &mut output, args, program);
        let mut cur: Computation = rt.program.root.as_ref().clone();
        let started = std::time::Instant::now();
        loop {
            // fuel bound, plus a wall-clock bound (values can grow without bound, making single
            // steps arbitrarily slow); both ends are "out of fuel", which every oracle treats as a pass
            if steps >= fuel || (steps % 1024 == 1023 && started.elapsed().as_millis() > 1500) {
                break RunEnd::OutOfFuel;
            }
            let kind = kind_of_compu(&cur);
            let res = guarded(|| cur.step(&mut rt));
            steps += 1;
            match res {
                | Ok(Step::Step(next)) => cur = next,
                | Ok(Step::Done(ProgKont::Ret(v))) => break RunEnd::Ret(show_sem(&v)),
                | Ok(Step::Done(ProgKont::ExitCode(c))) => break RunEnd::Exit(c),
                | Ok(Step::Done(ProgKont::Dry)) => break RunEnd::NotRunnable("dry".into()),
                | Err(p) => {
                    at = Some(kind);
                    break RunEnd::Panic(p);
                }
            }
        }
    };
    RunResult { end, output, steps, at }
}

/// One analysed root with everything needed to run or lower it.
pub struct Subject {
    pub session: CompilerSession,
    pub result: Result<Arc<ProgramAnalysis>, AnalysisError>,
}

impl Subject {
    pub fn analyze(root: &Path) -> Self {
        let session = CompilerSession::default();
        let result = session.analyze(root);
        Subject { session, result }
    }
    pub fn verdict(&self) -> Verdict {
        verdict_of(&self.result)
    }
    /// Link and run: `Ret`-typed computation roots via RootLinker, package-dependent roots via
    /// BuiltinRootLinker (the CLI's path).
    pub fn run(&self, stdin: &[u8], args: &[String], fuel: u64) -> RunResult {
        let not = |s: &str| RunResult { end: RunEnd::NotRunnable(s.into()), output: vec![], steps: 0, at: None };
        let Ok(analysis) = &self.result else { return not("analysis error") };
        let linked = guarded(|| -> Result<zydeco_dynamics::syntax::DynamicsProgram, RunEnd> {
            match self.session.executable_program(analysis) {
                | Ok(exe) => {
                    // the CLI's path first (result type must be the host's OS witness) ...
                    let first = BuiltinRootLinker {
                        scoped: exe.scoped.clone(),
                        statics: exe.statics.clone(),
                        root: exe.root,
                        signature: exe.signature.clone(),
                    }
                    .run();
                    match first {
                        | Ok(p) => Ok(p),
                        // ... else the tooling path for package-dependent computations with another result type
                        | Err(_) => zydeco_dynamics::BuiltinComputationRootLinker {
                            scoped: exe.scoped,
                            statics: exe.statics,
                            root: exe.root,
                            signature: exe.signature,
                        }
                        .run()
                        .map_err(|e| RunEnd::LinkError(format!("{e}"))),
                    }
                }
                | Err(zydeco_session::ExecutableError::NonBuiltinExecutable { .. }) => {
                    let Some(checked) = self.session.checked_program(analysis) else {
                        return Err(RunEnd::NotRunnable("not checked".into()));
                    };
                    let TermAnnId::Compu(root, _) = checked.root else {
                        return Err(RunEnd::NotRunnable("non-computation".into()));
                    };
                    Ok(RootLinker { scoped: checked.scoped, statics: checked.statics, root }.run())
                }
                | Err(e) => Err(RunEnd::NotRunnable(format!("{e}"))),
            }
        });
        match linked {
            | Ok(Ok(program)) => step_program(program, stdin, args, fuel),
            | Ok(Err(end)) => RunResult { end, output: vec![], steps: 0, at: None },
            | Err(p) => RunResult { end: RunEnd::Panic(p), output: vec![], steps: 0, at: Some("link".into()) },
        }
    }
}

/* ---------------------------------- lowering ---------------------------------- */

pub enum LowerFail {
    /// no public lowering path for this root (not a verdict)
    NoPath(String),
    /// typed error returned by the lowering API
    Error(String),
    Panic(&'static str, PanicInfo),
}

impl Subject {
    /// Lower an accepted root through stack IR, closure conversion and assembly, stage by stage
    /// under catch_unwind (mirrors `zydeco_cli::BackendProgram::lower`).
    pub fn lower(&self) -> Result<zydeco_cli::BackendProgram, LowerFail> {
        let (spans, lowering_scoped, statics, sps_low) = self.lower_to_sps_low()?;
        let assembly = match guarded(|| zydeco_assembly::LoweringPipeline::new(&spans, &lowering_scoped, &statics, &sps_low).run()) {
            | Ok(a) => a,
            | Err(p) => return Err(LowerFail::Panic("assembly lowering", p)),
        };
        Ok(zydeco_cli::BackendProgram { spans, scoped: lowering_scoped, statics, sps_low, assembly })
    }

    /// The first two stages only: stack-IR lowering and closure conversion.
    #[allow(clippy::type_complexity)]
    pub fn lower_to_sps_low(
        &self,
    ) -> Result<
        (Arc<zydeco_surface::textual::syntax::SpanArena>, zydeco_surface::scoped::arena::ScopedArena, Arc<zydeco_statics::arena::StaticsArena>, zydeco_stackir::SpsLowProgram),
        LowerFail,
    > {
        use zydeco_stackir::{BuiltinRootLowerer, RootLowerer, SpsLowPipeline};
        use zydeco_surface::scoped::arena::ScopedArena;
        use zydeco_utils::pass::CompilerPass;
        let Ok(analysis) = &self.result else { return Err(LowerFail::NoPath("analysis error".into())) };
        enum Root {
            Exe(zydeco_session::ExecutableProgram),
            Plain(zydeco_session::CheckedProgram, zydeco_statics::syntax::CompuId),
        }
        let root = match self.session.executable_program(analysis) {
            | Ok(exe) => Root::Exe(exe),
            | Err(zydeco_session::ExecutableError::NonBuiltinExecutable { .. }) => {
                let Some(checked) = self.session.checked_program(analysis) else { return Err(LowerFail::NoPath("not checked".into())) };
                let TermAnnId::Compu(c, _) = checked.root else { return Err(LowerFail::NoPath("non-computation root".into())) };
                Root::Plain(checked, c)
            }
            | Err(e) => return Err(LowerFail::NoPath(format!("{e}"))),
        };
        let (spans, scoped, statics) = match &root {
            | Root::Exe(e) => (e.spans.clone(), e.scoped.clone(), e.statics.clone()),
            | Root::Plain(c, _) => (c.spans.clone(), c.scoped.clone(), c.statics.clone()),
        };
        let mut lowering_scoped = ScopedArena::default();
        lowering_scoped.defs = statics.scoped_definitions(&scoped);
        let high = guarded(|| match &root {
            | Root::Exe(e) => BuiltinRootLowerer::new(&spans, &mut lowering_scoped, &statics, e.root, e.signature.clone()).run().map_err(|e| format!("{e}")),
            | Root::Plain(_, c) => RootLowerer::new(&spans, &mut lowering_scoped, &statics, *c).run().map_err(|e| format!("{e:?}")),
        });
        let high = match high {
            | Ok(Ok(h)) => h,
            | Ok(Err(e)) => {
                return Err(if e.contains("abstract `os` witness") || e.contains("is not its abstract") { LowerFail::NoPath(e) } else { LowerFail::Error(e) });
            }
            | Err(p) => return Err(LowerFail::Panic("stack-ir lowering", p)),
        };
        let sps_low = match guarded(|| SpsLowPipeline::new(&mut lowering_scoped).run(high)) {
            | Ok(s) => s,
            | Err(p) => return Err(LowerFail::Panic("closure conversion", p)),
        };
        Ok((spans, lowering_scoped, statics, sps_low))
    }
}
