//! C18 (every accepted executable lowers, with valid IR) and C19 (compilation to first-order SPS
//! preserves behaviour) over the program universe.
use crate::common::*;
use crate::e2;
use crate::print::Cfg;
use crate::subject::*;
use crate::uni::*;
use std::collections::{HashMap, HashSet};
use zydeco_stackir::sps_low::syntax::*;
use zydeco_stackir::SpsLowProgram;

pub enum Mode {
    Lowering,
    Preservation,
}

/// one subject program: from the core universe (printed on demand) or from the System-F / F-omega universe
pub enum Item {
    Core(Prog),
    Poly(crate::poly::Cmp),
    /// a runnable fixture of the repository (lib/tests/**), analysed in place so that its imports resolve
    File(std::path::PathBuf),
    /// a hand-written program for a binder / pattern form the generators do not produce
    Text(&'static str),
}

/// binder and pattern forms outside the generators' grammar, each accepted and run by the interpreter
pub const EXTRA: &[&str] = &[
    "let Ret = @(intrinsic(ret)) in let Thk = @(intrinsic(thk)) in let Int64 = @(intrinsic(i64)) in (fix (_ : Thk (Int64 -> Ret Int64)) => fn x => ret x) 5",
    "let Ret = @(intrinsic(ret)) in let Thk = @(intrinsic(thk)) in let Int64 = @(intrinsic(i64)) in (fix ((f; g) : Thk (Int64 -> Ret Int64)) => fn x => ret x) 5",
    "let Ret = @(intrinsic(ret)) in let Thk = @(intrinsic(thk)) in let Int64 = @(intrinsic(i64)) in (fix (f : Thk (Int64 -> Ret Int64)) => fn _ => ret 1) 5",
    // a match without arms on an empty data type, in code that never runs / behind a function / in an arm
    "let Ret = @(intrinsic(ret)) in let Thk = @(intrinsic(thk)) in let Int64 = @(intrinsic(i64)) in let Void = data end in let f : Thk (Void -> Ret Int64) = { fn v => match v end } in ret 1",
    "let Ret = @(intrinsic(ret)) in let Thk = @(intrinsic(thk)) in let Int64 = @(intrinsic(i64)) in let Unit = @(intrinsic(unit)) in let Void = data end in let E = data | +L : Int64 | +R : Void end in let e : E = +L(3) in match e | +L(n) => ret n | +R(v) => (match v end : Ret Int64) end",
    "let Ret = @(intrinsic(ret)) in let Thk = @(intrinsic(thk)) in let Int64 = @(intrinsic(i64)) in let Void = data end in let f : Thk (Void -> Ret Int64) = { fn v => do x <- match v end; ret x } in let g : Thk (Void * Int64 -> Ret Int64) = { fn (v, n) => match v end } in ret 2",
    "let Ret = @(intrinsic(ret)) in let Int64 = @(intrinsic(i64)) in let _ = 1 in ret 2",
    "let Ret = @(intrinsic(ret)) in let Int64 = @(intrinsic(i64)) in do _ <- ret 1; ret 2",
    "let Ret = @(intrinsic(ret)) in let Int64 = @(intrinsic(i64)) in let (a; b) = 3 in ret (a, b)",
    "let Ret = @(intrinsic(ret)) in let Thk = @(intrinsic(thk)) in let Int64 = @(intrinsic(i64)) in let f : Thk (Int64 * Int64 -> Ret Int64) = { fn (a, _) => ret a } in ! f (1, 2)",
    "let Ret = @(intrinsic(ret)) in let Unit = @(intrinsic(unit)) in let u : Unit = () in let () = u in ret 1",
    "let Ret = @(intrinsic(ret)) in let Thk = @(intrinsic(thk)) in let Int64 = @(intrinsic(i64)) in let t : Thk (Thk (Ret Int64)) = { { ret 1 } } in do g <- ret t; ! ! g",
];
/// `fix` with a variable or an alias binder, recursing through either name, entered in five ways
/// (applied on the spot, applied inside a do bindee, destructed on the spot, through a thunk, partially
/// applied on the spot with the rest supplied later), at
/// recursion depths 0..2: the arguments of the first call must not reappear in the recursive ones
pub fn recursive_fix_forms() -> Vec<String> {
    let pre = "begin\n  let Ret = @(intrinsic(ret)) that\n  let Thk = @(intrinsic(thk)) that\n  let Unit = @(intrinsic(unit)) that\n  let Int64 = @(intrinsic(i64)) that\n  let VType = @(intrinsic(vtype)) that\n  def Nat : VType = data | +Z : Unit | +S : Nat end that\n  let Loop = codata | .run : Nat -> Int64 -> Ret Int64 end that\n";
    let mut out = vec![];
    for (binder, rec) in [("go", "go"), ("(go; again)", "go"), ("(go; again)", "again"), ("(again; go)", "again")] {
        for arg in ["+Z()", "+S(+Z())", "+S(+S(+Z()))"] {
            let f = format!("fix ({binder} : Thk (Nat -> Int64 -> Ret Int64)) => fn n acc => match n | +Z() => ret acc | +S(m) => ! {rec} m 5 end");
            let o = format!("fix ({binder} : Thk Loop) => comatch | .run n acc => match n | +Z() => ret acc | +S(m) => ! {rec} .run m 5 end end");
            out.push(format!("{pre}  ({f}) ({arg} : Nat) 1\nend\n"));
            out.push(format!("{pre}  do r <- ({f}) ({arg} : Nat) 1;\n  ret (r, 9)\nend\n"));
            out.push(format!("{pre}  ({o}) .run ({arg} : Nat) 1\nend\n"));
            out.push(format!("{pre}  let t = {{ {f} }} in\n  ! t ({arg} : Nat) 1\nend\n"));
            // applied to its first argument on the spot, the partial application kept in a thunk
            out.push(format!("{pre}  let t = {{ ({f}) ({arg} : Nat) }} in\n  ! t 1\nend\n"));
        }
    }
    out
}

impl Item {
    fn text(&self) -> String {
        match self {
            | Item::Core(p) => crate::print::program(&p.body, &p.root, &Cfg::default()).0,
            | Item::Poly(c) => crate::poly::program(c, false),
            | Item::File(p) => std::fs::read_to_string(p).unwrap_or_default(),
            | Item::Text(t) => t.to_string(),
        }
    }
    fn path(&self) -> Option<&std::path::Path> {
        match self {
            | Item::File(p) => Some(p.as_path()),
            | _ => None,
        }
    }
    fn stdin(&self) -> &'static [u8] {
        match self {
            | Item::Core(p) => p.stdin,
            | Item::Poly(_) | Item::File(_) | Item::Text(_) => b"",
        }
    }
    fn origin(&self) -> String {
        match self {
            | Item::Core(p) => p.origin.to_string(),
            | Item::Poly(_) => "polymorphism".into(),
            | Item::File(p) => format!("repository fixture {}", p.display()),
            | Item::Text(_) => "hand-written binder form".into(),
        }
    }
}

pub struct Lowered {
    mode: Mode,
    progs: Vec<Item>,
    chunk: usize,
    scratch: Option<Scratch>,
}

impl Lowered {
    pub fn new(mode: Mode, tier: Tier) -> Self {
        let mut progs: Vec<Item> = universe(tier).into_iter().map(Item::Core).collect();
        progs.extend(crate::poly::universe(tier).into_iter().map(Item::Poly));
        // the repository's own runnable fixtures (std-library style programs: packages, named products,
        // telescopes, effects), except the ones that must fail
        progs.extend(EXTRA.iter().map(|t| Item::Text(t)));
        progs.extend(recursive_fix_forms().into_iter().map(|t| Item::Text(Box::leak(t.into_boxed_str()))));
        for p in crate::corpus::repo_sources() {
            let s = p.display().to_string();
            if s.contains("/lib/tests/") && !s.contains("/fail/") && !s.contains("/warn/") && !s.ends_with(".zyi") {
                progs.push(Item::File(p));
            }
        }
        Lowered { mode, progs, chunk: 16, scratch: None }
    }
}

/* ------------------------- independent SPSLow re-validation ------------------------ */

struct Fv<'a> {
    arena: &'a SpsLowInnerArena,
    labels: Vec<DefId>,
    problems: Vec<String>,
    externs: Vec<String>,
}

impl<'a> Fv<'a> {
    fn pat_binders(&self, id: VPatId, out: &mut HashSet<DefId>) {
        match &self.arena.vpats[&id] {
            | ValuePattern::Hole(_) | ValuePattern::Triv(_) => {}
            | ValuePattern::Var(d) => {
                out.insert(*d);
            }
            | ValuePattern::Ctor(Ctor(_, p)) => self.pat_binders(*p, out),
            | ValuePattern::Alias(Alias(ConsN(items, tail))) => items.iter().chain([tail]).for_each(|p| self.pat_binders(*p, out)),
            | ValuePattern::VCons(VCons { items: ConsN(items, tail), layout }) => {
                if layout.arity == 0 || items.len() + 1 > layout.arity || layout.fields.len() != layout.arity {
                    // recorded by the caller through `problems` on values; patterns checked here
                }
                items.iter().chain([tail]).for_each(|p| self.pat_binders(*p, out))
            }
        }
    }
    fn layout_ok(&mut self, what: &str, items: usize, layout: &ProductLayout) {
        if layout.arity == 0 || items == 0 || items > layout.arity || layout.fields.len() != layout.arity {
            self.problems.push(format!("{what} product layout invalid: {} items, arity {}, {} field classes", items, layout.arity, layout.fields.len()));
        }
    }
    fn value(&mut self, id: ValueId) -> HashSet<DefId> {
        match self.arena.values[&id].clone() {
            | Value::Hole(_) | Value::Triv(_) | Value::Literal(_) => HashSet::new(),
            | Value::Var(d) => HashSet::from([d]),
            | Value::Block(Block { label, body }) => {
                self.labels.push(label);
                let mut fv = self.compu(body);
                fv.remove(&label);
                if !fv.is_empty() {
                    self.problems.push(format!("block {:?} captures {} variable(s) implicitly", label, fv.len()));
                }
                // a block is closed: it contributes no free variables
                HashSet::new()
            }
            | Value::ClosurePackage(ClosurePackage { environment, code }) => {
                let mut s = self.value(environment);
                s.extend(self.value(code));
                s
            }
            | Value::Ctor(Ctor(_, v)) => self.value(v),
            | Value::VCons(VCons { items: ConsN(items, tail), layout }) => {
                self.layout_ok("value", items.len() + 1, &layout);
                let mut s = HashSet::new();
                for it in items.into_iter().chain([tail]) {
                    s.extend(self.value(it));
                }
                s
            }
            | Value::Complex(Complex { operands, .. }) => {
                let mut s = HashSet::new();
                for o in operands {
                    s.extend(self.value(o));
                }
                s
            }
        }
    }
    fn stack(&mut self, id: StackId) -> HashSet<DefId> {
        match self.arena.stacks[&id].clone() {
            | Stack::Var(_) => HashSet::new(),
            | Stack::Arg(Cons(v, s)) => {
                let mut a = self.value(v);
                a.extend(self.stack(s));
                a
            }
            | Stack::Tag(Cons(_, s)) => self.stack(s),
            | Stack::ContinuationPackage(ContinuationPackage { code, residual }) => {
                let mut a = self.value(code);
                a.extend(self.stack(residual));
                a
            }
        }
    }
    fn under(&mut self, pats: &[VPatId], body: CompuId) -> HashSet<DefId> {
        let mut fv = self.compu(body);
        let mut bs = HashSet::new();
        for p in pats {
            self.pat_binders(*p, &mut bs);
            if let ValuePattern::VCons(VCons { items, layout }) = &self.arena.vpats[p] {
                let n = items.0.len() + 1;
                let layout = layout.clone();
                self.layout_ok("pattern", n, &layout);
            }
        }
        for b in bs {
            fv.remove(&b);
        }
        fv
    }
    fn compu(&mut self, id: CompuId) -> HashSet<DefId> {
        match self.arena.compus[&id].clone() {
            | Computation::Hole(SHole(s)) => self.stack(s),
            | Computation::Jump(Jump { target, stack }) => {
                let mut a = self.value(target);
                a.extend(self.stack(stack));
                a
            }
            | Computation::ProductMatch(SProductMatch { scrut, binder, body }) => {
                let mut a = self.value(scrut);
                a.extend(self.under(&[binder], body));
                a
            }
            | Computation::CoprodMatch(SCoprodMatch { scrut, arms }) => {
                let mut a = self.value(scrut);
                for Matcher { binder, tail } in arms {
                    a.extend(self.under(&[binder], tail));
                }
                a
            }
            | Computation::LetValue(LetValue { binder, bindee, body }) => {
                let mut a = self.value(bindee);
                a.extend(self.under(&[binder], body));
                a
            }
            | Computation::LetStack(LetStack { bindee, body }) => {
                let mut a = self.stack(bindee);
                if !matches!(self.arena.compus[&body], Computation::CoprodMatch(_)) {
                    self.problems.push("stack let whose body is not a coproduct match".into());
                }
                a.extend(self.compu(body));
                a
            }
            | Computation::LetArg(LetArg { binder, bindee, body }) => {
                let mut a = self.stack(bindee);
                a.extend(self.under(&[binder], body));
                a
            }
            | Computation::CoCase(SCoMatch { scrut, arms }) => {
                let mut a = self.stack(scrut);
                let mut seen = HashSet::new();
                for arm in arms {
                    if !seen.insert(arm.dtor.0.idx) {
                        self.problems.push(format!("comatch has two arms with tag {}", arm.dtor.0.idx));
                    }
                    a.extend(self.compu(arm.tail));
                }
                a
            }
            | Computation::OpenClosure(OpenClosure { package, environment, code, body }) => {
                let mut a = self.value(package);
                a.extend(self.under(&[environment, code], body));
                a
            }
            | Computation::OpenContinuation(OpenContinuation { package, code, body }) => {
                let mut a = self.stack(package);
                a.extend(self.under(&[code], body));
                a
            }
            | Computation::ExternCall(ExternCall { function, stack }) => {
                self.externs.push(function);
                self.stack(stack)
            }
        }
    }
}

/// Host names of every extern the program can call.
pub fn extern_calls(p: &SpsLowProgram) -> Vec<String> {
    let arena = p.arena();
    let mut fv = Fv { arena: &arena.inner, labels: vec![], problems: vec![], externs: vec![] };
    fv.compu(p.root());
    fv.externs
}

pub fn validate_sps_low(p: &SpsLowProgram) -> Vec<String> {
    let arena = p.arena();
    let mut fv = Fv { arena: &arena.inner, labels: vec![], problems: vec![], externs: vec![] };
    let root_fv = fv.compu(p.root());
    if !root_fv.is_empty() {
        fv.problems.push(format!("root has {} free variable(s)", root_fv.len()));
    }
    let mut seen = HashSet::new();
    for l in &fv.labels {
        if !seen.insert(*l) {
            fv.problems.push(format!("block label {:?} bound twice", l));
        }
    }
    let roles: HashMap<String, usize> = BuiltinValueRole::all().map(|r| (r.host_name(), r.arity())).collect();
    for e in &fv.externs {
        match (roles.get(e), arena.admin.builtins.get(e)) {
            | (Some(a), Some(b)) if *a == b.arity => {}
            | (None, _) => fv.problems.push(format!("extern `{e}` is not a builtin host name")),
            | (_, None) => fv.problems.push(format!("extern `{e}` missing from the program's builtin table")),
            | (Some(a), Some(b)) => fv.problems.push(format!("extern `{e}` arity {} in the table but role arity {}", b.arity, a)),
        }
    }
    fv.problems
}

/// Line-level scan of emitted assembly text: every label defined at most once.
pub fn duplicate_labels(text: &str) -> Vec<String> {
    let mut seen = HashSet::new();
    let mut dups = vec![];
    for line in text.lines() {
        let l = line.trim();
        if let Some(name) = l.strip_suffix(':') {
            if !name.is_empty() && !name.contains(' ') && !name.starts_with(';') && !name.starts_with('#') {
                if !seen.insert(name.to_string()) {
                    dups.push(name.to_string());
                }
            }
        }
    }
    dups
}

impl Check for Lowered {
    fn property(&self) -> &'static str {
        match self.mode {
            | Mode::Lowering => "C18",
            | Mode::Preservation => "C19",
        }
    }
    fn name(&self) -> String {
        match self.mode {
            | Mode::Lowering => "c18-universe".into(),
            | Mode::Preservation => "c19-universe".into(),
        }
    }
    fn len(&self) -> usize {
        self.progs.len().div_ceil(self.chunk)
    }
    fn describe(&self, i: usize) -> String {
        let p = &self.progs[i * self.chunk];
        format!("programs #{}..#{} of the universe; first ({}), stdin {:?}:\n{}", i * self.chunk, (i + 1) * self.chunk, p.origin(), String::from_utf8_lossy(p.stdin()), p.text())
    }
    fn rule(&self) -> String {
        match self.mode {
            | Mode::Lowering => format!("every accepted program of the universe, of the System-F / F-omega universe and every runnable repository fixture under lib/tests (except fail/ and warn/) ({} programs; Ret-rooted through RootLowerer, executable-rooted through BuiltinRootLowerer): stack-IR lowering, closure conversion, assembly lowering, render_sps_low, render_assembly, emit_amd64 (ELF + Mach-O), emit_llvm (4 triples) each under catch_unwind; independent re-validation in the harness: SPSLow root closed, every block's free variables within its own label, labels unique, stack lets only around coproduct matches, comatch tags unique, product layouts positive with items <= arity and one class per field, every extern in the builtin table with the role's arity; assembly program: every fall-through, jump and jump-table target, every pushed symbol and variable, every label is defined, no symbol is left undefined, jump-table tags are unique, product layouts positive with elements <= arity and one class per word; emitted AMD64 text defines no label twice; non-trivial = programs that lowered and contain >= 1 closure package and >= 1 continuation package", self.progs.len()),
            | Mode::Preservation => format!("every accepted program of the universe, of the System-F / F-omega universe and every runnable repository fixture under lib/tests that lowers ({} candidate programs) is run on the harness's SPSLow reference machine (layout-aware flat products, blocks closed over their own label, host operations = the repository's implementations) and on zydeco_dynamics::Runtime with the same stdin; output bytes and final result must agree; a stuck SPSLow state (unbound variable in a block, tag not found, layout/arity mismatch, non-package at open) is a violation; one run ending while the other is still running after 200 times as many steps is a violation too; non-trivial = programs whose both runs terminate within fuel", self.progs.len()),
        }
    }
    fn timeout(&self) -> std::time::Duration {
        std::time::Duration::from_secs(180)
    }
    fn run(&mut self, i: usize) -> CaseResult {
        let scratch = self.scratch.get_or_insert_with(|| Scratch::new("low"));
        let a = i * self.chunk;
        let b = ((i + 1) * self.chunk).min(self.progs.len());
        let mut r = CaseResult::ok("chunk").key(hash64(&format!("l{}", i)));
        let mut nontrivial = 0u64;
        for prog in &self.progs[a..b] {
            let text = prog.text();
            let path = match prog.path() {
                | Some(p) => p.to_path_buf(),
                | None => scratch.write("main.zydeco", &text),
            };
            let subject = match guarded(|| Subject::analyze(&path)) {
                | Ok(s) => s,
                | Err(_) => continue,
            };
            if !subject.verdict().accepted() {
                r = r.count("not_accepted", 1);
                continue;
            }
            r = r.count("accepted", 1);
            if matches!(self.mode, Mode::Preservation) {
                // C19 needs only the first-order SPS program (assembly lowering is C18's business)
                let sps_low = match subject.lower_to_sps_low() {
                    | Ok((_, _, _, s)) => s,
                    | Err(_) => {
                        r = r.count("not_lowered", 1);
                        continue;
                    }
                };
                r = r.count("lowered", 1);
                // The one answer of the environment that is not an input of the case is the host's random
                // source (`random_int`, rand's thread-local generator). The harness owns it: both executions
                // start from the same generator state (seed.rs), so they are given the same numbers.
                let rng = crate::common::seed();
                let mut owned = crate::seed::own_thread_rng(rng);
                let run = subject.run(prog.stdin(), &[], SUBJECT_FUEL);
                // did this execution consult the random source? (observed on the generator when it is
                // owned; otherwise every program that can reach the extern is assumed to)
                let draws = if owned { crate::seed::thread_rng_used(rng) } else { extern_calls(&sps_low).contains(&BuiltinValueRole::RandomInt.host_name()) };
                if draws && owned {
                    // proof of ownership: the same execution replayed from the same generator state must be
                    // observed identically before any disagreement with the other side is believed
                    crate::seed::own_thread_rng(rng);
                    let again = subject.run(prog.stdin(), &[], SUBJECT_FUEL);
                    owned = format!("{:?}", again.end) == format!("{:?}", run.end) && again.output == run.output;
                }
                crate::seed::own_thread_rng(rng);
                let m = e2::Machine::new(&sps_low, 400_000).run(prog.stdin(), &[]);
                r = r.count("machine_steps", m.steps);
                if draws {
                    r = r.count(if owned { "draws_random_owned" } else { "draws_random_not_owned" }, 1);
                }
                let agree = match (&run.end, &m.end) {
                    | (_, e2::MEnd::Unsupported(_)) => {
                        r = r.count("machine_unsupported", 1);
                        true
                    }
                    // the program consults a random source the harness could not pin (interposer not
                    // loaded): the two runs answer to different environments and are not comparable
                    | _ if draws && !owned => true,
                    | (RunEnd::OutOfFuel, _) | (_, e2::MEnd::OutOfFuel) => {
                        let n = run.output.len().min(m.output.len());
                        // one side ended and the other is still running after more than 200 times as many
                        // steps: the compiled program (or the interpreter) loops where the other terminates
                        let interpreter_ended_early = !matches!(run.end, RunEnd::OutOfFuel) && matches!(m.end, e2::MEnd::OutOfFuel) && run.steps.saturating_mul(200) < m.steps;
                        let machine_ended_early = matches!(run.end, RunEnd::OutOfFuel) && !matches!(m.end, e2::MEnd::OutOfFuel) && m.steps.saturating_mul(200) < run.steps;
                        run.output[..n] == m.output[..n] && !interpreter_ended_early && !machine_ended_early
                    }
                    | (RunEnd::Ret(a), e2::MEnd::Ret(b)) => {
                        nontrivial += 1;
                        a == b && run.output == m.output
                    }
                    | (RunEnd::Exit(a), e2::MEnd::Exit(b)) => {
                        nontrivial += 1;
                        a == b && run.output == m.output
                    }
                    | (RunEnd::Panic(p), e2::MEnd::Trap(t)) => {
                        nontrivial += 1;
                        p.msg == *t && run.output == m.output
                    }
                    | _ => false,
                };
                if !agree {
                    let fp = match &m.end {
                        | e2::MEnd::Stuck(s) => format!("SPSLow program gets stuck: {}", s.split(':').next().unwrap_or(s).chars().take(70).collect::<String>()),
                        | _ => format!("SPSLow behaviour differs from the interpreter (origin {})", prog.origin()),
                    };
                    r = r.violation(fp, format!("interpreter: {:?} output {:?}\nSPSLow machine: {:?} output {:?}\nstdin {:?}\n{}", run.end, String::from_utf8_lossy(&run.output), m.end, String::from_utf8_lossy(&m.output), String::from_utf8_lossy(prog.stdin()), text));
                }
                continue;
            }
            let backend = match subject.lower() {
                | Ok(b) => b,
                | Err(LowerFail::NoPath(_)) => {
                    r = r.count("no_lowering_path", 1);
                    continue;
                }
                | Err(LowerFail::Error(e)) => {
                    r = r.count("lowering_error", 1);
                    if matches!(self.mode, Mode::Lowering) {
                        r = r.violation("lowering returned an error for an accepted program", format!("{e}\n{text}"));
                    }
                    continue;
                }
                | Err(LowerFail::Panic(stage, p)) => {
                    r = r.count("lowering_panic", 1);
                    if matches!(self.mode, Mode::Lowering) {
                        r = r.violation(
                            format!("{} panicked at {}: {}", stage, crate::front::short_loc(&p.loc), crate::front::short_msg(&p.msg)),
                            format!("{:?}\n{}", p, text),
                        );
                    }
                    continue;
                }
            };
            r = r.count("lowered", 1);
            match self.mode {
                | Mode::Lowering => {
                    for pr in crate::c18asm::validate_assembly(&backend.assembly).iter().take(2) {
                        r = r.violation(format!("assembly invariant violated: {}", pr.split(':').last().unwrap_or(pr).trim().chars().take(70).collect::<String>()), format!("{pr}\n{text}"));
                    }
                    let problems = validate_sps_low(&backend.sps_low);
                    for pr in problems.iter().take(2) {
                        r = r.violation(format!("SPSLow invariant violated: {}", pr.split(':').next().unwrap_or(pr).chars().take(60).collect::<String>()), format!("{pr}\n{text}"));
                    }
                    let arena = &backend.sps_low.arena().inner;
                    let has_closure = arena.values.iter().any(|(_, v)| matches!(v, Value::ClosurePackage(_)));
                    let has_kont = arena.stacks.iter().any(|(_, s)| matches!(s, Stack::ContinuationPackage(_)));
                    if has_closure && has_kont {
                        nontrivial += 1;
                    }
                    let renders = guarded(|| {
                        use zydeco_cli::{TargetArchitecture as A, TargetOs as O};
                        let mut out = vec![];
                        let _ = backend.render_sps_low();
                        let _ = backend.render_assembly();
                        for os in [O::Linux, O::Macos] {
                            out.push(backend.emit_amd64(os));
                        }
                        let mut llvm_unsupported = 0;
                        for arch in [A::X86_64, A::Aarch64] {
                            for os in [O::Linux, O::Macos] {
                                if backend.emit_llvm(arch, os).is_err() {
                                    llvm_unsupported += 1;
                                }
                            }
                        }
                        (out, llvm_unsupported)
                    });
                    match renders {
                        | Ok((amd64, unsup)) => {
                            if unsup > 0 {
                                r = r.count("llvm_unsupported_local", 1);
                            }
                            for t in &amd64 {
                                let d = duplicate_labels(t);
                                if !d.is_empty() {
                                    r = r.violation("emitted AMD64 text defines a label twice", format!("labels {:?}\n{}", d, text));
                                }
                            }
                        }
                        | Err(p) => {
                            r = r.violation(format!("rendering/emission panicked at {}: {}", crate::front::short_loc(&p.loc), crate::front::short_msg(&p.msg)), format!("{:?}\n{}", p, text));
                        }
                    }
                }
                | Mode::Preservation => unreachable!(),
            }
        }
        r.nontrivial = nontrivial > 0;
        r.count("nontrivial_programs", nontrivial)
    }
}
