//! Schemas: hand-written program skeletons with typed holes, instantiated with every filler below a
//! size bound. They reach recursion depths the plain enumeration cannot.
use crate::common::Tier;
use crate::genr::*;
use crate::lang::*;
use crate::uni::Prog;

fn nat_lit(k: usize) -> V {
    let mut v = V::Ctor(NAT, 0, Box::new(V::Unit));
    for _ in 0..k {
        v = V::Ctor(NAT, 1, Box::new(v));
    }
    v
}
fn list_lit(items: &[i64]) -> V {
    let mut v = V::Ctor(LIST, 0, Box::new(V::Unit));
    for i in items.iter().rev() {
        v = V::Ctor(LIST, 1, Box::new(V::Tuple(vec![V::Int(*i), v])));
    }
    v
}

pub fn instances(tier: Tier) -> Vec<Prog> {
    let mut out = vec![];
    let (fs, fb) = if tier == Tier::Thorough { (4usize, 5usize) } else { (3, 4) };
    let fill = fb;
    let base = Menu { vts: vec![VT::Int], datas: vec![], codatas: vec![], ints: vec![1, 5], fix: false, exec: true, redex: false, vars_per_type: 3, alias_patterns: false, projection_patterns: false, irrefutable_matches: false, default_arms: false, nested_patterns: false };
    let g = Gen::new(base.clone());

    // S1: structural recursion over Nat using a parameter after the recursive call:
    //   (fix f => fn n acc => match n | Z => BASE | S m => do r <- ! f m acc'; STEP) <k> 10
    // variables: f=0 n=1 acc=2 m=3 r=4
    {
        let fty = func(VT::Data(NAT), func(VT::Int, ret(VT::Int)));
        let ctx_base: Ctx = vec![(0, thk(fty.clone())), (1, VT::Data(NAT)), (2, VT::Int)];
        let mut ctx_step = ctx_base.clone();
        ctx_step.push((3, VT::Data(NAT)));
        ctx_step.push((4, VT::Int));
        let mut bases = vec![];
        let mut steps = vec![];
        for n in 2..=fs {
            bases.extend(g.comps(&ctx_base, &ret(VT::Int), n));
        }
        for n in 2..=fb {
            steps.extend(g.comps(&ctx_step, &ret(VT::Int), n));
        }
        for k in [0usize, 2, 3] {
            for b in bases.iter().take(if k == 2 { usize::MAX } else { 4 }) {
                for s in &steps {
                    let rec = C::App(Box::new(C::App(Box::new(C::Force(V::Var(0))), V::Var(3))), V::Var(2));
                    let body = C::Fix(
                        0,
                        fty.clone(),
                        Box::new(C::Fn(
                            Pat::Var(1, VT::Data(NAT)),
                            Box::new(C::Fn(
                                Pat::Var(2, VT::Int),
                                Box::new(C::Match(
                                    V::Var(1),
                                    NAT,
                                    vec![
                                        (Pat::Ctor(NAT, 0, Box::new(Pat::Unit)), b.clone()),
                                        (Pat::Ctor(NAT, 1, Box::new(Pat::Var(3, VT::Data(NAT)))), C::Do(Pat::Var(4, VT::Int), Box::new(rec.clone()), Box::new(s.clone()))),
                                    ],
                                )),
                            )),
                        )),
                    );
                    let prog = C::App(Box::new(C::App(Box::new(body), nat_lit(k))), V::Int(10));
                    out.push(Prog { origin: "schema-natrec".into(), root: ret(VT::Int), body: prog, stdin: b"" });
                }
            }
        }
    }

    // S2: fold over a list with an accumulating closure captured under later shadowing:
    //   let k : Thk(Int -> Ret Int) = { fn a => BODY(a, outer) } in fix go => fn l => match l | Nil => ret 0 | Cons(h, t) => do r <- ! go t; do s <- ! k h; COMBINE
    // variables: outer=0 k=1 go=2 l=3 h=4 t=5 r=6 s=7 ; a=2 inside k's body
    {
        let kty = func(VT::Int, ret(VT::Int));
        let goty = func(VT::Data(LIST), ret(VT::Int));
        let ctx_k: Ctx = vec![(0, VT::Int), (1, VT::Int)]; // outer=0, a=1 (printed inside the thunk, k not yet bound)
        let ctx_comb: Ctx = vec![(0, VT::Int), (1, thk(kty.clone())), (2, thk(goty.clone())), (3, VT::Data(LIST)), (4, VT::Int), (5, VT::Data(LIST)), (6, VT::Int), (7, VT::Int)];
        let mut kbodies = vec![];
        let mut combs = vec![];
        for n in 2..=fs {
            kbodies.extend(g.comps(&ctx_k, &ret(VT::Int), n));
        }
        for n in 2..=fb {
            combs.extend(g.comps(&ctx_comb, &ret(VT::Int), n));
        }
        for kb in &kbodies {
            for cb in combs.iter() {
                let kthunk = V::Thunk(Box::new(C::Fn(Pat::Var(1, VT::Int), Box::new(kb.clone()))), kty.clone());
                let go = C::Fix(
                    2,
                    goty.clone(),
                    Box::new(C::Fn(
                        Pat::Var(3, VT::Data(LIST)),
                        Box::new(C::Match(
                            V::Var(3),
                            LIST,
                            vec![
                                (Pat::Ctor(LIST, 0, Box::new(Pat::Unit)), C::Ret(V::Int(0))),
                                (
                                    Pat::Ctor(LIST, 1, Box::new(Pat::Tuple(vec![Pat::Var(4, VT::Int), Pat::Var(5, VT::Data(LIST))]))),
                                    C::Do(
                                        Pat::Var(6, VT::Int),
                                        Box::new(C::App(Box::new(C::Force(V::Var(2))), V::Var(5))),
                                        Box::new(C::Do(Pat::Var(7, VT::Int), Box::new(C::App(Box::new(C::Force(V::Var(1))), V::Var(4))), Box::new(cb.clone()))),
                                    ),
                                ),
                            ],
                        )),
                    )),
                );
                let prog = C::Let(
                    Pat::Var(0, VT::Int),
                    V::Int(100),
                    VT::Int,
                    Box::new(C::Let(Pat::Var(1, thk(kty.clone())), kthunk, thk(kty.clone()), Box::new(C::App(Box::new(go), list_lit(&[3, 4, 6]))))),
                );
                out.push(Prog { origin: "schema-listfold".into(), root: ret(VT::Int), body: prog, stdin: b"" });
            }
        }
    }

    // S3: codata object with state captured in closures, all destructors observed, output order visible:
    //   let o : Thk Obj = { comatch .get => G | .app => fn a => A | .flag => ret +T() } in
    //   do x <- ! o .get; do y <- ! o .app x; write_int x; write_int y; exit 0
    {
        let ctx_o: Ctx = vec![(0, VT::Int)];
        let ctx_a: Ctx = vec![(0, VT::Int), (1, VT::Int)];
        let mut gets = vec![];
        let mut apps = vec![];
        for n in 2..=fs {
            gets.extend(g.comps(&ctx_o, &ret(VT::Int), n));
        }
        for n in 2..=fb {
            apps.extend(g.comps(&ctx_a, &ret(VT::Int), n));
        }
        for (d, order) in [(OBJ, [0usize, 1, 2]), (OBJ_REV, [2, 1, 0])] {
            for gt in &gets {
                for ap in &apps {
                    // arms in the declaration order of `d`
                    let by_name = |name: &str| -> C {
                        match name {
                            | ".get" => gt.clone(),
                            | ".app" => C::Fn(Pat::Var(1, VT::Int), Box::new(ap.clone())),
                            | _ => C::Ret(V::Ctor(BOOL, 0, Box::new(V::Unit))),
                        }
                    };
                    let decl = &codata_decls()[d];
                    let arms: Vec<C> = decl.dtors.iter().map(|(n, _)| by_name(n)).collect();
                    let get_k = order[0];
                    let app_k = order[1];
                    let o = V::Thunk(Box::new(C::Comatch(d, arms)), CT::Codata(d));
                    let body = C::Let(
                        Pat::Var(0, VT::Int),
                        V::Int(40),
                        VT::Int,
                        Box::new(C::Let(
                            Pat::Var(1, thk(CT::Codata(d))),
                            o,
                            thk(CT::Codata(d)),
                            Box::new(C::Do(
                                Pat::Var(2, VT::Int),
                                Box::new(C::Dtor(Box::new(C::Force(V::Var(1))), d, get_k)),
                                Box::new(C::Do(
                                    Pat::Var(3, VT::Int),
                                    Box::new(C::App(Box::new(C::Dtor(Box::new(C::Force(V::Var(1))), d, app_k)), V::Var(2))),
                                    Box::new(C::WriteInt(V::Var(2), Box::new(C::WriteLine(V::Str("|".into()), Box::new(C::WriteInt(V::Var(3), Box::new(C::Exit(V::Int(0))))))))),
                                )),
                            )),
                        )),
                    );
                    out.push(Prog { origin: "schema-object".into(), root: CT::Os, body, stdin: b"" });
                }
            }
        }
    }

    // S4: evaluation order and stdin: read two lines, echo in order, then a division trap guarded by a hole
    {
        let ctx: Ctx = vec![(0, VT::Str), (1, VT::Str), (2, VT::Int)];
        let mut tails = vec![];
        for n in 2..=(fill + 1) {
            tails.extend(g.comps(&ctx, &CT::Os, n));
        }
        for (si, stdin) in [&b""[..], b"7\nx\n", b"only\r\n", b"a\n\xff\xfe\n"].into_iter().enumerate() {
            for t in tails.iter().take(if si == 1 { usize::MAX } else { 200 }) {
                let body = C::ReadLine(
                    0,
                    Box::new(C::ReadLine(
                        1,
                        Box::new(C::WriteLine(
                            V::Var(1),
                            Box::new(C::WriteLine(V::Var(0), Box::new(C::Do(Pat::Var(2, VT::Int), Box::new(C::Arith(Op::Div, V::Int(10), V::Int(if si == 2 { 0 } else { 3 }))), Box::new(t.clone()))))),
                        )),
                    )),
                );
                out.push(Prog { origin: "schema-stdin".into(), root: CT::Os, body, stdin });
            }
        }
    }

    // S5: products whose last named component is a product; projections at every position; aliases
    {
        let inner = pair();
        let rec = rec_nested();
        let rec3 = VT::Prod(vec![named("a", VT::Int), VT::Int, named("c", inner.clone())]);
        let recrec = VT::Prod(vec![named("p", VT::Int), named("q", rec.clone())]);
        let g2 = Gen::new(Menu { vts: vec![VT::Int, inner.clone()], alias_patterns: true, exec: false, ..base.clone() });
        for (ty, lit) in [
            (rec.clone(), V::Tuple(vec![V::Named("a".into(), Box::new(V::Int(1))), V::Named("b".into(), Box::new(V::Tuple(vec![V::Int(2), V::Int(3)])))])),
            (rec3.clone(), V::Tuple(vec![V::Named("a".into(), Box::new(V::Int(1))), V::Int(9), V::Named("c".into(), Box::new(V::Tuple(vec![V::Int(2), V::Int(3)])))])),
            (
                recrec.clone(),
                V::Tuple(vec![
                    V::Named("p".into(), Box::new(V::Int(5))),
                    V::Named("q".into(), Box::new(V::Tuple(vec![V::Named("a".into(), Box::new(V::Int(1))), V::Named("b".into(), Box::new(V::Tuple(vec![V::Int(2), V::Int(3)])))]))),
                ]),
            ),
        ] {
            let ctx: Ctx = vec![(0, ty.clone())];
            for root in [ret(VT::Int), ret(inner.clone())] {
                for n in 2..=(fill + 3) {
                    for b in g2.comps(&ctx, &root, n) {
                        let body = C::Let(Pat::Var(0, ty.clone()), lit.clone(), ty.clone(), Box::new(b));
                        out.push(Prog { origin: "schema-records".into(), root: root.clone(), body, stdin: b"" });
                    }
                }
            }
        }
    }
    // S6: structurally equal data/codata types with permuted arms (type equality is by name and
    // order-insensitive, so a value of one may flow where the other is expected)
    {
        for (vd, md) in [(BOOL, BOOL_REV), (BOOL_REV, BOOL), (BOOL, BOOL)] {
            for ctor_name in ["+T", "+F"] {
                let k_in = |d: usize, name: &str| data_decls()[d].ctors.iter().position(|(n, _)| *n == name).unwrap();
                let v = V::Ctor(vd, k_in(vd, ctor_name), Box::new(V::Unit));
                // match at `md`, arms written in md's declaration order and in the opposite order
                for flip in [false, true] {
                    let mut arms: Vec<(Pat, C)> = data_decls()[md]
                        .ctors
                        .iter()
                        .enumerate()
                        .map(|(k, (n, _))| (Pat::Ctor(md, k, Box::new(Pat::Unit)), C::Ret(V::Int(if *n == "+T" { 1 } else { 2 }))))
                        .collect();
                    if flip {
                        arms.reverse();
                    }
                    let f = V::Thunk(Box::new(C::Fn(Pat::Var(1, VT::Data(md)), Box::new(C::Match(V::Var(1), md, arms)))), func(VT::Data(md), ret(VT::Int)));
                    let body = C::Let(
                        Pat::Var(0, VT::Data(vd)),
                        v.clone(),
                        VT::Data(vd),
                        Box::new(C::Let(Pat::Var(1, thk(func(VT::Data(md), ret(VT::Int)))), f, thk(func(VT::Data(md), ret(VT::Int))), Box::new(C::App(Box::new(C::Force(V::Var(1))), V::Var(0))))),
                    );
                    out.push(Prog { origin: "schema-permuted-data".into(), root: ret(VT::Int), body, stdin: b"" });
                }
            }
        }
        for (od, ud) in [(OBJ, OBJ_REV), (OBJ_REV, OBJ), (OBJ, OBJ)] {
            for dtor in [".get", ".flag", ".app"] {
                let arms: Vec<C> = codata_decls()[od]
                    .dtors
                    .iter()
                    .map(|(n, _)| match *n {
                        | ".get" => C::Ret(V::Int(11)),
                        | ".app" => C::Fn(Pat::Var(2, VT::Int), Box::new(C::Ret(V::Int(22)))),
                        | _ => C::Ret(V::Ctor(BOOL, 1, Box::new(V::Unit))),
                    })
                    .collect();
                let o = V::Thunk(Box::new(C::Comatch(od, arms)), CT::Codata(od));
                let k = codata_decls()[ud].dtors.iter().position(|(n, _)| *n == dtor).unwrap();
                let observe = match dtor {
                    | ".app" => C::App(Box::new(C::Dtor(Box::new(C::Force(V::Var(1))), ud, k)), V::Int(5)),
                    | ".flag" => C::Do(
                        Pat::Var(2, VT::Data(BOOL)),
                        Box::new(C::Dtor(Box::new(C::Force(V::Var(1))), ud, k)),
                        Box::new(C::Match(V::Var(2), BOOL, vec![(Pat::Ctor(BOOL, 0, Box::new(Pat::Unit)), C::Ret(V::Int(31))), (Pat::Ctor(BOOL, 1, Box::new(Pat::Unit)), C::Ret(V::Int(32)))])),
                    ),
                    | _ => C::Dtor(Box::new(C::Force(V::Var(1))), ud, k),
                };
                let g = V::Thunk(Box::new(C::Fn(Pat::Var(1, thk(CT::Codata(ud))), Box::new(observe))), func(thk(CT::Codata(ud)), ret(VT::Int)));
                let gty = thk(func(thk(CT::Codata(ud)), ret(VT::Int)));
                let body = C::Let(
                    Pat::Var(0, thk(CT::Codata(od))),
                    o,
                    thk(CT::Codata(od)),
                    Box::new(C::Let(Pat::Var(1, gty.clone()), g, gty, Box::new(C::App(Box::new(C::Force(V::Var(1))), V::Var(0))))),
                );
                out.push(Prog { origin: "schema-permuted-codata".into(), root: ret(VT::Int), body, stdin: b"" });
            }
        }
    }
    // S7: two codata types sharing a destructor name at different positions, both observed
    {
        let obj = V::Thunk(
            Box::new(C::Comatch(OBJ, vec![C::Ret(V::Int(11)), C::Fn(Pat::Var(2, VT::Int), Box::new(C::Ret(V::Int(22)))), C::Ret(V::Ctor(BOOL, 0, Box::new(V::Unit)))])),
            CT::Codata(OBJ),
        );
        let cell = V::Thunk(Box::new(C::Comatch(CELL, vec![C::Ret(V::Int(5)), C::Ret(V::Int(6)), C::Ret(V::Int(7))])), CT::Codata(CELL));
        // observation sequences: (which object, destructor index)
        let obs_sets: Vec<Vec<(usize, usize)>> = vec![
            vec![(0, 0), (1, 0), (1, 1), (1, 2)],
            vec![(1, 0), (1, 2), (0, 0), (0, 1)],
            vec![(1, 2), (0, 0), (1, 0)],
            vec![(0, 1), (1, 1), (0, 0), (1, 2), (1, 0)],
        ];
        for first_obj in [true, false] {
            for obs in &obs_sets {
                // variables: 0 = first bound object, 1 = second; results from 10..
                let (ta, va, tb, vb) = if first_obj { (CT::Codata(OBJ), obj.clone(), CT::Codata(CELL), cell.clone()) } else { (CT::Codata(CELL), cell.clone(), CT::Codata(OBJ), obj.clone()) };
                let var_of = |which: usize| -> Var {
                    // which: 0 = Obj, 1 = Cell
                    if (which == 0) == first_obj { 0 } else { 1 }
                };
                let mut body: C = C::Ret(V::Tuple((0..obs.len()).map(|k| V::Var(10 + k as Var)).chain([V::Int(0)]).collect()));
                for (k, (which, d)) in obs.iter().enumerate().rev() {
                    let decl = if *which == 0 { OBJ } else { CELL };
                    let mut call = C::Dtor(Box::new(C::Force(V::Var(var_of(*which)))), decl, *d);
                    if decl == OBJ && *d == 1 {
                        call = C::App(Box::new(call), V::Int(3));
                    }
                    if decl == OBJ && *d == 2 {
                        continue;
                    }
                    body = C::Do(Pat::Var(10 + k as Var, VT::Int), Box::new(call), Box::new(body));
                }
                let prog = C::Let(Pat::Var(0, thk(ta.clone())), va, thk(ta), Box::new(C::Let(Pat::Var(1, thk(tb.clone())), vb, thk(tb), Box::new(body))));
                let root = ret(VT::Prod(std::iter::repeat(VT::Int).take(obs.len() + 1).collect()));
                out.push(Prog { origin: "schema-shared-destructor".into(), root, body: prog, stdin: b"" });
            }
        }
    }
    out
}
