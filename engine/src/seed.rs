//! E3 — hash-seed ownership. Workers run under LD_PRELOAD=libzyv_getrandom.so; `with_seed(k, f)`
//! resets the interposer's stream and runs `f` on a fresh OS thread (std draws its SipHash keys once
//! per thread), so every HashMap created inside `f` has an iteration order determined by `k`.
use std::sync::OnceLock;

type SetSeed = unsafe extern "C" fn(u64);

fn setter() -> Option<SetSeed> {
    static S: OnceLock<Option<usize>> = OnceLock::new();
    let addr = *S.get_or_init(|| unsafe {
        let p = libc::dlsym(libc::RTLD_DEFAULT, c"zyv_set_hash_seed".as_ptr());
        if p.is_null() { None } else { Some(p as usize) }
    });
    addr.map(|a| unsafe { std::mem::transmute::<usize, SetSeed>(a) })
}

pub fn interposer_active() -> bool {
    setter().is_some()
}

pub fn interposer_path() -> std::path::PathBuf {
    crate::common::verif_root().join("build/libzyv_getrandom.so")
}

/// Run `f` on a fresh thread whose hash keys derive from seed `k`. Panics propagate as Err.
pub fn with_seed<T: Send + 'static>(k: u64, f: impl FnOnce() -> T + Send + 'static) -> Result<T, String> {
    if let Some(set) = setter() {
        unsafe { set(k) };
    }
    let h = std::thread::Builder::new().stack_size(256 << 20).spawn(f).expect("spawn seeded thread");
    h.join().map_err(|e| crate::subject::payload_str(e.as_ref()))
}

/// Own the host's random source. The repository's `random_int` draws from `rand`'s thread-local
/// generator, which seeds itself through the libc `getrandom` symbol (getrandom's Linux backend
/// looks it up with dlsym, so it resolves to the interposer). Resetting the interposer's stream to
/// `k` and reseeding the calling thread's generator makes the sequence of numbers the program
/// draws on this thread a function of `k`: two executions that are each preceded by
/// `own_thread_rng(k)` receive the same answers from the environment. Returns false when the
/// interposer is not loaded (the generator then reseeds from the kernel and nothing is owned).
pub fn own_thread_rng(k: u64) -> bool {
    let Some(set) = setter() else { return false };
    unsafe { set(k) };
    rand::rng().reseed().is_ok()
}

/// True when something on the calling thread has drawn from the generator since
/// `own_thread_rng(k)`: the next number differs from the first number of the stream that `k`
/// determines. (Leaves the generator used; callers reset it before the next execution.)
pub fn thread_rng_used(k: u64) -> bool {
    use rand::RngExt;
    let next: u64 = rand::rng().random();
    own_thread_rng(k);
    let first: u64 = rand::rng().random();
    next != first
}

/// Iteration order of a small probe set under the current thread's keys (to count distinct orders).
pub fn probe_order() -> u64 {
    let s: std::collections::HashSet<u32> = (0..6).collect();
    s.iter().fold(0u64, |acc, x| acc * 8 + *x as u64)
}
