//! C08 language level: every dependency shape on <= n `that` contributions over a menu of node
//! kinds, printed in every permutation (parameters keep their relative order).
use crate::common::*;
use crate::subject::*;

#[derive(Clone, Copy, Debug, PartialEq, Eq, Hash)]
pub enum Kind {
    /// `let T = <type>`
    Alias,
    /// `def S : VType = data | +C : <type> end`
    Sealed,
    /// `let x : T = v`
    ValAnnRhs,
    /// `let (x : T) = v`
    ValAnnPat,
    /// `def x : T = v`
    ValDef,
    /// `def f : Thk (T -> Ret T) = { fn (a : T) => ret <v> }`
    Func,
    /// `param (p : T)`
    Param,
}
const KINDS: [Kind; 7] = [Kind::Alias, Kind::Sealed, Kind::ValAnnRhs, Kind::ValAnnPat, Kind::ValDef, Kind::Func, Kind::Param];

impl Kind {
    fn is_type(self) -> bool {
        matches!(self, Kind::Alias | Kind::Sealed)
    }
    /// an Int64-valued name other values may mention
    fn is_value(self) -> bool {
        matches!(self, Kind::ValAnnRhs | Kind::ValAnnPat | Kind::ValDef | Kind::Param)
    }
}

#[derive(Clone, Debug, PartialEq, Eq, Hash)]
pub struct Shape {
    pub kinds: Vec<Kind>,
    /// type reference of node i (index of a type node), or None = Int64 / Unit
    pub tref: Vec<Option<usize>>,
    /// value reference of node i (index of a value node), or None = literal
    pub vref: Vec<Option<usize>>,
}

impl Shape {
    pub fn name(&self, i: usize) -> String {
        match self.kinds[i] {
            | Kind::Alias => format!("T{i}"),
            | Kind::Sealed => format!("S{i}"),
            | Kind::Func => format!("f{i}"),
            | Kind::Param => format!("p{i}"),
            | _ => format!("x{i}"),
        }
    }
    /// does alias node i (transitively) denote Int64?  None = goes through a cycle / a sealed type
    fn alias_is_int(&self, i: usize, seen: &mut Vec<usize>) -> Option<bool> {
        if seen.contains(&i) {
            return None;
        }
        seen.push(i);
        match self.kinds[i] {
            | Kind::Alias => match self.tref[i] {
                | None => Some(true),
                | Some(j) => self.alias_is_int(j, seen),
            },
            | Kind::Sealed => Some(false),
            | _ => None,
        }
    }
    fn type_text(&self, t: Option<usize>, default: &str) -> String {
        match t {
            | Some(j) => self.name(j),
            | None => default.to_string(),
        }
    }
    pub fn contribution(&self, i: usize) -> String {
        let n = self.name(i);
        let v = match self.vref[i] {
            | Some(j) => self.name(j),
            | None => format!("{}", 7 + i),
        };
        match self.kinds[i] {
            | Kind::Alias => format!("let {} = {}", n, self.type_text(self.tref[i], "Int64")),
            | Kind::Sealed => format!("def {} : VType = data | +C{} : {} | +E{} : Unit end", n, i, self.type_text(self.tref[i], "Unit"), i),
            | Kind::ValAnnRhs => format!("let {} : {} = {}", n, self.type_text(self.tref[i], "Int64"), v),
            | Kind::ValAnnPat => format!("let ({} : {}) = {}", n, self.type_text(self.tref[i], "Int64"), v),
            | Kind::ValDef => format!("def {} : {} = {}", n, self.type_text(self.tref[i], "Int64"), v),
            | Kind::Func => {
                let t = self.type_text(self.tref[i], "Int64");
                let body = match self.vref[i] {
                    | Some(j) => self.name(j),
                    | None => "a".to_string(),
                };
                format!("def {} : Thk ({} -> Ret {}) = {{ fn (a : {}) => ret {} }}", n, t, t, t, body)
            }
            | Kind::Param => format!("param ({} : {})", n, self.type_text(self.tref[i], "Int64")),
        }
    }
    /// dependency edges i -> j (i refers to j)
    pub fn edges(&self) -> Vec<(usize, usize)> {
        let mut e = vec![];
        for i in 0..self.kinds.len() {
            if let Some(j) = self.tref[i] {
                e.push((i, j));
            }
            if let Some(j) = self.vref[i] {
                e.push((i, j));
            }
        }
        e
    }
    fn reach(&self) -> Vec<Vec<bool>> {
        let n = self.kinds.len();
        let mut r = vec![vec![false; n]; n];
        for (i, j) in self.edges() {
            r[i][j] = true;
        }
        for k in 0..n {
            for i in 0..n {
                for j in 0..n {
                    if r[i][k] && r[k][j] {
                        r[i][j] = true;
                    }
                }
            }
        }
        r
    }
    /// nodes on a cycle
    pub fn cyclic_nodes(&self) -> Vec<usize> {
        let r = self.reach();
        (0..self.kinds.len()).filter(|i| r[*i][*i]).collect()
    }
    /// well-typed by construction? every type used for a value is an Int64 alias; a function whose
    /// body returns another value must be at an Int64 type too.
    pub fn well_typed(&self) -> bool {
        for i in 0..self.kinds.len() {
            match self.kinds[i] {
                | Kind::ValAnnRhs | Kind::ValAnnPat | Kind::ValDef | Kind::Param => {
                    if let Some(t) = self.tref[i] {
                        if self.alias_is_int(t, &mut vec![]) != Some(true) {
                            return false;
                        }
                    }
                }
                | Kind::Func => {
                    if self.vref[i].is_some() {
                        if let Some(t) = self.tref[i] {
                            if self.alias_is_int(t, &mut vec![]) != Some(true) {
                                return false;
                            }
                        }
                    }
                }
                | Kind::Alias | Kind::Sealed => {}
            }
        }
        true
    }
    /// the same block with a type error injected into every contribution (C16: which error is
    /// reported first must not depend on hash seeds)
    pub fn program_with_errors(&self, order: &[usize]) -> String {
        let mut s = String::from("begin\n  let Ret = @(intrinsic(ret)) that\n  let Int64 = @(intrinsic(i64)) that\n  let Thk = @(intrinsic(thk)) that\n  let VType = @(intrinsic(vtype)) that\n  let Unit = @(intrinsic(unit)) that\n");
        for &i in order {
            let c = self.contribution(i);
            let bad = match self.kinds[i] {
                | Kind::Sealed => c.replace(" end", &format!(" | +Bad{} : Ret Unit end", i)),
                | Kind::Alias => c.clone(),
                | Kind::Func => c.replace("=> ret ", "=> ret \"s\" ").replace("ret \"s\" a", "ret \"s\"").replace(&format!("ret \"s\" {}", self.vref[i].map(|j| self.name(j)).unwrap_or_default()), "ret \"s\""),
                | Kind::Param => c.clone(),
                | _ => {
                    // value definitions: a string where an Int64 is expected
                    let eq = c.rfind('=').unwrap();
                    format!("{}= \"s{}\"", &c[..eq], i)
                }
            };
            s.push_str("  ");
            s.push_str(&bad);
            s.push_str(" that\n");
        }
        s.push_str("  ret 0\nend\n");
        s
    }

    pub fn program(&self, order: &[usize]) -> String {
        let mut s = String::from("(begin\n  let Ret = @(intrinsic(ret)) that\n  let Int64 = @(intrinsic(i64)) that\n  let Thk = @(intrinsic(thk)) that\n  let VType = @(intrinsic(vtype)) that\n  let Unit = @(intrinsic(unit)) that\n");
        for &i in order {
            s.push_str("  ");
            s.push_str(&self.contribution(i));
            s.push_str(" that\n");
        }
        let observed: Vec<String> = (0..self.kinds.len()).filter(|i| self.kinds[*i].is_value()).map(|i| self.name(i)).collect();
        s.push_str(&format!("  ret ({})\nend)", observed.iter().chain([&"0".to_string()]).cloned().collect::<Vec<_>>().join(", ")));
        for i in 0..self.kinds.len() {
            if self.kinds[i] == Kind::Param {
                s.push_str(&format!(" {}", 100 + i));
            }
        }
        s.push('\n');
        s
    }
}

pub fn permutations(n: usize) -> Vec<Vec<usize>> {
    if n == 0 {
        return vec![vec![]];
    }
    let mut out = vec![];
    for p in permutations(n - 1) {
        for pos in 0..=p.len() {
            let mut q = p.clone();
            q.insert(pos, n - 1);
            out.push(q);
        }
    }
    out
}

pub fn shapes(n: usize) -> Vec<Shape> {
    let mut out = vec![];
    let mut kinds = vec![Kind::Alias; n];
    fn rec(pos: usize, n: usize, kinds: &mut Vec<Kind>, out: &mut Vec<Shape>) {
        if pos == n {
            // choose references
            let types: Vec<usize> = (0..n).filter(|i| kinds[*i].is_type()).collect();
            let values: Vec<usize> = (0..n).filter(|i| kinds[*i].is_value()).collect();
            let mut choices: Vec<Vec<(Option<usize>, Option<usize>)>> = vec![];
            for i in 0..n {
                let mut c = vec![];
                let mut topts: Vec<Option<usize>> = vec![None];
                topts.extend(types.iter().map(|t| Some(*t)));
                let mut vopts: Vec<Option<usize>> = vec![None];
                if !kinds[i].is_type() && kinds[i] != Kind::Param {
                    vopts.extend(values.iter().map(|v| Some(*v)));
                }
                for t in &topts {
                    for v in &vopts {
                        c.push((*t, *v));
                    }
                }
                choices.push(c);
            }
            let mut idx = vec![0usize; n];
            loop {
                let tref: Vec<Option<usize>> = (0..n).map(|i| choices[i][idx[i]].0).collect();
                let vref: Vec<Option<usize>> = (0..n).map(|i| choices[i][idx[i]].1).collect();
                let sh = Shape { kinds: kinds.clone(), tref, vref };
                // canonical: skip shapes with no edge at all unless n == 1 (uninteresting permutations)
                if n == 1 || !sh.edges().is_empty() {
                    out.push(sh);
                }
                let mut k = 0;
                loop {
                    if k == n {
                        return;
                    }
                    idx[k] += 1;
                    if idx[k] < choices[k].len() {
                        break;
                    }
                    idx[k] = 0;
                    k += 1;
                }
            }
        }
        for k in KINDS {
            kinds[pos] = k;
            rec(pos + 1, n, kinds, out);
        }
    }
    rec(0, n, &mut kinds, &mut out);
    out
}

pub struct Blocks {
    shapes: Vec<Shape>,
    chunk: usize,
    scratch: Option<Scratch>,
}

impl Blocks {
    pub fn new(tier: Tier) -> Self {
        let mut sh = vec![];
        let max = if tier == Tier::Thorough { 4 } else { 3 };
        for n in 1..=max {
            let mut s = shapes(n);
            if n == 4 {
                // 4 nodes: keep shapes with at most 4 distinct kinds positions restricted (budget): every 7th
                s = s.into_iter().enumerate().filter(|(i, _)| i % 7 == 0).map(|(_, s)| s).collect();
            }
            sh.extend(s);
        }
        Blocks { shapes: sh, chunk: 8, scratch: None }
    }
}

impl Check for Blocks {
    fn property(&self) -> &'static str {
        "C08"
    }
    fn name(&self) -> String {
        "c08-blocks".into()
    }
    fn len(&self) -> usize {
        self.shapes.len().div_ceil(self.chunk)
    }
    fn describe(&self, i: usize) -> String {
        let sh = &self.shapes[i * self.chunk];
        let order: Vec<usize> = (0..sh.kinds.len()).collect();
        format!("block shapes #{}..#{}; first shown in source order 0..n (all permutations are run):\n{}", i * self.chunk, (i + 1) * self.chunk, sh.program(&order))
    }
    fn exhaustive(&self) -> bool {
        true
    }
    fn rule(&self) -> String {
        format!("every block of <= 3 (thorough: 4, every 7th shape) `that` contributions over 7 node kinds (transparent type alias, sealed recursive-capable data type with a kind annotation, value definition annotated on the right-hand side / inside the binder pattern / with def, thunked function, parameter), every choice of one type reference and one value reference per node among the other nodes or itself ({} shapes), printed in every permutation with parameters keeping their relative order; oracle: all permutations agree on acceptance, diagnostics class and run result; an acyclic well-typed shape is accepted and returns the expected values; a cycle through a value definition or parameter is rejected with a diagnostic (never a panic; hangs are caught by the worker watchdog); non-trivial = shapes with >= 2 nodes and >= 1 edge between distinct nodes", self.shapes.len())
    }
    fn crash_is_violation(&self) -> bool {
        true
    }
    fn timeout(&self) -> std::time::Duration {
        std::time::Duration::from_secs(60)
    }
    fn run(&mut self, i: usize) -> CaseResult {
        let scratch = self.scratch.get_or_insert_with(|| Scratch::new("c08l"));
        let a = i * self.chunk;
        let b = ((i + 1) * self.chunk).min(self.shapes.len());
        let mut r = CaseResult::ok("chunk").key(hash64(&format!("b{}", i)));
        let mut nontrivial = false;
        for sh in &self.shapes[a..b] {
            let n = sh.kinds.len();
            if n >= 2 && sh.edges().iter().any(|(x, y)| x != y) {
                nontrivial = true;
            }
            let params: Vec<usize> = (0..n).filter(|k| sh.kinds[*k] == Kind::Param).collect();
            let mut outcomes: Vec<(Vec<usize>, String, String)> = vec![];
            for order in permutations(n) {
                // parameters keep their relative order
                let ppos: Vec<usize> = order.iter().copied().filter(|k| params.contains(k)).collect();
                if ppos != params {
                    continue;
                }
                let text = sh.program(&order);
                let path = scratch.write("main.zydeco", &text);
                let res = guarded(|| {
                    let s = Subject::analyze(&path);
                    let v = s.verdict();
                    let run = if v.accepted() { Some(s.run(b"", &[], 10_000)) } else { None };
                    (v, run)
                });
                r = r.count("programs", 1);
                match res {
                    | Err(p) => {
                        r = r.violation(format!("block analysis panicked at {}: {}", crate::front::short_loc(&p.loc), crate::front::short_msg(&p.msg)), format!("{:?}\n{}", p, text));
                        outcomes.push((order, "panic".into(), text));
                    }
                    | Ok((v, run)) => {
                        let class = match (&v, &run) {
                            | (Verdict::Checked, Some(run)) => format!("checked:{:?}", run.end),
                            | (Verdict::Rejected(k), _) => {
                                // diagnostics kind: the message of the first report
                                let msg = k.first().cloned().unwrap_or_default();
                                let m = msg.split("msg: Some(").nth(1).and_then(|s| s.split(')').next()).unwrap_or("").to_string();
                                format!("rejected:{}", m)
                            }
                            | (other, _) => format!("{}:{:?}", other.tag(), other),
                        };
                        outcomes.push((order, class, text));
                    }
                }
            }
            // agreement across permutations
            let first = outcomes[0].1.clone();
            let accepted_tag = |c: &str| c.split(':').next().unwrap_or("").to_string();
            if let Some(other) = outcomes.iter().find(|o| accepted_tag(&o.1) != accepted_tag(&first) || (first.starts_with("checked") && o.1 != first)) {
                r = r.violation(
                    "permuting the contributions of a block changes acceptance or behaviour",
                    format!("order {:?} gives {}\n{}\nbut order {:?} gives {}\n{}", outcomes[0].0, first, outcomes[0].2, other.0, other.1, other.2),
                );
                continue;
            }
            // expected verdicts
            let cyc = sh.cyclic_nodes();
            let value_cycle = cyc.iter().any(|k| !sh.kinds[*k].is_type());
            if value_cycle {
                r = r.count("value_cycles", 1);
                if first.starts_with("checked") {
                    r = r.violation("a dependency cycle through a value definition or parameter is accepted", format!("{}\n{}", first, outcomes[0].2));
                }
            } else if cyc.is_empty() && sh.well_typed() {
                r = r.count("acyclic_well_typed", 1);
                if !first.starts_with("checked:Ret") {
                    r = r.violation("an acyclic, well-typed block is not accepted", format!("{}\n{}", first, outcomes[0].2));
                } else {
                    // expected values: each value node evaluates to its literal / referenced value / argument
                    let mut want = vec![];
                    for k in 0..n {
                        if sh.kinds[k].is_value() {
                            let mut j = k;
                            let val = loop {
                                if sh.kinds[j] == Kind::Param {
                                    break 100 + j as i64;
                                }
                                match sh.vref[j] {
                                    | Some(t) => j = t,
                                    | None => break 7 + j as i64,
                                }
                            };
                            want.push(format!("Integer({})", val));
                        }
                    }
                    want.push("Integer(0)".into());
                    let expect = if want.len() == 1 { format!("checked:Ret(\"{}\")", want[0]) } else { format!("checked:Ret(\"({})\")", want.join(",")) };
                    if first != expect {
                        // is it exactly the arguments of the parameters that are misassigned? i.e. does the
                        // result equal the expected one after permuting the arguments among the parameters
                        let params: Vec<usize> = (0..n).filter(|k| sh.kinds[*k] == Kind::Param).collect();
                        let render = |assign: &Vec<usize>| -> String {
                            // assign[i] = index of the parameter whose argument parameter params[i] receives
                            let mut w = vec![];
                            for k in 0..n {
                                if sh.kinds[k].is_value() {
                                    let mut j = k;
                                    let val = loop {
                                        if sh.kinds[j] == Kind::Param {
                                            let i = params.iter().position(|p| *p == j).unwrap();
                                            break 100 + params[assign[i]] as i64;
                                        }
                                        match sh.vref[j] {
                                            | Some(t) => j = t,
                                            | None => break 7 + j as i64,
                                        }
                                    };
                                    w.push(format!("Integer({})", val));
                                }
                            }
                            w.push("Integer(0)".into());
                            if w.len() == 1 { format!("checked:Ret(\"{}\")", w[0]) } else { format!("checked:Ret(\"({})\")", w.join(",")) }
                        };
                        fn perms(n: usize) -> Vec<Vec<usize>> {
                            if n == 0 {
                                return vec![vec![]];
                            }
                            let mut out = vec![];
                            for p in perms(n - 1) {
                                for i in 0..=p.len() {
                                    let mut q = p.clone();
                                    q.insert(i, n - 1);
                                    out.push(q);
                                }
                            }
                            out
                        }
                        let permuted = params.len() >= 2 && perms(params.len()).iter().any(|a| render(a) == first);
                        let fp = if permuted {
                            "block parameters receive their arguments out of textual order"
                        } else {
                            "an acyclic block computes the wrong values"
                        };
                        r = r.violation(fp, format!("got {} expected {}\n{}", first, expect, outcomes[0].2));
                    }
                }
            } else {
                r = r.count("type_cycles_or_ill_typed", 1);
            }
        }
        r.nontrivial = nontrivial;
        r
    }
}

/* ------------------------------ contributions in nested positions ------------------------------ */

/// A `that` contribution belongs to its nearest enclosing `begin` block wherever it is written
/// inside that block: in the tail chain, or inside a thunk, a function body, a `do` tail or a match
/// arm of another item or of the body. Three contributions in a dependency chain (type alias <-
/// value <- value), each written in every one of six slots, in both relative orders within a slot:
/// all programs must agree with the canonical tail-chain program.
pub struct NestedSlots {
    cases: Vec<([usize; 3], bool)>,
}
const SLOTS: [&str; 6] = ["tail-first", "tail-last", "in-thunk", "in-fn-body", "in-do-tail", "in-match-arm"];
impl NestedSlots {
    pub fn new() -> Self {
        let mut cases = vec![];
        for a in 0..SLOTS.len() {
            for b in 0..SLOTS.len() {
                for c in 0..SLOTS.len() {
                    for rev in [false, true] {
                        // the order inside a slot only matters when two contributions share it
                        if rev && a != b && b != c && a != c {
                            continue;
                        }
                        cases.push(([a, b, c], rev));
                    }
                }
            }
        }
        NestedSlots { cases }
    }
    fn text(case: &([usize; 3], bool)) -> String {
        let (slots, rev) = case;
        let contribs = ["let T = Int64 that", "let x : T = 7 that", "let y : T = x that"];
        let fill = |slot: usize| -> String {
            let mut items: Vec<&str> = (0..3).filter(|i| slots[*i] == slot).map(|i| contribs[i]).collect();
            if *rev {
                items.reverse();
            }
            items.iter().map(|s| format!("{s} ")).collect::<String>()
        };
        format!(
            "begin\n  let Ret = @(intrinsic(ret)) that\n  let Int64 = @(intrinsic(i64)) that\n  let Thk = @(intrinsic(thk)) that\n  {}\n  let g = {{ {}ret 0 }} that\n  let h = {{ fn (a : Int64) => {}ret a }} that\n  {}\n  do q <- ! h 1;\n  {}\n  match (q, 2)\n  | (m, n) => {}do z <- ! g; ret (x, y, m, z)\n  end\nend\n",
            fill(0),
            fill(2),
            fill(3),
            fill(1),
            fill(4),
            fill(5)
        )
    }
}
impl Check for NestedSlots {
    fn property(&self) -> &'static str {
        "C08"
    }
    fn name(&self) -> String {
        "c08-nested-slots".into()
    }
    fn len(&self) -> usize {
        self.cases.len()
    }
    fn describe(&self, i: usize) -> String {
        let (s, rev) = &self.cases[i];
        format!("alias in {}, first value in {}, second value in {}{}\n{}", SLOTS[s[0]], SLOTS[s[1]], SLOTS[s[2]], if *rev { " (reversed inside a slot)" } else { "" }, Self::text(&self.cases[i]))
    }
    fn rule(&self) -> String {
        format!("{} programs: one block whose three chained contributions (`let T = Int64`, `let x : T = 7`, `let y : T = x`) are each written in one of 6 places of the block (head of the tail chain, end of the tail chain, inside the thunk of another item, inside a function body of another item, in a do tail of the body, in a match arm of the body), every assignment, both orders inside a shared place; oracle: each program is accepted and returns (7, 7, 1, 0), exactly like the canonical tail-chain text; non-trivial = every program", self.cases.len())
    }
    fn run(&mut self, i: usize) -> CaseResult {
        let scratch = Scratch::new("c08n");
        let text = Self::text(&self.cases[i]);
        let path = scratch.write("main.zydeco", &text);
        let mut r = CaseResult::ok("placement").key(i as u64).nontrivial(true);
        match guarded(|| {
            let s = Subject::analyze(&path);
            let v = s.verdict();
            let run = if v.accepted() { Some(s.run(b"", &[], 2000)) } else { None };
            (v, run)
        }) {
            | Err(p) => r = r.violation(format!("front end panicked at {}", crate::front::short_loc(&p.loc)), format!("{:?}\n{text}", p)),
            | Ok((v, None)) => {
                r = r.violation(format!("a block is rejected when a contribution is written {}", self.describe(i).lines().next().unwrap_or("")), format!("{:?}\n{text}", v));
            }
            | Ok((_, Some(run))) => match &run.end {
                | RunEnd::Ret(got) if got == "(Integer(7),Integer(7),Integer(1),Integer(0))" => r = r.count("agreements", 1),
                | other => r = r.violation("a block computes a different result when a contribution is written in a nested position".to_string(), format!("{:?}\n{text}", other)),
            },
        }
        r
    }
}
