//! Reference type checker over the fully annotated harness AST (plain syntax-directed rules; every
//! binder and introduction form carries its type, so no inference is involved) and the definite-error
//! mutation catalogue (C03 negative side, C01(b)).
use crate::genr::Ctx;
use crate::lang::*;
use crate::print::pat_type;

#[derive(Debug, Clone)]
pub struct TyErr(pub String);

fn err<T>(s: impl Into<String>) -> Result<T, TyErr> {
    Err(TyErr(s.into()))
}

pub struct Tc {
    data: Vec<DataDecl>,
    codata: Vec<CodataDecl>,
}

impl Tc {
    pub fn new() -> Self {
        Tc { data: data_decls(), codata: codata_decls() }
    }

    /// Type equality: structural; non-recursive (transparent) data/codata types are equal when they
    /// list the same names with equal payloads in any order; recursive (`def`-sealed) ones are nominal.
    pub fn eq_v(&self, a: &VT, b: &VT) -> bool {
        match (a, b) {
            | (VT::Unit, VT::Unit) | (VT::Int, VT::Int) | (VT::Str, VT::Str) => true,
            | (VT::Data(i), VT::Data(j)) => {
                if i == j {
                    return true;
                }
                let (x, y) = (&self.data[*i], &self.data[*j]);
                if x.recursive || y.recursive || x.ctors.len() != y.ctors.len() {
                    return false;
                }
                x.ctors.iter().all(|(n, t)| y.ctors.iter().any(|(m, u)| n == m && self.eq_v(t, u)))
            }
            | (VT::Prod(x), VT::Prod(y)) => {
                // products associate to the right: A * B * C is A * (B * C)
                let (x, y) = (flat_prod(x), flat_prod(y));
                x.len() == y.len() && x.iter().zip(&y).all(|(p, q)| self.eq_v(p, q))
            }
            | (VT::Named(l, x), VT::Named(m, y)) => l == m && self.eq_v(x, y),
            | (VT::Thk(x), VT::Thk(y)) => self.eq_c(x, y),
            | _ => false,
        }
    }
    pub fn eq_c(&self, a: &CT, b: &CT) -> bool {
        match (a, b) {
            | (CT::Ret(x), CT::Ret(y)) => self.eq_v(x, y),
            | (CT::Fn(x, p), CT::Fn(y, q)) => self.eq_v(x, y) && self.eq_c(p, q),
            | (CT::Os, CT::Os) => true,
            | (CT::Codata(i), CT::Codata(j)) => {
                if i == j {
                    return true;
                }
                let (x, y) = (&self.codata[*i], &self.codata[*j]);
                if x.recursive || y.recursive || x.dtors.len() != y.dtors.len() {
                    return false;
                }
                x.dtors.iter().all(|(n, t)| y.dtors.iter().any(|(m, u)| n == m && self.eq_c(t, u)))
            }
            | _ => false,
        }
    }

    fn want_v(&self, what: &str, expected: &VT, found: &VT) -> Result<(), TyErr> {
        if self.eq_v(expected, found) { Ok(()) } else { err(format!("{what}: expected {}, found {}", crate::print::vt(expected), crate::print::vt(found))) }
    }
    fn want_c(&self, what: &str, expected: &CT, found: &CT) -> Result<(), TyErr> {
        if self.eq_c(expected, found) { Ok(()) } else { err(format!("{what}: expected {}, found {}", crate::print::ct(expected), crate::print::ct(found))) }
    }

    fn pat_ok(&self, p: &Pat, t: &VT) -> Result<(), TyErr> {
        match (p, t) {
            | (Pat::Wild(pt), t) | (Pat::Var(_, pt), t) => self.want_v("pattern annotation", t, pt),
            | (Pat::Unit, VT::Unit) => Ok(()),
            | (Pat::Tuple(ps), VT::Prod(ts)) if ps.len() >= 2 && ps.len() <= flat_prod(ts).len() => {
                let ts = regroup(&flat_prod(ts), ps.len());
                ps.iter().zip(&ts).try_for_each(|(p, t)| self.pat_ok(p, t))
            }
            | (Pat::Named(l, p), VT::Named(m, t)) if l == m => self.pat_ok(p, t),
            | (Pat::Ctor(d, k, p), VT::Data(e)) => {
                let (name, _) = &self.data[*d].ctors[*k];
                match self.data[*e].ctors.iter().find(|(n, _)| n == name) {
                    | Some((_, pt)) => self.pat_ok(p, pt),
                    | None => err(format!("unknown constructor {name} in pattern")),
                }
            }
            | (Pat::Alias(a, b), t) => {
                self.pat_ok(a, t)?;
                self.pat_ok(b, t)
            }
            | (Pat::Project(l, _, _, p), VT::Prod(ts)) => match field_payloads(ts, l).as_slice() {
                | [t] => self.pat_ok(p, t),
                | [] => err(format!("missing field {l} in pattern")),
                | _ => err(format!("ambiguous field {l} in pattern")),
            },
            | (p, t) => err(format!("pattern {:?} against type {}", std::mem::discriminant(p), crate::print::vt(t))),
        }
    }

    /// Bind a pattern whose inner binders are *not* annotated in the source (match arms, `let p : T`):
    /// variables take the types the matched type gives them, whatever the AST node remembers.
    fn infer_pat(&self, p: &Pat, t: &VT, out: &mut Ctx) -> Result<(), TyErr> {
        match (p, t) {
            | (Pat::Wild(_), _) => Ok(()),
            | (Pat::Var(x, _), t) => {
                out.push((*x, t.clone()));
                Ok(())
            }
            | (Pat::Unit, VT::Unit) => Ok(()),
            | (Pat::Tuple(ps), VT::Prod(ts)) if ps.len() >= 2 && ps.len() <= flat_prod(ts).len() => {
                let ts = regroup(&flat_prod(ts), ps.len());
                ps.iter().zip(&ts).try_for_each(|(p, t)| self.infer_pat(p, t, out))
            }
            | (Pat::Named(l, p), VT::Named(m, t)) if l == m => self.infer_pat(p, t, out),
            | (Pat::Ctor(d, k, p), VT::Data(e)) => {
                let (name, _) = &self.data[*d].ctors[*k];
                match self.data[*e].ctors.iter().find(|(n, _)| n == name) {
                    | Some((_, pt)) => self.infer_pat(p, pt, out),
                    | None => err(format!("unknown constructor {name} in pattern")),
                }
            }
            | (Pat::Alias(a, b), t) => {
                self.infer_pat(a, t, out)?;
                self.infer_pat(b, t, out)
            }
            | (Pat::Project(l, _, _, p), VT::Prod(ts)) => match field_payloads(ts, l).as_slice() {
                | [t] => self.infer_pat(p, t, out),
                | [] => err(format!("missing field {l} in pattern")),
                | _ => err(format!("ambiguous field {l} in pattern")),
            },
            | (p, t) => err(format!("pattern {:?} against type {}", std::mem::discriminant(p), crate::print::vt(t))),
        }
    }

    fn extend(ctx: &Ctx, p: &Pat) -> Ctx {
        let mut c = ctx.clone();
        let mut bs = vec![];
        p.binders(&mut bs);
        c.extend(bs);
        c
    }

    pub fn synth_v(&self, ctx: &Ctx, v: &V) -> Result<VT, TyErr> {
        Ok(match v {
            | V::Var(x) => match ctx.iter().rev().find(|(y, _)| y == x) {
                | Some((_, t)) => t.clone(),
                | None => return err(format!("unbound v{x}")),
            },
            | V::Unit => VT::Unit,
            | V::Int(_) => VT::Int,
            | V::Str(_) => VT::Str,
            | V::Tuple(vs) => VT::Prod(vs.iter().map(|v| self.synth_v(ctx, v)).collect::<Result<_, _>>()?),
            | V::Named(l, v) => VT::Named(l.clone(), Box::new(self.synth_v(ctx, v)?)),
            | V::Proj(v, l, _) => {
                // the receiver type is not written in the source: use the synthesised one
                let t = self.synth_v(ctx, v)?;
                let VT::Prod(cs) = &t else { return err("projection from non-product") };
                match cs.iter().find_map(|c| match c {
                    | VT::Named(n, inner) if n == l => Some((**inner).clone()),
                    | _ => None,
                }) {
                    | Some(t) => t,
                    | None => return err(format!("unknown field {l}")),
                }
            }
            | V::Thunk(c, ct) => {
                let t = self.synth_c(ctx, c)?;
                self.want_c("thunk ascription", ct, &t)?;
                thk(ct.clone())
            }
            | V::Ctor(d, k, p) => {
                let (_, pt) = &self.data[*d].ctors[*k];
                let t = self.synth_v(ctx, p)?;
                self.want_v("constructor payload", pt, &t)?;
                VT::Data(*d)
            }
        })
    }

    pub fn synth_c(&self, ctx: &Ctx, c: &C) -> Result<CT, TyErr> {
        Ok(match c {
            | C::Ret(v) => ret(self.synth_v(ctx, v)?),
            | C::Do(p, a, b) => {
                let CT::Ret(t) = self.synth_c(ctx, a)? else { return err("do bindee is not a returner") };
                self.pat_ok(p, &t)?;
                self.synth_c(&Self::extend(ctx, p), b)?
            }
            | C::Let(p, v, t, b) => {
                let vt = self.synth_v(ctx, v)?;
                self.want_v("let annotation", t, &vt)?;
                let mut c2 = ctx.clone();
                self.infer_pat(p, t, &mut c2)?;
                self.synth_c(&c2, b)?
            }
            | C::Fn(p, b) => func(pat_type(p), self.synth_c(&Self::extend(ctx, p), b)?),
            | C::App(f, v) => {
                let CT::Fn(a, b) = self.synth_c(ctx, f)? else { return err("application of a non-function") };
                let t = self.synth_v(ctx, v)?;
                self.want_v("argument", &a, &t)?;
                *b
            }
            | C::Force(v) => {
                let VT::Thk(c) = self.synth_v(ctx, v)? else { return err("force of a non-thunk") };
                *c
            }
            | C::Match(v, _, arms) => {
                // the matched data type is not written in the source: patterns are checked against the
                // scrutinee's own type (constructors by name)
                let t = self.synth_v(ctx, v)?;
                if !matches!(t, VT::Data(_)) && arms.len() != 1 {
                    // a product / unit / integer scrutinee admits exactly one (irrefutable) arm
                    return err("match on a non-data value");
                }
                let mut out: Option<CT> = None;
                for (p, b) in arms {
                    let mut c2 = ctx.clone();
                    self.infer_pat(p, &t, &mut c2)?;
                    let bt = self.synth_c(&c2, b)?;
                    match &out {
                        | None => out = Some(bt),
                        | Some(o) => self.want_c("match arm", o, &bt)?,
                    }
                }
                match out {
                    | Some(o) => o,
                    | None => return err("empty match"),
                }
            }
            | C::Comatch(d, arms) => {
                if arms.len() != self.codata[*d].dtors.len() {
                    return err("comatch arm count");
                }
                for ((_, t), a) in self.codata[*d].dtors.iter().zip(arms) {
                    let at = self.synth_c(ctx, a)?;
                    self.want_c("comatch arm", t, &at)?;
                }
                CT::Codata(*d)
            }
            | C::Dtor(b, d, k) => {
                // only the destructor's name is written: look it up in the head's own codata type
                let t = self.synth_c(ctx, b)?;
                let CT::Codata(e) = t else { return err("destructor on a non-codata computation") };
                let name = self.codata[*d].dtors[*k].0;
                match self.codata[e].dtors.iter().find(|(n, _)| *n == name) {
                    | Some((_, ty)) => ty.clone(),
                    | None => return err(format!("unknown destructor {name}")),
                }
            }
            | C::Fix(f, t, b) => {
                let mut c2 = ctx.clone();
                c2.push((*f, thk(t.clone())));
                let bt = self.synth_c(&c2, b)?;
                self.want_c("fix body", t, &bt)?;
                t.clone()
            }
            | C::Ann(b, t) => {
                let bt = self.synth_c(ctx, b)?;
                self.want_c("ascription", t, &bt)?;
                t.clone()
            }
            | C::WriteInt(v, k) => {
                self.want_v("write_int", &VT::Int, &self.synth_v(ctx, v)?)?;
                self.want_c("write_int continuation", &CT::Os, &self.synth_c(ctx, k)?)?;
                CT::Os
            }
            | C::WriteLine(v, k) => {
                self.want_v("write_line", &VT::Str, &self.synth_v(ctx, v)?)?;
                self.want_c("write_line continuation", &CT::Os, &self.synth_c(ctx, k)?)?;
                CT::Os
            }
            | C::Arith(_, a, b) => {
                self.want_v("arith", &VT::Int, &self.synth_v(ctx, a)?)?;
                self.want_v("arith", &VT::Int, &self.synth_v(ctx, b)?)?;
                ret(VT::Int)
            }
            | C::IfLt(a, b, t, x, y) | C::IfEq(a, b, t, x, y) => {
                self.want_v("comparison", &VT::Int, &self.synth_v(ctx, a)?)?;
                self.want_v("comparison", &VT::Int, &self.synth_v(ctx, b)?)?;
                self.want_c("branch", t, &self.synth_c(ctx, x)?)?;
                self.want_c("branch", t, &self.synth_c(ctx, y)?)?;
                t.clone()
            }
            | C::Exit(v) => {
                self.want_v("exit", &VT::Int, &self.synth_v(ctx, v)?)?;
                CT::Os
            }
            | C::ReadLine(x, k) => {
                let mut c2 = ctx.clone();
                c2.push((*x, VT::Str));
                self.want_c("read_line continuation", &CT::Os, &self.synth_c(&c2, k)?)?;
                CT::Os
            }
        })
    }
}

/* ----------------------------------- mutants ----------------------------------- */

/// canonical closed value of a ground type (distinct from the enumerator's literals)
fn canon(t: &VT) -> Option<V> {
    Some(match t {
        | VT::Unit => V::Unit,
        | VT::Int => V::Int(9),
        | VT::Str => V::Str("m".into()),
        | VT::Data(d) if *d == BOOL || *d == BIG3 => V::Ctor(*d, 0, Box::new(V::Unit)),
        | VT::Data(d) if *d == OPT => V::Ctor(OPT, 0, Box::new(V::Unit)),
        | _ => return None,
    })
}

const GROUNDS: [VT; 6] = [VT::Unit, VT::Int, VT::Str, VT::Data(BOOL), VT::Data(BIG3), VT::Data(OPT)];

/// near types for annotation mutations
fn near(t: &VT) -> Vec<VT> {
    let mut out = vec![];
    match t {
        | VT::Int => out.push(VT::Str),
        | VT::Str => out.push(VT::Int),
        | VT::Unit => out.push(VT::Int),
        | VT::Data(d) if *d == BOOL => {
            out.push(VT::Data(BIG3));
            out.push(VT::Data(OPT));
        }
        | VT::Data(d) if *d == BIG3 => out.push(VT::Data(BOOL)),
        | VT::Data(d) if *d == OPT => out.push(VT::Data(BOOL)),
        | VT::Data(d) if *d == NAT => out.push(VT::Data(LIST)),
        | VT::Prod(cs) => {
            if cs.len() == 2 && cs[0] != cs[1] {
                out.push(VT::Prod(vec![cs[1].clone(), cs[0].clone()]));
            }
            out.push(cs[0].clone());
            let mut more = cs.clone();
            more.push(VT::Int);
            out.push(VT::Prod(more));
        }
        | VT::Named(l, inner) => {
            out.push((**inner).clone());
            out.push(VT::Named(format!("{l}x"), inner.clone()));
        }
        | VT::Thk(c) => {
            for c2 in near_c(c) {
                out.push(thk(c2));
            }
        }
        | _ => {}
    }
    out
}
fn near_c(t: &CT) -> Vec<CT> {
    let mut out = vec![];
    match t {
        | CT::Ret(a) => {
            for a2 in near(a) {
                out.push(ret(a2));
            }
            out.push(func(VT::Int, t.clone()));
        }
        | CT::Fn(a, b) => {
            for a2 in near(a) {
                out.push(func(a2, (**b).clone()));
            }
            for b2 in near_c(b) {
                out.push(func((**a).clone(), b2));
            }
            out.push((**b).clone());
        }
        | CT::Codata(d) if *d == OBJ => out.push(CT::Codata(CELL)),
        | _ => {}
    }
    out
}

/// All single-site mutants of a computation, each with a description. Mutation sites: every value
/// position of ground type (replaced by a canonical value of each other ground type), every `let`
/// annotation, thunk ascription and fix annotation (replaced by each near type), every constructor
/// (replaced by a constructor of another data type).
pub fn mutants(c: &C) -> Vec<(String, C)> {
    let tc = Tc::new();
    let mut out = vec![];
    mut_c(&tc, &vec![], c, &mut |desc, m| out.push((desc, m)));
    out
}

fn mut_v(tc: &Tc, ctx: &Ctx, v: &V, emit: &mut dyn FnMut(String, V)) {
    // replacement by a canonical value of another ground type
    if let Ok(t) = tc.synth_v(ctx, v) {
        if GROUNDS.iter().any(|g| tc.eq_v(g, &t)) {
            for g in GROUNDS.iter() {
                if !tc.eq_v(g, &t) {
                    if let Some(cv) = canon(g) {
                        emit(format!("value of type {} replaced by a value of type {}", crate::print::vt(&t), crate::print::vt(g)), cv);
                    }
                }
            }
        }
    }
    match v {
        | V::Tuple(vs) => {
            for i in 0..vs.len() {
                mut_v(tc, ctx, &vs[i], &mut |d, m| {
                    let mut w = vs.clone();
                    w[i] = m;
                    emit(d, V::Tuple(w))
                });
            }
            if vs.len() > 2 {
                emit("tuple component dropped".into(), V::Tuple(vs[..vs.len() - 1].to_vec()));
            }
            let mut more = vs.clone();
            more.push(V::Int(9));
            emit("extra tuple component".into(), V::Tuple(more));
        }
        | V::Named(l, inner) => {
            mut_v(tc, ctx, inner, &mut |d, m| emit(d, V::Named(l.clone(), Box::new(m))));
            emit("field renamed".into(), V::Named(format!("{l}x"), inner.clone()));
        }
        | V::Proj(inner, l, ty) => {
            emit("unknown field projected".into(), V::Proj(inner.clone(), format!("{l}x"), ty.clone()));
        }
        | V::Thunk(body, ct) => {
            mut_c(tc, ctx, body, &mut |d, m| emit(d, V::Thunk(Box::new(m), ct.clone())));
            for ct2 in near_c(ct) {
                emit(format!("thunk ascription {} changed to {}", crate::print::ct(ct), crate::print::ct(&ct2)), V::Thunk(body.clone(), ct2));
            }
        }
        | V::Ctor(d, k, p) => {
            mut_v(tc, ctx, p, &mut |dsc, m| emit(dsc, V::Ctor(*d, *k, Box::new(m))));
            // a constructor of another data type at the same ascription: printed as (+Other(..) : ThisType)
            let other = if *d == BOOL { (OPT, 0usize) } else { (BOOL, 0usize) };
            emit("constructor of another data type".into(), V::Ctor(other.0, other.1, Box::new(V::Unit)));
        }
        | _ => {}
    }
}

fn mut_c(tc: &Tc, ctx: &Ctx, c: &C, emit: &mut dyn FnMut(String, C)) {
    match c {
        | C::Ret(v) => mut_v(tc, ctx, v, &mut |d, m| emit(d, C::Ret(m))),
        | C::Force(v) => {
            mut_v(tc, ctx, v, &mut |d, m| emit(d, C::Force(m)));
            emit("force of a non-thunk".into(), C::Force(V::Int(9)));
        }
        | C::Do(p, a, b) => {
            mut_c(tc, ctx, a, &mut |d, m| emit(d, C::Do(p.clone(), Box::new(m), b.clone())));
            mut_c(tc, &Tc::extend(ctx, p), b, &mut |d, m| emit(d, C::Do(p.clone(), a.clone(), Box::new(m))));
        }
        | C::Let(p, v, t, b) => {
            mut_v(tc, ctx, v, &mut |d, m| emit(d, C::Let(p.clone(), m, t.clone(), b.clone())));
            mut_c(tc, &Tc::extend(ctx, p), b, &mut |d, m| emit(d, C::Let(p.clone(), v.clone(), t.clone(), Box::new(m))));
            if let Pat::Var(x, _) = p {
                for t2 in near(t) {
                    // annotation and binder change together: the bindee no longer fits
                    emit(format!("let annotation {} changed to {}", crate::print::vt(t), crate::print::vt(&t2)), C::Let(Pat::Var(*x, t2.clone()), v.clone(), t2, b.clone()));
                }
            }
        }
        | C::Fn(p, b) => {
            mut_c(tc, &Tc::extend(ctx, p), b, &mut |d, m| emit(d, C::Fn(p.clone(), Box::new(m))));
            if let Pat::Var(x, t) = p {
                for t2 in near(t) {
                    emit(format!("parameter annotation {} changed to {}", crate::print::vt(t), crate::print::vt(&t2)), C::Fn(Pat::Var(*x, t2), b.clone()));
                }
            }
        }
        | C::App(f, v) => {
            mut_c(tc, ctx, f, &mut |d, m| emit(d, C::App(Box::new(m), v.clone())));
            mut_v(tc, ctx, v, &mut |d, m| emit(d, C::App(f.clone(), m)));
            emit("application of a returner".into(), C::App(Box::new(C::Ret(V::Int(9))), v.clone()));
        }
        | C::Match(v, d, arms) => {
            mut_v(tc, ctx, v, &mut |dsc, m| emit(dsc, C::Match(m, *d, arms.clone())));
            for i in 0..arms.len() {
                let (p, b) = &arms[i];
                mut_c(tc, &Tc::extend(ctx, p), b, &mut |dsc, m| {
                    let mut a2 = arms.clone();
                    a2[i] = (p.clone(), m);
                    emit(dsc, C::Match(v.clone(), *d, a2))
                });
            }
        }
        | C::Comatch(d, arms) => {
            for i in 0..arms.len() {
                mut_c(tc, ctx, &arms[i], &mut |dsc, m| {
                    let mut a2 = arms.clone();
                    a2[i] = m;
                    emit(dsc, C::Comatch(*d, a2))
                });
            }
        }
        | C::Dtor(b, d, k) => {
            mut_c(tc, ctx, b, &mut |dsc, m| emit(dsc, C::Dtor(Box::new(m), *d, *k)));
            if *d == OBJ {
                // a destructor the type does not have
                emit("unknown destructor".into(), C::Dtor(b.clone(), CELL, 1));
            }
        }
        | C::Fix(f, t, b) => {
            let mut c2 = ctx.clone();
            c2.push((*f, thk(t.clone())));
            mut_c(tc, &c2, b, &mut |d, m| emit(d, C::Fix(*f, t.clone(), Box::new(m))));
            for t2 in near_c(t) {
                emit(format!("fix annotation {} changed to {}", crate::print::ct(t), crate::print::ct(&t2)), C::Fix(*f, t2, b.clone()));
            }
        }
        | C::Ann(b, t) => mut_c(tc, ctx, b, &mut |d, m| emit(d, C::Ann(Box::new(m), t.clone()))),
        | C::WriteInt(v, k) => {
            mut_v(tc, ctx, v, &mut |d, m| emit(d, C::WriteInt(m, k.clone())));
            mut_c(tc, ctx, k, &mut |d, m| emit(d, C::WriteInt(v.clone(), Box::new(m))));
        }
        | C::WriteLine(v, k) => {
            mut_v(tc, ctx, v, &mut |d, m| emit(d, C::WriteLine(m, k.clone())));
            mut_c(tc, ctx, k, &mut |d, m| emit(d, C::WriteLine(v.clone(), Box::new(m))));
        }
        | C::Arith(op, a, b) => {
            mut_v(tc, ctx, a, &mut |d, m| emit(d, C::Arith(op.clone(), m, b.clone())));
            mut_v(tc, ctx, b, &mut |d, m| emit(d, C::Arith(op.clone(), a.clone(), m)));
        }
        | C::IfLt(a, b, t, x, y) => {
            mut_v(tc, ctx, a, &mut |d, m| emit(d, C::IfLt(m, b.clone(), t.clone(), x.clone(), y.clone())));
            mut_c(tc, ctx, x, &mut |d, m| emit(d, C::IfLt(a.clone(), b.clone(), t.clone(), Box::new(m), y.clone())));
        }
        | C::IfEq(..) => {}
        | C::Exit(v) => mut_v(tc, ctx, v, &mut |d, m| emit(d, C::Exit(m))),
        | C::ReadLine(x, k) => {
            let mut c2 = ctx.clone();
            c2.push((*x, VT::Str));
            mut_c(tc, &c2, k, &mut |d, m| emit(d, C::ReadLine(*x, Box::new(m))));
        }
    }
}

/// the components of a product with the trailing product spliced in: `A * (B * C)` is `A * B * C`
pub fn flat_prod(ts: &[VT]) -> Vec<VT> {
    match ts.split_last() {
        | Some((VT::Prod(inner), init)) => {
            let mut v = init.to_vec();
            v.extend(flat_prod(inner));
            v
        }
        | _ => ts.to_vec(),
    }
}
/// view a flat product of m components as one of n <= m: the last takes the remaining product
fn regroup(ts: &[VT], n: usize) -> Vec<VT> {
    if n >= ts.len() {
        return ts.to_vec();
    }
    let mut v = ts[..n - 1].to_vec();
    v.push(VT::Prod(ts[n - 1..].to_vec()));
    v
}

/// payload types of the top-level components named `l` (the generator only builds flat records)
fn field_payloads(ts: &[VT], l: &str) -> Vec<VT> {
    ts.iter().filter_map(|c| match c { | VT::Named(n, t) if n == l => Some((**t).clone()), | _ => None }).collect()
}
