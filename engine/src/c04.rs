//! C04 — exhaustiveness checking is sound and complete. Every arm list up to a bound over a menu of
//! scrutinee types; oracle = brute-force value enumeration.
use crate::common::*;
use crate::subject::*;
use zydeco_session::CompilerSession;
use zydeco_statics::validate::{CoverageError, CoveragePattern};

#[derive(Clone, Debug, PartialEq, Eq, Hash)]
pub enum T {
    Unit,
    /// declared data type by name
    D(&'static str),
    Prod(Vec<T>),
    Named(&'static str, Box<T>),
}

struct Decl {
    name: &'static str,
    recursive: bool,
    ctors: Vec<(&'static str, T)>,
}

fn decls() -> Vec<Decl> {
    let d = |n| T::D(n);
    vec![
        Decl { name: "Bool", recursive: false, ctors: vec![("+T", T::Unit), ("+F", T::Unit)] },
        Decl { name: "Tri", recursive: false, ctors: vec![("+A", T::Unit), ("+B", T::Unit), ("+C", T::Unit)] },
        Decl { name: "OptB", recursive: false, ctors: vec![("+N", T::Unit), ("+S", d("Bool"))] },
        Decl { name: "OptP", recursive: false, ctors: vec![("+N", T::Unit), ("+S", T::Prod(vec![d("Bool"), d("Bool")]))] },
        Decl { name: "Wrap", recursive: false, ctors: vec![("+K", d("OptB"))] },
        Decl { name: "Rec", recursive: false, ctors: vec![("+M", T::Prod(vec![T::Named("a", Box::new(d("Bool"))), T::Named("b", Box::new(d("Bool")))]))] },
        Decl { name: "Nat", recursive: true, ctors: vec![("+Z", T::Unit), ("+S", d("Nat"))] },
        Decl { name: "Void", recursive: false, ctors: vec![] },
        Decl { name: "W", recursive: false, ctors: vec![("+W", d("Void"))] },
        Decl {
            name: "Digit",
            recursive: false,
            ctors: vec![("+D0", T::Unit), ("+D1", T::Unit), ("+D2", T::Unit), ("+D3", T::Unit), ("+D4", T::Unit), ("+D5", T::Unit), ("+D6", T::Unit), ("+D7", T::Unit), ("+D8", T::Unit), ("+D9", T::Unit), ("+D10", T::Unit)],
        },
        Decl { name: "WrapD", recursive: false, ctors: vec![("+K", d("Digit")), ("+J", T::Unit)] },
    ]
}

fn decl(name: &str) -> Decl {
    decls().into_iter().find(|d| d.name == name).unwrap()
}

fn ty_text(t: &T) -> String {
    match t {
        | T::Unit => "Unit".into(),
        | T::D(n) => n.to_string(),
        | T::Prod(cs) => cs.iter().map(|c| if matches!(c, T::Prod(_)) { format!("({})", ty_text(c)) } else { ty_text(c) }).collect::<Vec<_>>().join(" * "),
        | T::Named(l, t) => format!("({} :: {})", l, ty_text(t)),
    }
}

#[derive(Clone, Debug, PartialEq, Eq, Hash)]
pub enum Val {
    Unit,
    C(&'static str, Box<Val>),
    Tup(Vec<Val>),
}

fn values(t: &T, depth: usize) -> Vec<Val> {
    match t {
        | T::Unit => vec![Val::Unit],
        | T::D(n) => {
            let d = decl(n);
            let mut out = vec![];
            for (c, pt) in &d.ctors {
                if d.recursive && depth == 0 && *pt != T::Unit {
                    continue;
                }
                for v in values(pt, depth.saturating_sub(if d.recursive { 1 } else { 0 })) {
                    out.push(Val::C(c, Box::new(v)));
                }
            }
            out
        }
        | T::Prod(cs) => {
            let mut out: Vec<Vec<Val>> = vec![vec![]];
            for c in cs {
                let vs = values(c, depth);
                let mut next = vec![];
                for p in &out {
                    for v in &vs {
                        let mut q = p.clone();
                        q.push(v.clone());
                        next.push(q);
                    }
                }
                out = next;
            }
            out.into_iter().map(Val::Tup).collect()
        }
        | T::Named(_, t) => values(t, depth),
    }
}

fn val_text(v: &Val, t: &T) -> String {
    match (v, t) {
        | (Val::Unit, _) => "()".into(),
        | (Val::C(c, p), T::D(n)) => {
            let d = decl(n);
            let pt = &d.ctors.iter().find(|(k, _)| k == c).unwrap().1;
            let inner = val_text(p, pt);
            if inner.starts_with('(') { format!("{}{}", c, inner) } else { format!("{}({})", c, inner) }
        }
        | (Val::Tup(vs), T::Prod(cs)) => format!("({})", vs.iter().zip(cs).map(|(v, c)| val_item(v, c)).collect::<Vec<_>>().join(", ")),
        | (v, T::Named(l, t)) => format!("({} = {})", l, val_text(v, t)),
        | _ => unreachable!(),
    }
}
fn val_item(v: &Val, t: &T) -> String {
    match t {
        | T::Named(l, inner) => format!("{} = {}", l, val_text(v, inner)),
        | _ => val_text(v, t),
    }
}

#[derive(Clone, Debug, PartialEq, Eq, Hash)]
pub enum P {
    Wild,
    Var,
    Unit,
    C(&'static str, Box<P>),
    Tup(Vec<P>),
    Named(&'static str, Box<P>),
    /// `(p; x)`
    Alias(Box<P>),
}

fn matches(p: &P, v: &Val) -> bool {
    match (p, v) {
        | (P::Wild | P::Var, _) => true,
        | (P::Unit, Val::Unit) => true,
        | (P::C(c, q), Val::C(d, w)) => c == d && matches(q, w),
        | (P::Tup(ps), Val::Tup(vs)) => ps.len() == vs.len() && ps.iter().zip(vs).all(|(p, v)| matches(p, v)),
        | (P::Named(_, q), v) => matches(q, v),
        | (P::Alias(q), v) => matches(q, v),
        | _ => false,
    }
}

/// all patterns of a type up to `depth` constructor/tuple layers
fn patterns(t: &T, depth: usize) -> Vec<P> {
    let mut out = vec![P::Wild, P::Var];
    if depth == 0 {
        return out;
    }
    match t {
        | T::Unit => out.push(P::Unit),
        | T::D(n) => {
            for (c, pt) in &decl(n).ctors {
                for q in patterns(pt, depth - 1) {
                    if q == P::Var {
                        continue; // same coverage as `_`; variables are exercised at the top level
                    }
                    out.push(P::C(c, Box::new(q)));
                }
            }
        }
        | T::Prod(cs) => {
            let mut combos: Vec<Vec<P>> = vec![vec![]];
            for c in cs {
                let ps: Vec<P> = patterns(c, depth - 1).into_iter().filter(|q| *q != P::Var).collect();
                let mut next = vec![];
                for pre in &combos {
                    for q in &ps {
                        let mut r = pre.clone();
                        r.push(q.clone());
                        next.push(r);
                    }
                }
                combos = next;
            }
            for c in combos {
                let all_wild = c.iter().all(|q| *q == P::Wild);
                out.push(P::Tup(c.clone()));
                // alias members must be irrefutable (the checker rejects refutable ones by design)
                if all_wild {
                    out.push(P::Alias(Box::new(P::Tup(c))));
                }
            }
        }
        | T::Named(l, inner) => {
            for q in patterns(inner, depth) {
                if q != P::Var && q != P::Wild {
                    out.push(P::Named(l, Box::new(q)));
                }
            }
        }
    }
    out
}

struct Namer(usize);
impl Namer {
    fn fresh(&mut self) -> String {
        self.0 += 1;
        format!("x{}", self.0)
    }
}

fn pat_text(p: &P, n: &mut Namer) -> String {
    match p {
        | P::Wild => "_".into(),
        | P::Var => n.fresh(),
        | P::Unit => "()".into(),
        | P::C(c, q) => {
            let inner = pat_text(q, n);
            if inner.starts_with('(') && !inner.contains(';') { format!("{}{}", c, inner) } else { format!("{}({})", c, inner) }
        }
        | P::Tup(ps) => format!("({})", ps.iter().map(|q| pat_item(q, n)).collect::<Vec<_>>().join(", ")),
        | P::Named(l, q) => format!("({} = {})", l, pat_text(q, n)),
        | P::Alias(q) => {
            let a = pat_text(q, n);
            format!("({}; {})", a, n.fresh())
        }
    }
}
fn pat_item(p: &P, n: &mut Namer) -> String {
    match p {
        | P::Named(l, q) => format!("{} = {}", l, pat_text(q, n)),
        | _ => pat_text(p, n),
    }
}

fn preamble() -> String {
    let mut s = String::from("begin\n  let VType = @(intrinsic(vtype)) that\n  let Ret = @(intrinsic(ret)) that\n  let Thk = @(intrinsic(thk)) that\n  let Unit = @(intrinsic(unit)) that\n  let Int64 = @(intrinsic(i64)) that\n");
    for d in decls() {
        let arms: Vec<String> = d.ctors.iter().map(|(c, t)| format!("| {} : {}", c, ty_text(t))).collect();
        if d.recursive {
            s.push_str(&format!("  def {} : VType = data {} end that\n", d.name, arms.join(" ")));
        } else {
            s.push_str(&format!("  let {} = data {} end that\n", d.name, arms.join(" ")));
        }
    }
    s
}

pub fn scrutinee_types() -> Vec<T> {
    let d = |n| T::D(n);
    let nb = |l, t| T::Named(l, Box::new(t));
    vec![
        d("Bool"),
        d("Tri"),
        T::Prod(vec![d("Bool"), d("Bool")]),
        T::Prod(vec![d("Bool"), d("Tri")]),
        T::Prod(vec![d("Bool"), d("Bool"), d("Bool")]),
        T::Prod(vec![T::Prod(vec![d("Bool"), d("Bool")]), d("Bool")]),
        d("OptB"),
        d("OptP"),
        d("Wrap"),
        T::Prod(vec![nb("a", d("Bool")), nb("b", d("Bool"))]),
        d("Rec"),
        d("Nat"),
        T::Prod(vec![d("Bool"), d("Nat")]),
        T::Prod(vec![d("OptB"), d("Bool")]),
        T::Unit,
        d("Void"),
        d("W"),
        T::Prod(vec![d("Bool"), d("Void")]),
    ]
}

#[derive(Clone)]
struct MatchCase {
    ty: T,
    arms: Vec<P>,
}

pub struct Matches {
    cases: Vec<MatchCase>,
    chunk: usize,
    scratch: Option<Scratch>,
}

impl Matches {
    pub fn new(tier: Tier) -> Self {
        let mut cases = vec![];
        let budget = if tier == Tier::Thorough { 250_000 } else { 25_000 };
        // wide sums: every subset of the constructors (in declaration order and reversed), alone and
        // followed by a wildcard; bare and nested below another constructor
        {
            let names: Vec<&'static str> = decl("Digit").ctors.iter().map(|(c, _)| *c).collect();
            for mask in 0u32..(1 << names.len()) {
                let chosen: Vec<P> = (0..names.len()).filter(|i| mask >> i & 1 == 1).map(|i| P::C(names[i], Box::new(P::Unit))).collect();
                let mut variants: Vec<Vec<P>> = vec![chosen.clone()];
                if mask.count_ones() >= names.len() as u32 - 2 {
                    let mut rev = chosen.clone();
                    rev.reverse();
                    variants.push(rev);
                    let mut with_wild = chosen.clone();
                    with_wild.push(P::Wild);
                    variants.push(with_wild);
                }
                if tier == Tier::Quick && mask.count_ones() < names.len() as u32 - 3 && mask % 7 != 0 {
                    continue;
                }
                for arms in variants {
                    cases.push(MatchCase { ty: T::D("Digit"), arms: arms.clone() });
                    // nested: +K(<digit pattern>) arms plus the +J arm
                    let mut nested: Vec<P> = arms.iter().map(|p| P::C("+K", Box::new(p.clone()))).collect();
                    nested.push(P::C("+J", Box::new(P::Unit)));
                    cases.push(MatchCase { ty: T::D("WrapD"), arms: nested });
                }
            }
        }
        for ty in scrutinee_types() {
            let mut depth = 2;
            let mut pats = patterns(&ty, depth);
            if pats.len() > 40 {
                depth = 1;
                let shallow = patterns(&ty, depth);
                // keep all shallow patterns and every deep pattern that mentions >= 2 constructors
                pats.retain(|p| format!("{:?}", p).matches("C(").count() >= 2);
                pats.truncate(28);
                let mut all = shallow;
                all.extend(pats);
                pats = all;
            }
            // arm lists of length 0..k, k as large as the per-type budget allows
            let mut k = 0;
            let mut total = 1usize;
            while k < 4 && total * pats.len().max(1) + total <= budget {
                k += 1;
                total = total * pats.len().max(1) + 1;
            }
            let mut lists: Vec<Vec<P>> = vec![vec![]];
            let mut frontier: Vec<Vec<P>> = vec![vec![]];
            for _ in 0..k {
                let mut next = vec![];
                for l in &frontier {
                    for p in &pats {
                        let mut m = l.clone();
                        m.push(p.clone());
                        next.push(m);
                    }
                }
                lists.extend(next.iter().cloned());
                frontier = next;
            }
            for arms in lists {
                cases.push(MatchCase { ty: ty.clone(), arms });
            }
        }
        Matches { cases, chunk: 8, scratch: None }
    }

    fn program(case: &MatchCase, vals: &[Val]) -> String {
        let mut s = preamble();
        let tyt = ty_text(&case.ty);
        let mut f = String::from("match v");
        for (k, p) in case.arms.iter().enumerate() {
            let mut n = Namer(k * 10);
            f.push_str(&format!(" | {} => ret {}", pat_text(p, &mut n), k + 1));
        }
        f.push_str(" end");
        s.push_str(&format!("  let f : Thk ({} -> Ret Int64) = {{ fn (v : {}) => ({} : Ret Int64) }} in\n", if matches!(case.ty, T::Prod(_)) { format!("({})", tyt) } else { tyt.clone() }, tyt, f));
        for (i, v) in vals.iter().enumerate() {
            s.push_str(&format!("  do r{} <- ! f {};\n", i, {
                let t = val_text(v, &case.ty);
                if matches!(case.ty, T::D(_)) { format!("({} : {})", t, tyt) } else { t }
            }));
        }
        let rs: Vec<String> = (0..vals.len()).map(|i| format!("r{}", i)).collect();
        match rs.len() {
            | 0 => s.push_str("  ret ()\nend\n"),
            | 1 => s.push_str(&format!("  ret {}\nend\n", rs[0])),
            | _ => s.push_str(&format!("  ret ({})\nend\n", rs.join(", "))),
        }
        s
    }
}

/// does a reported missing pattern denote this value?
fn cov_matches(p: &CoveragePattern, v: &Val) -> bool {
    match (p, v) {
        | (CoveragePattern::Wildcard, _) => true,
        | (CoveragePattern::Unit, Val::Unit) => true,
        | (CoveragePattern::Constructor(name, q), Val::C(c, w)) => name.0.trim_start_matches('+') == c.trim_start_matches('+') && cov_matches(q, w),
        | (CoveragePattern::Product(items), Val::Tup(vs)) => {
            if items.len() == vs.len() {
                items.iter().zip(vs).all(|(p, v)| cov_matches(p, v))
            } else if items.len() < vs.len() && !items.is_empty() {
                // the last item stands for the remaining suffix
                let k = items.len() - 1;
                items[..k].iter().zip(vs).all(|(p, v)| cov_matches(p, v)) && cov_matches(&items[k], &Val::Tup(vs[k..].to_vec()))
            } else {
                false
            }
        }
        | (CoveragePattern::Named(_, q), v) => cov_matches(q, v),
        | (CoveragePattern::Package(q), v) => cov_matches(q, v),
        | _ => false,
    }
}

fn has_uninhabited_component(t: &T) -> bool {
    values(t, 2).is_empty()
}

impl Check for Matches {
    fn property(&self) -> &'static str {
        "C04"
    }
    fn name(&self) -> String {
        "c04-matches".into()
    }
    fn len(&self) -> usize {
        self.cases.len().div_ceil(self.chunk)
    }
    fn describe(&self, i: usize) -> String {
        let c = &self.cases[i * self.chunk];
        format!("match matrices #{}..#{}; first: scrutinee type {} with arms {:?}\n{}", i * self.chunk, (i + 1) * self.chunk, ty_text(&c.ty), c.arms, Matches::program(c, &values(&c.ty, 3)))
    }
    fn rule(&self) -> String {
        format!("for each of {} scrutinee types (sums, nested sums, flat/left-nested/3-ary products, named fields, a recursive Nat, unit, and three types with uninhabited components) every ordered arm list of length 0..k over all patterns of nesting depth <= 2 of that type (wildcard, variable, constructor, tuple, named, alias), k = the largest length whose total stays within the per-type budget ({} matrices); oracle = brute-force enumeration of every value (recursive types to depth 3): accepted iff every value is matched; every reported missing pattern denotes >= 1 unmatched value and, when not truncated, together they cover all unmatched values; for accepted matrices the interpreter is run on every value and must take the first matching arm; non-trivial = matrices with >= 2 arms one of which nests a constructor", scrutinee_types().len(), self.cases.len())
    }
    fn run(&mut self, i: usize) -> CaseResult {
        let scratch = self.scratch.get_or_insert_with(|| Scratch::new("c04"));
        let a = i * self.chunk;
        let b = ((i + 1) * self.chunk).min(self.cases.len());
        let mut r = CaseResult::ok("chunk").key(hash64(&format!("m{}", i)));
        let mut nontrivial = false;
        for case in &self.cases[a..b] {
            let vals = values(&case.ty, 3);
            if case.arms.len() >= 2 && case.arms.iter().any(|p| format!("{:?}", p).matches("C(").count() >= 2 || matches!(p, P::Tup(ps) if ps.iter().any(|q| matches!(q, P::C(..))))) {
                nontrivial = true;
            }
            let uncovered: Vec<&Val> = vals.iter().filter(|v| !case.arms.iter().any(|p| matches(p, v))).collect();
            let exhaustive = uncovered.is_empty();
            let text = Matches::program(case, &vals);
            let path = scratch.write("main.zydeco", &text);
            let res = guarded(|| {
                let session = CompilerSession::default();
                let result = session.analyze(&path);
                let verdict = verdict_of(&result);
                let coverage: Vec<CoverageError> = session.coverage(&path).unwrap_or_default();
                let run = if verdict.accepted() { Some(Subject { session, result }.run(b"", &[], 20_000)) } else { None };
                (verdict, coverage, run)
            });
            r = r.count("matrices", 1);
            let (verdict, coverage, run) = match res {
                | Ok(x) => x,
                | Err(p) => {
                    r = r.violation(format!("coverage analysis panicked at {}", crate::front::short_loc(&p.loc)), format!("{:?}\n{}", p, text));
                    continue;
                }
            };
            let uninhabited = has_uninhabited_component(&case.ty);
            let suffix = if uninhabited { " (scrutinee type with an uninhabited component)" } else { "" };
            match (&verdict, exhaustive) {
                | (Verdict::Checked, true) => {
                    r = r.count("accepted_exhaustive", 1);
                    // every value takes the first matching arm
                    let want: Vec<String> = vals.iter().map(|v| format!("Integer({})", case.arms.iter().position(|p| matches(p, v)).unwrap() + 1)).collect();
                    let expect = match want.len() {
                        | 0 => "()".to_string(),
                        | 1 => want[0].clone(),
                        | _ => format!("({})", want.join(",")),
                    };
                    match run.map(|r| r.end) {
                        | Some(RunEnd::Ret(s)) if s == expect => {}
                        | other => {
                            r = r.violation("an accepted match takes the wrong arm at run time", format!("expected arms {} got {:?}\n{}", expect, other, text));
                        }
                    }
                }
                | (Verdict::Checked, false) => {
                    r = r.violation(format!("non-exhaustive match accepted{suffix}"), format!("values not matched: {:?}\n{}", uncovered, text));
                }
                | (Verdict::Rejected(_), _) => {
                    let cov: Vec<&CoverageError> = coverage.iter().collect();
                    if cov.is_empty() {
                        r = r.violation("match rejected for a reason other than coverage (generator or checker problem)", format!("{:?}\n{}", verdict, text));
                        continue;
                    }
                    if exhaustive {
                        r = r.violation(format!("exhaustive match rejected as non-exhaustive{suffix}"), format!("{}\n{}", cov.iter().map(|c| c.to_string()).collect::<Vec<_>>().join("; "), text));
                        continue;
                    }
                    r = r.count("rejected_non_exhaustive", 1);
                    for c in cov {
                        if let CoverageError::NonExhaustiveMatch { missing, truncated, .. } = c {
                            for m in missing {
                                if !uncovered.iter().any(|v| cov_matches(m, v)) {
                                    r = r.violation(format!("reported missing pattern denotes no unmatched value{suffix}"), format!("missing pattern {} ; unmatched values {:?}\n{}", m, uncovered, text));
                                }
                            }
                            if !*truncated && missing.len() < 8 {
                                if let Some(v) = uncovered.iter().find(|v| !missing.iter().any(|m| cov_matches(m, v))) {
                                    r = r.violation(format!("reported missing patterns do not cover every unmatched value{suffix}"), format!("value {:?} is unmatched but not covered by {}\n{}", v, missing.iter().map(|m| m.to_string()).collect::<Vec<_>>().join(", "), text));
                                }
                            }
                        }
                    }
                }
                | (other, _) => {
                    r = r.violation("match program fails before type checking (generator problem)", format!("{:?}\n{}", other, text));
                }
            }
        }
        r.nontrivial = nontrivial;
        r
    }
}

/* ----------------------------------- comatch ----------------------------------- */

pub struct Comatches {
    cases: Vec<(usize, Vec<usize>)>,
    scratch: Option<Scratch>,
}
const CODATAS: [&[&str]; 4] = [&[], &[".a"], &[".a", ".b"], &[".a", ".b", ".c"]];
impl Comatches {
    pub fn new() -> Self {
        let mut cases = vec![];
        for (ci, dtors) in CODATAS.iter().enumerate() {
            let n = dtors.len().max(1) + 1; // arms may also use one destructor the type does not have
            let mut lists: Vec<Vec<usize>> = vec![vec![]];
            let mut frontier: Vec<Vec<usize>> = vec![vec![]];
            for _ in 0..4 {
                let mut next = vec![];
                for l in &frontier {
                    for d in 0..n.min(dtors.len() + 0).max(0) {
                        let mut m = l.clone();
                        m.push(d);
                        next.push(m);
                    }
                }
                lists.extend(next.iter().cloned());
                frontier = next;
            }
            for l in lists {
                cases.push((ci, l));
            }
        }
        Comatches { cases, scratch: None }
    }
    fn program(ci: usize, arms: &[usize]) -> String {
        let dtors = CODATAS[ci];
        let mut s = String::from("begin\n  let Ret = @(intrinsic(ret)) that\n  let Int64 = @(intrinsic(i64)) that\n");
        s.push_str(&format!("  let Cd = codata {} end that\n", dtors.iter().map(|d| format!("| {} : Ret Int64", d)).collect::<Vec<_>>().join(" ")));
        s.push_str("  (comatch");
        for (k, a) in arms.iter().enumerate() {
            s.push_str(&format!(" | {} => ret {}", dtors[*a], k + 1));
        }
        s.push_str(" end : Cd)\nend\n");
        s
    }
}
impl Check for Comatches {
    fn property(&self) -> &'static str {
        "C04"
    }
    fn name(&self) -> String {
        "c04-comatches".into()
    }
    fn len(&self) -> usize {
        self.cases.len()
    }
    fn describe(&self, i: usize) -> String {
        Comatches::program(self.cases[i].0, &self.cases[i].1)
    }
    fn rule(&self) -> String {
        "every codata type with 0..3 destructors x every ordered arm list of length 0..4 over its destructors; oracle: accepted iff the arm list is a permutation of the destructor set (one arm each, none twice); when accepted each destructor selects its own arm at run time; non-trivial = arm lists of length >= 2".into()
    }
    fn run(&mut self, i: usize) -> CaseResult {
        let scratch = self.scratch.get_or_insert_with(|| Scratch::new("c04c"));
        let (ci, arms) = self.cases[i].clone();
        let dtors = CODATAS[ci];
        let text = Comatches::program(ci, &arms);
        let path = scratch.write("main.zydeco", &text);
        let mut sorted = arms.clone();
        sorted.sort();
        let expected_ok = sorted == (0..dtors.len()).collect::<Vec<_>>();
        let mut r = CaseResult::ok("comatch").key(hash64(&text)).nontrivial(arms.len() >= 2);
        match guarded(|| Subject::analyze(&path).verdict()) {
            | Ok(v) => {
                if v.accepted() != expected_ok {
                    r = r.violation(
                        if expected_ok { "complete comatch rejected" } else { "comatch with a missing or duplicated destructor arm accepted" },
                        format!("{:?}\n{}", v, text),
                    );
                } else if expected_ok {
                    // each destructor selects its own arm
                    for (d, name) in dtors.iter().enumerate() {
                        let t2 = text.replace(" end : Cd)\nend\n", &format!(" end : Cd) {}\nend\n", name));
                        let p2 = scratch.write("main.zydeco", &t2);
                        let want = format!("Integer({})", arms.iter().position(|a| *a == d).unwrap() + 1);
                        match guarded(|| Subject::analyze(&p2).run(b"", &[], 1000)) {
                            | Ok(run) if run.end == RunEnd::Ret(want.clone()) => {}
                            | other => r = r.violation("destructor selects the wrong comatch arm", format!("{} expected {} got {:?}\n{}", name, want, other.map(|r| r.end), t2)),
                        }
                    }
                }
                r.class = format!("comatch-{}", v.tag());
            }
            | Err(p) => r = r.violation(format!("comatch analysis panicked at {}", crate::front::short_loc(&p.loc)), format!("{:?}\n{}", p, text)),
        }
        r
    }
}

/* ------------------------------ generalized copatterns ------------------------------ */

/// Clause spines over `O = codata | .a : Ret Int64 | .b : P | .f : Two -> Ret Int64 end` with
/// `P = codata | .c : Ret Int64 | .d : Ret Int64 end`: destructor paths and argument patterns.
const SPINES: [&str; 8] = [".a", ".b", ".b .c", ".b .d", ".f x", ".f _", ".f (+T())", ".f (+F())"];

pub struct Copatterns {
    lists: Vec<Vec<usize>>,
    chunk: usize,
}
impl Copatterns {
    pub fn new(tier: Tier) -> Self {
        let max = if tier == Tier::Thorough { 6 } else { 5 };
        let mut lists: Vec<Vec<usize>> = vec![vec![]];
        let mut frontier: Vec<Vec<usize>> = vec![vec![]];
        for _ in 0..max {
            let mut next = vec![];
            for l in &frontier {
                for k in 0..SPINES.len() {
                    let mut m = l.clone();
                    m.push(k);
                    next.push(m);
                }
            }
            lists.extend(next.iter().cloned());
            frontier = next;
        }
        Copatterns { lists, chunk: 32 }
    }
    fn text(list: &[usize], observe: &str) -> String {
        let clauses: Vec<String> = list
            .iter()
            .enumerate()
            .map(|(i, k)| {
                let body = if *k == 1 { format!("comatch | .c => ret {} | .d => ret {} end", 100 + 10 * i + 1, 100 + 10 * i + 2) } else { format!("ret {}", i + 1) };
                format!("| {} => {}", SPINES[*k], body)
            })
            .collect();
        format!(
            "let Ret = @(intrinsic(ret)) in let Thk = @(intrinsic(thk)) in let Unit = @(intrinsic(unit)) in let Int64 = @(intrinsic(i64)) in let Two = data | +T : Unit | +F : Unit end in let P = codata | .c : Ret Int64 | .d : Ret Int64 end in let O = codata | .a : Ret Int64 | .b : P | .f : Two -> Ret Int64 end in let o : Thk O = {{ comatch {} end }} in {}",
            clauses.join(" "),
            observe
        )
    }
    /// reference: (accepted?, expected results of the five observations when accepted)
    fn reference(list: &[usize]) -> (bool, Vec<i64>) {
        let pos = |k: usize| -> Vec<usize> { list.iter().enumerate().filter(|(_, s)| **s == k).map(|(i, _)| i).collect() };
        let a = pos(0);
        let b = pos(1);
        let bc = pos(2);
        let bd = pos(3);
        let f: Vec<(usize, usize)> = list.iter().enumerate().filter(|(_, s)| **s >= 4).map(|(i, s)| (i, *s)).collect();
        // .a: exactly one clause
        if a.len() != 1 {
            return (false, vec![]);
        }
        // .b: one whole clause, or exactly one clause for each of .c and .d (never both styles)
        let b_ok = (b.len() == 1 && bc.is_empty() && bd.is_empty()) || (b.is_empty() && bc.len() == 1 && bd.len() == 1);
        if !b_ok {
            return (false, vec![]);
        }
        // .f: the argument patterns, tried in order, must cover both constructors
        let first = |ctor: usize| -> Option<usize> { f.iter().find(|(_, s)| *s == 4 || *s == 5 || *s == ctor).map(|(i, _)| *i) };
        let (Some(ft), Some(ff)) = (first(6), first(7)) else { return (false, vec![]) };
        let rb = |sub: i64| -> i64 { if b.len() == 1 { 100 + 10 * b[0] as i64 + sub } else if sub == 1 { bc[0] as i64 + 1 } else { bd[0] as i64 + 1 } };
        (true, vec![a[0] as i64 + 1, rb(1), rb(2), ft as i64 + 1, ff as i64 + 1])
    }
}
const OBSERVATIONS: [&str; 5] = ["! o .a", "! o .b .c", "! o .b .d", "! o .f (+T() : Two)", "! o .f (+F() : Two)"];

impl Check for Copatterns {
    fn property(&self) -> &'static str {
        "C04"
    }
    fn name(&self) -> String {
        "c04-copatterns".into()
    }
    fn len(&self) -> usize {
        self.lists.len().div_ceil(self.chunk)
    }
    fn describe(&self, i: usize) -> String {
        format!("clause lists #{}..; first:\n{}", i * self.chunk, Self::text(&self.lists[i * self.chunk], OBSERVATIONS[0]))
    }
    fn rule(&self) -> String {
        format!("every ordered list of <= 5 (thorough 6) generalized comatch clauses over the spines {:?} (destructor paths through a nested codata type, a whole-subobject clause, and a function destructor with variable / wildcard / constructor argument patterns) at O = codata | .a : Ret Int64 | .b : P | .f : Two -> Ret Int64 end ({} lists); oracle: accepted iff .a has exactly one clause, .b has either one whole clause or exactly one clause for each of .b .c and .b .d (never both styles), and the argument patterns of the .f clauses cover both constructors (redundant later clauses are allowed, first match wins); when accepted, each of the five observations returns the number of the clause the reference selects; non-trivial = lists of length >= 3", SPINES, self.lists.len())
    }
    fn timeout(&self) -> std::time::Duration {
        std::time::Duration::from_secs(120)
    }
    fn run(&mut self, i: usize) -> CaseResult {
        let scratch = Scratch::new("c04cop");
        let a = i * self.chunk;
        let b = (a + self.chunk).min(self.lists.len());
        let mut r = CaseResult::ok("chunk").key(i as u64).nontrivial(self.lists[a].len() >= 3);
        for list in &self.lists[a..b] {
            let (want_acc, want_res) = Self::reference(list);
            r = r.count("clause_lists", 1).count("reference_accepts", want_acc as u64);
            for (k, obs) in OBSERVATIONS.iter().enumerate() {
                // acceptance does not depend on the observation: decide it on the first, run the rest only when accepted
                if k > 0 && !want_acc {
                    break;
                }
                let text = Self::text(list, obs);
                let path = scratch.write("main.zydeco", &text);
                match guarded(|| {
                    let s = Subject::analyze(&path);
                    let v = s.verdict();
                    let run = if v.accepted() { Some(s.run(b"", &[], 2000)) } else { None };
                    (v, run)
                }) {
                    | Err(p) => {
                        r = r.violation(format!("checker panics on a comatch clause list: {}", crate::front::short_msg(&p.msg)), format!("{:?}\n{}", p, text));
                        break;
                    }
                    | Ok((v, run)) => {
                        if v.accepted() != want_acc {
                            r = r.violation(if want_acc { "a complete, non-overlapping comatch clause list is rejected".to_string() } else { "an incomplete or overlapping comatch clause list is accepted".to_string() }, format!("{:?}\n{}", v, text));
                            break;
                        }
                        if let Some(run) = run {
                            let want = format!("Integer({})", want_res[k]);
                            match &run.end {
                                | RunEnd::Ret(got) if *got == want => {}
                                | other => r = r.violation("an observation of an accepted comatch selects the wrong clause".to_string(), format!("{obs}: got {:?}, expected {want}\n{}", other, text)),
                            }
                        }
                    }
                }
            }
        }
        r
    }
}

/* ------------------------------ binder patterns (one-row matrices) ------------------------------ */

/// A pattern in binder position (`let`, `do`, function parameter, value-level `let`, pure function
/// parameter) has no other arm to fall through to: it is a one-row matrix and must be accepted
/// exactly when it matches every value of its type.
pub struct Binders {
    cases: Vec<(T, P, usize)>,
    chunk: usize,
    scratch: Option<Scratch>,
}
const BINDER_FORMS: [&str; 6] = ["let", "do", "fn", "value-let", "value-fn", "single-arm-match"];
impl Binders {
    pub fn new() -> Self {
        let mut cases = vec![];
        for ty in scrutinee_types() {
            for p in patterns(&ty, 2) {
                for b in 0..BINDER_FORMS.len() {
                    cases.push((ty.clone(), p.clone(), b));
                }
                // every tuple pattern also as a member of an alias pattern, refutable ones included: the
                // checker rejects those by its own rule today; if it ever accepts one, coverage must see it
                if matches!(p, P::Tup(_)) && !matches!(p, P::Tup(ref c) if c.iter().all(|q| *q == P::Wild)) {
                    for b in 0..BINDER_FORMS.len() {
                        cases.push((ty.clone(), P::Alias(Box::new(p.clone())), b));
                    }
                }
            }
        }
        Binders { cases, chunk: 8, scratch: None }
    }
    fn program(ty: &T, p: &P, b: usize, vals: &[Val]) -> String {
        let mut s = preamble();
        let tyt = ty_text(ty);
        let dom = if matches!(ty, T::Prod(_)) { format!("({})", tyt) } else { tyt.clone() };
        let pt = pat_text(p, &mut Namer(0));
        let f = match BINDER_FORMS[b] {
            | "let" => format!("{{ fn (v : {tyt}) => let {pt} = v in ret 1 }}"),
            | "do" => format!("{{ fn (v : {tyt}) => do {pt} <- ret v; ret 1 }}"),
            | "fn" => format!("{{ fn (v : {tyt}) => (fn ({pt} : {tyt}) => ret 1) v }}"),
            | "value-let" => format!("{{ fn (v : {tyt}) => ret (let {pt} = v in 1) }}"),
            | "single-arm-match" => format!("{{ fn (v : {tyt}) => match v | {pt} => ret 1 end }}"),
            | _ => format!("{{ fn (v : {tyt}) => let g : {dom} -> Int64 = fn ({pt} : {tyt}) => 1 in ret (g v) }}"),
        };
        s.push_str(&format!("  let f : Thk ({dom} -> Ret Int64) = {f} in\n"));
        for (i, v) in vals.iter().enumerate() {
            s.push_str(&format!("  do r{} <- ! f {};\n", i, {
                let t = val_text(v, ty);
                if matches!(ty, T::D(_)) { format!("({} : {})", t, tyt) } else { t }
            }));
        }
        s.push_str("  ret 0\nend\n");
        s
    }
}
impl Check for Binders {
    fn property(&self) -> &'static str {
        "C04"
    }
    fn name(&self) -> String {
        "c04-binders".into()
    }
    fn len(&self) -> usize {
        self.cases.len().div_ceil(self.chunk)
    }
    fn describe(&self, i: usize) -> String {
        let (ty, p, b) = &self.cases[i * self.chunk];
        format!("binder patterns #{}..#{}; first: {} binder, type {}, pattern {:?}\n{}", i * self.chunk, (i + 1) * self.chunk, BINDER_FORMS[*b], ty_text(ty), p, Binders::program(ty, p, *b, &values(ty, 3)))
    }
    fn rule(&self) -> String {
        format!("every pattern of nesting depth <= 2 over each of the {} scrutinee types of c04-matches, in each of 6 one-row positions (let, do, function parameter, value-level let, pure function parameter, single-arm match), every tuple pattern also as a member of an alias pattern ({} binders); oracle = brute-force enumeration of every value: accepted iff the pattern matches every value of the type; a rejection carries a coverage diagnostic whose missing patterns denote unmatched values; an accepted binder runs on every value without failing; types with uninhabited components are judged only for soundness; non-trivial = patterns that nest a constructor", scrutinee_types().len(), self.cases.len())
    }
    fn run(&mut self, i: usize) -> CaseResult {
        let scratch = self.scratch.get_or_insert_with(|| Scratch::new("c04b"));
        let a = i * self.chunk;
        let b = ((i + 1) * self.chunk).min(self.cases.len());
        let mut r = CaseResult::ok("chunk").key(hash64(&format!("bd{}", i)));
        let mut nontrivial = false;
        for (ty, p, form) in &self.cases[a..b] {
            let vals = values(ty, 3);
            if format!("{:?}", p).contains("C(") {
                nontrivial = true;
            }
            let uncovered: Vec<&Val> = vals.iter().filter(|v| !matches(p, v)).collect();
            let irrefutable = uncovered.is_empty();
            let text = Binders::program(ty, p, *form, &vals);
            let path = scratch.write("main.zydeco", &text);
            let res = guarded(|| {
                let session = CompilerSession::default();
                let result = session.analyze(&path);
                let verdict = verdict_of(&result);
                let coverage: Vec<CoverageError> = session.coverage(&path).unwrap_or_default();
                let run = if verdict.accepted() { Some(Subject { session, result }.run(b"", &[], 20_000)) } else { None };
                (verdict, coverage, run)
            });
            r = r.count("binders", 1);
            let (verdict, coverage, run) = match res {
                | Ok(x) => x,
                | Err(p) => {
                    r = r.violation(format!("coverage analysis panicked at {}", crate::front::short_loc(&p.loc)), format!("{:?}\n{}", p, text));
                    continue;
                }
            };
            let uninhabited = has_uninhabited_component(ty);
            let suffix = if uninhabited { " (type with an uninhabited component)" } else { "" };
            let form_name = BINDER_FORMS[*form];
            match (&verdict, irrefutable) {
                | (Verdict::Checked, true) => {
                    r = r.count("accepted_irrefutable", 1);
                    match run.map(|r| r.end) {
                        | Some(RunEnd::Ret(s)) if s == "Integer(0)" => {}
                        | other => r = r.violation(format!("an accepted irrefutable binder fails at run time ({form_name})"), format!("{:?}\n{}", other, text)),
                    }
                }
                | (Verdict::Checked, false) => {
                    r = r.violation(format!("refutable pattern accepted in binder position ({form_name}){suffix}"), format!("values not matched: {:?}\n{}", uncovered, text));
                }
                | (Verdict::Rejected(_), _) => {
                    if coverage.is_empty() {
                        // alias patterns with constructor members etc. are rejected by the pattern rules themselves
                        r = r.count("rejected_for_another_reason", 1);
                        continue;
                    }
                    if irrefutable && uninhabited {
                        // the known C04 finding (coverage counts constructors whose payload type is empty); only soundness is judged here
                        r = r.count("rejected_on_a_type_with_an_uninhabited_component", 1);
                        continue;
                    }
                    if irrefutable {
                        r = r.violation(format!("irrefutable pattern rejected in binder position ({form_name}){suffix}"), format!("{}\n{}", coverage.iter().map(|c| c.to_string()).collect::<Vec<_>>().join("; "), text));
                        continue;
                    }
                    r = r.count("rejected_refutable", 1);
                    for c in &coverage {
                        if let CoverageError::RefutableBinder { missing, .. } = c {
                            for m in missing {
                                if !uncovered.iter().any(|v| cov_matches(m, v)) {
                                    r = r.violation(format!("reported missing pattern of a binder denotes no unmatched value{suffix}"), format!("missing pattern {} ; unmatched values {:?}\n{}", m, uncovered, text));
                                }
                            }
                        }
                    }
                }
                | (other, _) => {
                    r = r.violation("binder program fails before type checking (generator problem)", format!("{:?}\n{}", other, text));
                }
            }
        }
        r.nontrivial = nontrivial;
        r
    }
}

pub fn checks(tier: Tier) -> Vec<Box<dyn Check>> {
    vec![Box::new(Matches::new(tier)), Box::new(Comatches::new()), Box::new(Copatterns::new(tier)), Box::new(Binders::new())]
}
