//! E1 — harness-internal, explicitly typed CBPV core language: types, terms, declarations,
//! reference big-step evaluator (written from the CBPV semantics, independent of the repository's
//! interpreter), and the source printer.
use std::collections::BTreeMap;
use std::rc::Rc;

/* ----------------------------------- types ----------------------------------- */

#[derive(Clone, Debug, PartialEq, Eq, Hash, PartialOrd, Ord)]
pub enum VT {
    Unit,
    Int,
    Str,
    /// declared data type (index into DATA)
    Data(usize),
    /// binary-or-wider product; components may be Named
    Prod(Vec<VT>),
    Named(String, Box<VT>),
    Thk(Box<CT>),
}

#[derive(Clone, Debug, PartialEq, Eq, Hash, PartialOrd, Ord)]
pub enum CT {
    Ret(Box<VT>),
    Fn(Box<VT>, Box<CT>),
    Codata(usize),
    /// the host's `OS` computation type (executable slice)
    Os,
}

pub fn ret(t: VT) -> CT {
    CT::Ret(Box::new(t))
}
pub fn func(a: VT, b: CT) -> CT {
    CT::Fn(Box::new(a), Box::new(b))
}
pub fn thk(c: CT) -> VT {
    VT::Thk(Box::new(c))
}
pub fn named(l: &str, t: VT) -> VT {
    VT::Named(l.to_string(), Box::new(t))
}

pub struct DataDecl {
    pub name: &'static str,
    pub recursive: bool,
    pub ctors: Vec<(&'static str, VT)>,
}
pub struct CodataDecl {
    pub name: &'static str,
    pub recursive: bool,
    pub dtors: Vec<(&'static str, CT)>,
}

pub const BOOL: usize = 0;
pub const OPT: usize = 1;
pub const NAT: usize = 2;
pub const TWO: usize = 3;
pub const LIST: usize = 4;
/// same constructors as BOOL in the opposite declaration order (C19: tags)
pub const BOOL_REV: usize = 5;
/// one constructor holding a pair of booleans (nested refutable patterns)
pub const PB: usize = 6;
/// a strict superset of BOOL's constructors (definite-error mutants, width relations)
pub const BIG3: usize = 7;
/// one constructor with a flat three-component payload of mixed types (C20: tuple patterns of width 3)
pub const BOX3: usize = 8;

pub fn data_decls() -> Vec<DataDecl> {
    vec![
        DataDecl { name: "Bool", recursive: false, ctors: vec![("+T", VT::Unit), ("+F", VT::Unit)] },
        DataDecl { name: "Opt", recursive: false, ctors: vec![("+None", VT::Unit), ("+Some", VT::Int)] },
        DataDecl { name: "Nat", recursive: true, ctors: vec![("+Z", VT::Unit), ("+S", VT::Data(NAT))] },
        DataDecl { name: "Two", recursive: false, ctors: vec![("+L", VT::Int), ("+R", VT::Prod(vec![VT::Int, VT::Data(BOOL)]))] },
        DataDecl { name: "List", recursive: true, ctors: vec![("+Nil", VT::Unit), ("+Cons", VT::Prod(vec![VT::Int, VT::Data(LIST)]))] },
        DataDecl { name: "BoolR", recursive: false, ctors: vec![("+F", VT::Unit), ("+T", VT::Unit)] },
        DataDecl { name: "PB", recursive: false, ctors: vec![("+P", VT::Prod(vec![VT::Data(BOOL), VT::Data(BOOL)]))] },
        DataDecl { name: "Big3", recursive: false, ctors: vec![("+T", VT::Unit), ("+F", VT::Unit), ("+U", VT::Unit)] },
        DataDecl { name: "Box3", recursive: false, ctors: vec![("+Box", VT::Prod(vec![VT::Int, VT::Data(BOOL), VT::Int]))] },
    ]
}

pub const OBJ: usize = 0;
pub const STREAM: usize = 1;
pub const OBJ_REV: usize = 2;
/// shares the destructor name `.get` with OBJ, at a different position/rank
pub const CELL: usize = 3;
/// a one-destructor function object (cheap in-place comatch elimination)
pub const FUN1: usize = 4;

pub fn codata_decls() -> Vec<CodataDecl> {
    vec![
        CodataDecl { name: "Obj", recursive: false, dtors: vec![(".get", ret(VT::Int)), (".app", func(VT::Int, ret(VT::Int))), (".flag", ret(VT::Data(BOOL)))] },
        CodataDecl { name: "Stream", recursive: true, dtors: vec![(".hd", ret(VT::Int)), (".tl", CT::Codata(STREAM))] },
        CodataDecl { name: "ObjR", recursive: false, dtors: vec![(".flag", ret(VT::Data(BOOL))), (".app", func(VT::Int, ret(VT::Int))), (".get", ret(VT::Int))] },
        CodataDecl { name: "Cell", recursive: false, dtors: vec![(".get", ret(VT::Int)), (".hop", ret(VT::Int)), (".zip", ret(VT::Int))] },
        CodataDecl { name: "Fun1", recursive: false, dtors: vec![(".call", func(VT::Int, ret(VT::Int)))] },
    ]
}

/* ----------------------------------- terms ----------------------------------- */

pub type Var = u32;

#[derive(Clone, Debug, PartialEq, Eq, Hash)]
pub enum Pat {
    Wild(VT),
    Var(Var, VT),
    Unit,
    Tuple(Vec<Pat>),
    Named(String, Box<Pat>),
    Ctor(usize, usize, Box<Pat>),
    /// `(p1; p2)`: both observe the same value
    Alias(Box<Pat>, Box<Pat>),
    /// `(/l = p)`: p observes the component named `l` (position, whole product type) of the bindee
    Project(String, usize, VT, Box<Pat>),
}

#[derive(Clone, Debug, PartialEq, Eq, Hash)]
pub enum V {
    Var(Var),
    Unit,
    Int(i64),
    Str(String),
    Tuple(Vec<V>),
    Named(String, Box<V>),
    /// projection of the component labelled `l` out of a product value of the given type
    Proj(Box<V>, String, VT),
    Thunk(Box<C>, CT),
    Ctor(usize, usize, Box<V>),
}

#[derive(Clone, Debug, PartialEq, Eq, Hash)]
pub enum Op {
    Add,
    Sub,
    Mul,
    Div,
}

#[derive(Clone, Debug, PartialEq, Eq, Hash)]
pub enum C {
    Ret(V),
    Do(Pat, Box<C>, Box<C>),
    Let(Pat, V, VT, Box<C>),
    Fn(Pat, Box<C>),
    App(Box<C>, V),
    Force(V),
    Match(V, usize, Vec<(Pat, C)>),
    Comatch(usize, Vec<C>),
    Dtor(Box<C>, usize, usize),
    /// `fix (f : Thk B) => body`
    Fix(Var, CT, Box<C>),
    /// ascription
    Ann(Box<C>, CT),
    /* executable slice: host operations through the Builtin package */
    /// `! write_int v { k }`
    WriteInt(V, Box<C>),
    /// `! write_line v { k }`
    WriteLine(V, Box<C>),
    /// `! int_<op> a b` : Ret Int
    Arith(Op, V, V),
    /// `! int_lt/eq a b { then } { else }`
    IfLt(V, V, CT, Box<C>, Box<C>),
    IfEq(V, V, CT, Box<C>, Box<C>),
    /// `! exit v`
    Exit(V),
    /// `! read_line { fn line => k }` binding `line : Str`
    ReadLine(Var, Box<C>),
}

/* ----------------------------- reference evaluator ----------------------------- */

#[derive(Clone, Debug)]
pub enum RV {
    Unit,
    Int(i64),
    Str(String),
    Tuple(Vec<RV>),
    Ctor(String, Box<RV>),
    Thunk(Rc<C>, REnv),
    /// recursive thunk created by `fix`
    FixThunk(Var, Rc<C>, REnv),
}

/// Environments are persistent maps keyed by binder identity (binder ids are lexical levels, so an
/// environment never holds more entries than the nesting depth).
pub type REnv = im::OrdMap<Var, RV>;
fn lookup(env: &REnv, x: Var) -> Option<RV> {
    env.get(&x).cloned()
}
fn extend(env: &REnv, x: Var, v: RV) -> REnv {
    env.update(x, v)
}

#[derive(Clone, Debug, PartialEq)]
pub enum REnd {
    Ret(String),
    Exit(i32),
    TrapDiv,
    OutOfFuel,
    /// the reference itself got stuck: a harness bug (never a verdict on the subject)
    Stuck(String),
}

#[derive(Clone, Debug, PartialEq)]
pub struct RResult {
    pub end: REnd,
    pub output: Vec<u8>,
}

/// Terminal computations of the big-step evaluator.
enum Term {
    /// `ret v`
    Ret(RV),
    /// a lambda or comatch waiting for its stack: returned only at the top level or to `apply`
    Abs(Rc<C>, REnv),
}

pub struct Machine<'a> {
    pub fuel: u64,
    pub out: Vec<u8>,
    pub stdin: &'a [u8],
    pub pos: usize,
    data: Vec<DataDecl>,
    codata: Vec<CodataDecl>,
}

enum Stop {
    Exit(i32),
    TrapDiv,
    OutOfFuel,
    Stuck(String),
}

/// Stack frames (CK machine style, but over the harness AST and written independently).
enum Frame {
    Arg(RV),
    Dtor(usize, usize),
    Kont(Pat, Rc<C>, REnv),
}

impl<'a> Machine<'a> {
    pub fn new(fuel: u64, stdin: &'a [u8]) -> Self {
        Machine { fuel, out: vec![], stdin, pos: 0, data: data_decls(), codata: codata_decls() }
    }

    fn value(&self, v: &V, env: &REnv) -> Result<RV, Stop> {
        Ok(match v {
            | V::Var(x) => lookup(env, *x).ok_or_else(|| Stop::Stuck(format!("unbound v{x}")))?,
            | V::Unit => RV::Unit,
            | V::Int(n) => RV::Int(*n),
            | V::Str(s) => RV::Str(s.clone()),
            | V::Tuple(vs) => RV::Tuple(vs.iter().map(|v| self.value(v, env)).collect::<Result<_, _>>()?),
            | V::Named(_, v) => self.value(v, env)?,
            | V::Proj(v, l, ty) => {
                let rv = self.value(v, env)?;
                let VT::Prod(comps) = ty else { return Err(Stop::Stuck("projection from non-product".into())) };
                let k = comps
                    .iter()
                    .position(|c| matches!(c, VT::Named(n, _) if n == l))
                    .ok_or_else(|| Stop::Stuck("no such label".into()))?;
                let RV::Tuple(items) = rv else { return Err(Stop::Stuck("projection from non-tuple".into())) };
                items.get(k).cloned().ok_or_else(|| Stop::Stuck("projection out of range".into()))?
            }
            | V::Thunk(c, _) => RV::Thunk(Rc::new((**c).clone()), env.clone()),
            | V::Ctor(d, k, v) => RV::Ctor(self.data[*d].ctors[*k].0.to_string(), Box::new(self.value(v, env)?)),
        })
    }

    /// Bind a pattern; None = refutable mismatch.
    fn bind(&self, p: &Pat, v: &RV, env: &REnv) -> Result<Option<REnv>, Stop> {
        Ok(match (p, v) {
            | (Pat::Wild(_), _) => Some(env.clone()),
            | (Pat::Var(x, _), v) => Some(extend(env, *x, v.clone())),
            | (Pat::Unit, RV::Unit) => Some(env.clone()),
            | (Pat::Tuple(ps), RV::Tuple(vs)) if ps.len() == vs.len() => {
                let mut e = env.clone();
                for (p, v) in ps.iter().zip(vs) {
                    match self.bind(p, v, &e)? {
                        | Some(e2) => e = e2,
                        | None => return Ok(None),
                    }
                }
                Some(e)
            }
            | (Pat::Named(_, p), v) => self.bind(p, v, env)?,
            | (Pat::Ctor(d, k, p), RV::Ctor(name, payload)) => {
                if self.data[*d].ctors[*k].0 == name {
                    self.bind(p, payload, env)?
                } else {
                    None
                }
            }
            | (Pat::Alias(a, b), v) => match self.bind(a, v, env)? {
                | Some(e) => self.bind(b, v, &e)?,
                | None => None,
            },
            | (Pat::Project(_, k, _, p), RV::Tuple(vs)) if *k < vs.len() => self.bind(p, &vs[*k], env)?,
            | (p, v) => return Err(Stop::Stuck(format!("pattern {:?} against value {:?}", p, v))),
        })
    }

    fn read_line(&mut self) -> String {
        let rest = &self.stdin[self.pos..];
        let end = rest.iter().position(|b| *b == b'\n').map(|i| i + 1).unwrap_or(rest.len());
        let line = &rest[..end];
        self.pos += end;
        let mut s = String::from_utf8_lossy(line).to_string();
        if s.ends_with('\n') {
            s.pop();
            if s.ends_with('\r') {
                s.pop();
            }
        }
        s
    }

    fn run_inner(&mut self, c: Rc<C>, env: REnv) -> Result<RV, Stop> {
        let mut stack: Vec<Frame> = vec![];
        let mut cur = c;
        let mut env = env;
        loop {
            if self.fuel == 0 {
                return Err(Stop::OutOfFuel);
            }
            self.fuel -= 1;
            let node = cur.clone();
            match node.as_ref() {
                | C::Ret(v) => {
                    let rv = self.value(v, &env)?;
                    match stack.pop() {
                        | None => return Ok(rv),
                        | Some(Frame::Kont(p, k, kenv)) => {
                            env = self
                                .bind(&p, &rv, &kenv)?
                                .ok_or_else(|| Stop::Stuck("irrefutable pattern failed in do".into()))?;
                            cur = k;
                        }
                        | Some(_) => return Err(Stop::Stuck("ret with an argument on the stack".into())),
                    }
                }
                | C::Do(p, c1, c2) => {
                    stack.push(Frame::Kont(p.clone(), Rc::new((**c2).clone()), env.clone()));
                    cur = Rc::new((**c1).clone());
                }
                | C::Let(p, v, _, body) => {
                    let rv = self.value(v, &env)?;
                    env = self.bind(p, &rv, &env)?.ok_or_else(|| Stop::Stuck("irrefutable pattern failed in let".into()))?;
                    cur = Rc::new((**body).clone());
                }
                | C::Fn(p, body) => match stack.pop() {
                    | Some(Frame::Arg(a)) => {
                        env = self.bind(p, &a, &env)?.ok_or_else(|| Stop::Stuck("irrefutable pattern failed in fn".into()))?;
                        cur = Rc::new((**body).clone());
                    }
                    | _ => return Err(Stop::Stuck("fn without an argument".into())),
                },
                | C::App(f, v) => {
                    let a = self.value(v, &env)?;
                    stack.push(Frame::Arg(a));
                    cur = Rc::new((**f).clone());
                }
                | C::Force(v) => match self.value(v, &env)? {
                    | RV::Thunk(body, tenv) => {
                        env = tenv;
                        cur = body;
                    }
                    | RV::FixThunk(f, body, tenv) => {
                        env = extend(&tenv, f, RV::FixThunk(f, body.clone(), tenv.clone()));
                        cur = body;
                    }
                    | other => return Err(Stop::Stuck(format!("force of {:?}", other))),
                },
                | C::Match(v, _, arms) => {
                    let rv = self.value(v, &env)?;
                    let mut taken = None;
                    for (p, body) in arms {
                        if let Some(e) = self.bind(p, &rv, &env)? {
                            taken = Some((e, body));
                            break;
                        }
                    }
                    match taken {
                        | Some((e, body)) => {
                            env = e;
                            cur = Rc::new(body.clone());
                        }
                        | None => return Err(Stop::Stuck("no matching arm".into())),
                    }
                }
                | C::Comatch(d, arms) => match stack.pop() {
                    // a destructor selects the same-named arm (the observing type may list them in another order)
                    | Some(Frame::Dtor(ud, k)) => {
                        let name = self.codata[ud].dtors[k].0;
                        match self.codata[*d].dtors.iter().position(|(n, _)| *n == name) {
                            | Some(j) => cur = Rc::new(arms[j].clone()),
                            | None => return Err(Stop::Stuck("no arm for destructor".into())),
                        }
                    }
                    | _ => return Err(Stop::Stuck("comatch without a destructor".into())),
                },
                | C::Dtor(body, d, k) => {
                    stack.push(Frame::Dtor(*d, *k));
                    cur = Rc::new((**body).clone());
                }
                | C::Fix(f, _, body) => {
                    let body = Rc::new((**body).clone());
                    env = extend(&env, *f, RV::FixThunk(*f, body.clone(), env.clone()));
                    cur = body;
                }
                | C::Ann(c, _) => cur = Rc::new((**c).clone()),
                | C::WriteInt(v, k) => {
                    let RV::Int(n) = self.value(v, &env)? else { return Err(Stop::Stuck("write_int of non-int".into())) };
                    self.out.extend_from_slice(format!("{}", n).as_bytes());
                    cur = Rc::new((**k).clone());
                }
                | C::WriteLine(v, k) => {
                    let RV::Str(s) = self.value(v, &env)? else { return Err(Stop::Stuck("write_line of non-string".into())) };
                    self.out.extend_from_slice(s.as_bytes());
                    self.out.push(b'\n');
                    cur = Rc::new((**k).clone());
                }
                | C::Arith(op, a, b) => {
                    let (RV::Int(a), RV::Int(b)) = (self.value(a, &env)?, self.value(b, &env)?) else {
                        return Err(Stop::Stuck("arith on non-int".into()));
                    };
                    let r = match op {
                        | Op::Add => a.wrapping_add(b),
                        | Op::Sub => a.wrapping_sub(b),
                        | Op::Mul => a.wrapping_mul(b),
                        | Op::Div => {
                            if b == 0 {
                                return Err(Stop::TrapDiv);
                            }
                            a.wrapping_div(b)
                        }
                    };
                    // `ret r` to the continuation
                    match stack.pop() {
                        | None => return Ok(RV::Int(r)),
                        | Some(Frame::Kont(p, k, kenv)) => {
                            env = self.bind(&p, &RV::Int(r), &kenv)?.ok_or_else(|| Stop::Stuck("pattern failed after arith".into()))?;
                            cur = k;
                        }
                        | Some(_) => return Err(Stop::Stuck("arith with an argument on the stack".into())),
                    }
                }
                | C::IfLt(a, b, _, t, e) | C::IfEq(a, b, _, t, e) => {
                    let (RV::Int(x), RV::Int(y)) = (self.value(a, &env)?, self.value(b, &env)?) else {
                        return Err(Stop::Stuck("comparison on non-int".into()));
                    };
                    let cond = if matches!(node.as_ref(), C::IfLt(..)) { x < y } else { x == y };
                    cur = Rc::new(if cond { (**t).clone() } else { (**e).clone() });
                }
                | C::Exit(v) => {
                    let RV::Int(n) = self.value(v, &env)? else { return Err(Stop::Stuck("exit of non-int".into())) };
                    return Err(Stop::Exit(n as i32));
                }
                | C::ReadLine(x, k) => {
                    let line = self.read_line();
                    env = extend(&env, *x, RV::Str(line));
                    cur = Rc::new((**k).clone());
                }
            }
        }
    }

    pub fn run(mut self, c: &C) -> RResult {
        let end = match self.run_inner(Rc::new(c.clone()), REnv::new()) {
            | Ok(v) => REnd::Ret(show_rv(&v)),
            | Err(Stop::Exit(n)) => REnd::Exit(n),
            | Err(Stop::TrapDiv) => REnd::TrapDiv,
            | Err(Stop::OutOfFuel) => REnd::OutOfFuel,
            | Err(Stop::Stuck(s)) => REnd::Stuck(s),
        };
        RResult { end, output: self.out }
    }
}

/// Render a reference value in the same normal form as `subject::show_sem` (right-nested products
/// flattened: product nesting on the right is not observable).
pub fn show_rv(v: &RV) -> String {
    match v {
        | RV::Unit => "()".into(),
        | RV::Int(n) => format!("Integer({})", n),
        | RV::Str(s) => format!("String({:?})", s),
        | RV::Tuple(items) => {
            let mut parts: Vec<String> = vec![];
            for (i, it) in items.iter().enumerate() {
                let s = show_rv(it);
                if i + 1 == items.len() && matches!(it, RV::Tuple(_)) {
                    parts.push(s[1..s.len() - 1].to_string());
                } else {
                    parts.push(s);
                }
            }
            format!("({})", parts.join(","))
        }
        | RV::Ctor(name, payload) => format!("{}({})", name, show_rv(payload)),
        | RV::Thunk(..) | RV::FixThunk(..) => "<thunk>".into(),
    }
}

/* ---------------------------------- utilities --------------------------------- */

impl Pat {
    pub fn binders(&self, out: &mut Vec<(Var, VT)>) {
        match self {
            | Pat::Wild(_) | Pat::Unit => {}
            | Pat::Var(x, t) => out.push((*x, t.clone())),
            | Pat::Tuple(ps) => ps.iter().for_each(|p| p.binders(out)),
            | Pat::Named(_, p) | Pat::Ctor(_, _, p) | Pat::Project(_, _, _, p) => p.binders(out),
            | Pat::Alias(a, b) => {
                a.binders(out);
                b.binders(out);
            }
        }
    }
}

pub fn size_v(v: &V) -> usize {
    match v {
        | V::Var(_) | V::Unit | V::Int(_) | V::Str(_) => 1,
        | V::Tuple(vs) => 1 + vs.iter().map(size_v).sum::<usize>(),
        | V::Named(_, v) | V::Proj(v, _, _) | V::Ctor(_, _, v) => 1 + size_v(v),
        | V::Thunk(c, _) => 1 + size_c(c),
    }
}
pub fn size_c(c: &C) -> usize {
    match c {
        | C::Ret(v) | C::Force(v) | C::Exit(v) => 1 + size_v(v),
        | C::Do(_, a, b) => 1 + size_c(a) + size_c(b),
        | C::Let(_, v, _, b) => 1 + size_v(v) + size_c(b),
        | C::Fn(_, b) | C::Fix(_, _, b) | C::Ann(b, _) | C::Dtor(b, _, _) | C::ReadLine(_, b) => 1 + size_c(b),
        | C::App(f, v) => 1 + size_c(f) + size_v(v),
        | C::Match(v, _, arms) => 1 + size_v(v) + arms.iter().map(|(_, c)| size_c(c)).sum::<usize>(),
        | C::Comatch(_, arms) => 1 + arms.iter().map(size_c).sum::<usize>(),
        | C::WriteInt(v, k) | C::WriteLine(v, k) => 1 + size_v(v) + size_c(k),
        | C::Arith(_, a, b) => 1 + size_v(a) + size_v(b),
        | C::IfLt(a, b, _, t, e) | C::IfEq(a, b, _, t, e) => 1 + size_v(a) + size_v(b) + size_c(t) + size_c(e),
    }
}

pub fn uses_exec(c: &C) -> bool {
    fn v(x: &V) -> bool {
        match x {
            | V::Thunk(c, _) => uses_exec(c),
            | V::Tuple(vs) => vs.iter().any(v),
            | V::Named(_, y) | V::Proj(y, _, _) | V::Ctor(_, _, y) => v(y),
            | _ => false,
        }
    }
    match c {
        | C::WriteInt(..) | C::WriteLine(..) | C::Arith(..) | C::IfLt(..) | C::IfEq(..) | C::Exit(..) | C::ReadLine(..) => true,
        | C::Ret(x) | C::Force(x) => v(x),
        | C::Do(_, a, b) => uses_exec(a) || uses_exec(b),
        | C::Let(_, x, _, b) => v(x) || uses_exec(b),
        | C::Fn(_, b) | C::Fix(_, _, b) | C::Ann(b, _) | C::Dtor(b, _, _) => uses_exec(b),
        | C::App(f, x) => uses_exec(f) || v(x),
        | C::Match(x, _, arms) => v(x) || arms.iter().any(|(_, c)| uses_exec(c)),
        | C::Comatch(_, arms) => arms.iter().any(uses_exec),
    }
}

pub type NameMap = BTreeMap<Var, String>;
