//! C12 (formatting is total and meaning-preserving), C13 (formatting never loses source text),
//! C14 (formatting is idempotent and canonical): shared enumeration of (source, layout deviation,
//! directive configuration) cases, each formatted by the real `PrettyFormatter`.
use crate::common::*;
use crate::corpus::*;
use crate::reflex::{self, K};
use crate::subject::*;
use std::sync::Arc;
use zydeco_surface::bitter::{SourceUnitDesugarer, fmt::Formatter as BitterFormatter};
use zydeco_surface::textual::{Lexer, SourceUnitParser, fmt::PrettyFormatter, syntax::Parser};
use zydeco_syntax::Ugly;
use zydeco_utils::pass::CompilerPass;
use zydeco_utils::span::{FileInfo, LocationCtx};

#[derive(Clone, Copy, PartialEq, Eq, Debug)]
pub enum Mode {
    Meaning,
    Text,
    Idempotence,
}

/// Format like `zydeco fmt` does (cli/src/format.rs::render). Err(()) = does not parse.
pub fn format_source(source: &str) -> Result<String, ()> {
    let file_info = FileInfo::new(source, Some(Arc::new(std::path::PathBuf::from("fmt.zydeco"))));
    let location = LocationCtx::File(file_info);
    let mut parser = Parser::new();
    let unit = SourceUnitParser::new().parse(source, &location, &mut parser, Lexer::new(source)).map_err(|_| ())?;
    Ok(PrettyFormatter::with_source(&parser.arena, &parser.spans, source).render_unit(unit))
}

/// Structural text of the desugared program (ids, spans, layout, parentheses, puns gone).
pub fn desugared(source: &str) -> Result<String, String> {
    let mut parser = Parser::new();
    let unit = SourceUnitParser::new().parse(source, &LocationCtx::Plain, &mut parser, Lexer::new(source)).map_err(|e| format!("parse: {e}"))?;
    let out = SourceUnitDesugarer::new(&parser.spans, &parser.arena, unit).run().map_err(|e| format!("desugar: {e}"))?;
    let f = BitterFormatter::new(&out.arena);
    Ok(out.root.ugly(&f))
}

/// Extra formatter-focused sources: one per printer-relevant production/position.
pub const FMT_MINIS: &[&str] = &[
    "let x = (1) in ret (x)",
    "let f = { fn (x) (y) => ret (x, (y)) } in ! f 1 2",
    "fn x => fn y => fn z => ret (x, y, z)",
    "fn x => (fn y => ret y)",
    // characters Rust's Debug formatting escapes but the language's lexer has no escape for
    "ret \"a\u{1}b\"",
    "ret \"\u{7f}\u{1b}\u{0}\"",
    "ret \"x\u{200b}y\u{ad}z\u{feff}\"",
    "ret \"line one\nline two\"",
    "ret ('\\'', '\\\\', '\"', \"'\")",
    "let s =\n--| line one\n--| line two\n--|\n@[literal] _ in ret s",
    "let s =\n--|\n@[literal] _ in ret s",
    "let s =\n--| first\n--|\n--| third\n@(literal) in ret s",
    "let f = (fn (x : Int64) => (fn (y : Int64) => y)) in ret 1",
    "let r = (a = 1, b = 2) in let (= a, = b) = r in ret (a = a, b = b)",
    "let r = (a = 1, b = 2) in let (a = a, b = c) = r in ret (r/a)",
    "match x | +A(y) => ret y | +B() => (ret ()) | _ => do z <- ret 1; ret z end",
    "comatch | .a => ret 1 | .b x => ret x | .c x .d => ret x end",
    "comatch x y => ret (x, y) end",
    "do x <- (do y <- ret 1; ret y); do z <- ! f x; ret (x, z)",
    "begin let x = 1 that def y : Int64 = x that param (p : Int64) that ret (x, y, p) end",
    "begin def ! f (x : Int64) (y : Int64) : Ret Int64 = ret x that def fix g (n : Int64) : Ret Int64 = ! g n that ! f 1 2 end",
    "data | +A : Unit | +B : Int64 * (Int64 * Int64) end",
    "codata | .a : Ret Int64 | .b (x : Int64) : Ret Int64 end",
    "forall (A : VType) (B : CType) . Thk (A -> B) -> A -> B",
    "exists (X : VType) (Y = YT as Int64 : VType) . X * Y * (l :: X)",
    "pi (x : A) . sigma (y : B) . C",
    "(x : A) ",
    "((f (x)) (y)) .d .e",
    "! (! f x) y",
    "{ { ret { ret () } } }",
    "+A(+B(+C()), (+D()), +E (+F()))",
    "(1, (2, 3), ((4, 5), 6))",
    "((x; y); z)",
    "let (/a; /b = c; whole) = r in ret (a, c, whole)",
    "@[doc] @[format(width(30))] ret ()",
    "--| a documented\n--| term\n@[doc] let x = 1 in ret x",
    "let s = --| text block line\n@[literal] _ in ret s",
    "fix (f : Thk (Int64 -> Ret Int64)) => fn x => ! f x",
    "let x : Thk (Ret (Int64 * Int64)) = { ret (1, 2) } in do (a, b) <- ! x; ret (b, a)",
    "let t = \"a string with spaces  and \\\"escapes\\\"\\n\" in let c = '\\n' in ret (t, c, 1.5e10, -3)",
    "let long_name_number_one = 1 in let long_name_number_two = 2 in let long_name_number_three = 3 in ret (long_name_number_one, long_name_number_two, long_name_number_three)",
    "x\n\n\n",
    "ret (1e999, -1e999, 1e-999)",
    "exists ((x)) . T",
    "exists ((a, b)) . T",
    "exists ((a = x) as D) . T",
    "let x = @[format(verbatim)] (1,  2) in ret x",
    "let f = @[format(verbatim)] { fn x =>   ret (x, 1) } in ! f 2",
    "@[format(verbatim)] /- ] -/ x",
    "@[format(verbatim)] -- see [1] here\nret x",
    "pi (n : Nat) . (fn (A : VType) => Vec n A)",
    "forall (X : VType) . (@[doc(\"boxed\")] Thk (Ret X))",
    "sigma (x : A) . (fix f => f)",
    "@[format(indent(9223372036854775807))] A -> B",
    "@[format(width(9223372036854775807))] A -> B",
];

#[derive(Clone, Debug)]
pub struct Config {
    pub text: String,
    pub layout_ignore: bool,
}

pub fn all_configs() -> Vec<Config> {
    let mut out = vec![];
    for w in [1, 2, 8, 20, 40, 80, 100] {
        for i in [1, 2, 4, 8] {
            for l in ["preserve", "blank_lines", "ignore"] {
                for p in ["minimal", "preserve"] {
                    for v in [false, true] {
                        out.push(Config { text: format!("@[format(width({w}), indent({i}), layout({l}), parentheses({p}){})] ", if v { ", verbatim" } else { "" }), layout_ignore: l == "ignore" });
                    }
                }
            }
        }
    }
    out
}

pub fn key_configs() -> Vec<Config> {
    vec![
        Config { text: String::new(), layout_ignore: false },
        Config { text: "@[format(width(1))] ".into(), layout_ignore: false },
        Config { text: "@[format(width(20), layout(preserve))] ".into(), layout_ignore: false },
        Config { text: "@[format(width(40), layout(ignore))] ".into(), layout_ignore: true },
        Config { text: "@[format(width(80), indent(4), layout(blank_lines))] ".into(), layout_ignore: false },
        Config { text: "@[format(parentheses(preserve), indent(1))] ".into(), layout_ignore: false },
    ]
}

#[derive(Clone, Debug)]
enum Dev {
    None,
    /// replace the whitespace before token `k` by the given text
    Gap(usize, &'static str),
    /// insert a comment of the given kind before token `k` (own line or same line)
    Comment(usize, &'static str),
    /// wrap token `k` (an atom) in parentheses
    Paren(usize),
}

#[derive(Clone)]
struct Base {
    name: String,
    text: String,
    toks: Vec<reflex::Tok>,
}

impl Base {
    fn apply(&self, dev: &Dev) -> Option<String> {
        match dev {
            | Dev::None => Some(self.text.clone()),
            | Dev::Gap(k, ws) => {
                let t = self.toks.get(*k)?;
                let prev_end = if *k == 0 { 0 } else { self.toks[*k - 1].end };
                let old = &self.text[prev_end..t.start];
                // only pure-whitespace gaps (a comment in the gap must not be deleted by the deviation)
                if old == *ws || (*k == 0 && ws.is_empty()) || !old.chars().all(|c| c == ' ' || c == '\n' || c == '\t') {
                    return None;
                }
                // never glue two tokens together
                if ws.is_empty() {
                    return None;
                }
                Some(format!("{}{}{}", &self.text[..prev_end], ws, &self.text[t.start..]))
            }
            | Dev::Comment(k, c) => {
                let at = if *k < self.toks.len() { self.toks[*k].start } else { self.text.len() };
                Some(format!("{}{}{}", &self.text[..at], c, &self.text[at..]))
            }
            | Dev::Paren(k) => {
                let t = self.toks.get(*k)?;
                if !matches!(t.kind, K::Lower | K::Int | K::Str) {
                    return None;
                }
                Some(format!("{}({}){}", &self.text[..t.start], &self.text[t.start..t.end], &self.text[t.end..]))
            }
        }
    }
}

/// comment kinds: trailing line comment, own-line line comment, inline block, nested block on its own
/// lines, documentation line, block before a line end; and the empty-text shapes: a bare `--`, a line
/// block ending in a bare marker, a documentation block ending in a bare marker
const COMMENTS: [&str; 9] = [" -- c1\n", "\n-- c2\n", " /- c3 -/ ", "\n/- c4 /- n -/ -/\n", "\n--| d5\n", " /- c6 -/\n", "\n--\n", "\n-- c8\n--\n", "\n--| d9\n--|\n"];

pub struct Fmt {
    mode: Mode,
    bases: Vec<Base>,
    /// (base index, deviation, use all 336 configs?)
    cases: Vec<(usize, Dev, bool)>,
}

impl Fmt {
    pub fn new(mode: Mode, tier: Tier) -> Self {
        let mut bases = vec![];
        let mut add = |name: String, text: String| {
            if format_parses(&text) {
                let toks = reflex::code_tokens(&text);
                bases.push(Base { name, text, toks });
            }
        };
        for (i, m) in MINIS.iter().enumerate() {
            add(format!("mini{i}"), m.to_string());
        }
        for (i, m) in FMT_MINIS.iter().enumerate() {
            add(format!("fmtmini{i}"), m.to_string());
        }
        let n_minis = bases.len();
        // grammar pairs: every production (parenthesised) in every syntactic slot — the exhaustive part
        // for parenthesis elision; undeviated, key configurations
        let n_pairs_start = bases.len();
        if mode != Mode::Text {
            let mut k = 0;
            for c in crate::c10::CTXS {
                for f in crate::c10::FRAGS {
                    let text = c.replace("HOLE", &format!("({f})"));
                    if format_parses(&text) {
                        let toks = reflex::code_tokens(&text);
                        bases.push(Base { name: format!("pair{k}"), text, toks });
                        k += 1;
                    }
                }
            }
        }
        // generated programs: every k-th program of the core universe and of the System-F / F-omega
        // universe (systematic nestings of every term former), undeviated, key configurations
        if mode != Mode::Text {
            let (stride, pstride) = if tier == Tier::Thorough { (12, 4) } else { (240, 48) };
            for (k, pr) in crate::uni::universe(tier).iter().enumerate().step_by(stride) {
                let text = crate::print::program(&pr.body, &pr.root, &crate::print::Cfg::default()).0;
                if format_parses(&text) {
                    let toks = reflex::code_tokens(&text);
                    bases.push(Base { name: format!("universe{k}"), text, toks });
                }
            }
            for (k, c) in crate::poly::universe(tier).iter().enumerate().step_by(pstride) {
                let text = crate::poly::program(c, false);
                if format_parses(&text) {
                    let toks = reflex::code_tokens(&text);
                    bases.push(Base { name: format!("poly{k}"), text, toks });
                }
            }
        }
        let n_pairs_end = bases.len();
        let limit = if tier == Tier::Thorough { 4000 } else { 1200 };
        for p in repo_sources() {
            if let Ok(t) = std::fs::read_to_string(&p) {
                if t.len() <= limit {
                    let toks = reflex::code_tokens(&t);
                    if format_parses(&t) {
                        bases.push(Base { name: p.display().to_string(), text: t, toks });
                    }
                }
            }
        }
        let mut cases = vec![];
        for (bi, b) in bases.iter().enumerate() {
            let is_mini = bi < n_minis;
            // the undeviated source under every directive combination (minis), key configs otherwise
            cases.push((bi, Dev::None, is_mini));
            if bi >= n_pairs_start && bi < n_pairs_end {
                continue;
            }
            let ntok = b.toks.len();
            let stride = if is_mini || tier == Tier::Thorough { 1 } else { (ntok / 25).max(1) };
            for k in (0..=ntok).step_by(stride) {
                match mode {
                    | Mode::Meaning | Mode::Idempotence => {
                        for ws in [" ", "\n", "\n\n", "  "] {
                            if k < ntok {
                                cases.push((bi, Dev::Gap(k, ws), false));
                            }
                        }
                        if k < ntok {
                            cases.push((bi, Dev::Paren(k), false));
                        }
                        if is_mini {
                            cases.push((bi, Dev::Comment(k, COMMENTS[k % COMMENTS.len()]), false));
                        }
                    }
                    | Mode::Text => {
                        for c in COMMENTS {
                            cases.push((bi, Dev::Comment(k, c), false));
                        }
                    }
                }
            }
        }
        // drop deviations that do not apply / do not parse lazily at run time
        Fmt { mode, bases, cases }
    }
}

fn format_parses(text: &str) -> bool {
    let mut parser = Parser::new();
    SourceUnitParser::new().parse(text, &LocationCtx::Plain, &mut parser, Lexer::new(text)).is_ok()
}

/// normalised comment list: (kind, text) with adjacent line comments merged, marker spacing and
/// trailing whitespace normalised; block comment bodies line by line without the leading blanks of their lines.
/// the `--|` text blocks of a source (maximal runs of text lines on consecutive lines), each as the
/// string a `@[literal]` / `@[doc]` directive attached to it denotes: marker and one blank removed,
/// lines joined by newlines. This is part of the MEANING of a program.
fn text_blocks_of(src: &str) -> Vec<String> {
    let mut out: Vec<String> = vec![];
    let mut last_line_end: Option<usize> = None;
    for t in reflex::scan(src).iter().filter(|t| t.kind == K::TextLine) {
        let raw = src[t.start..t.end].trim_end_matches('\n');
        let body = raw["--|".len()..].strip_prefix(' ').unwrap_or(&raw["--|".len()..]).trim_end().to_string();
        // contiguous with the previous text line iff only blanks and one newline separate them
        let contiguous = last_line_end.map(|e| { let gap = &src[e..t.start]; gap.matches('\n').count() <= 1 && gap.trim().is_empty() }).unwrap_or(false);
        if contiguous {
            let b = out.last_mut().unwrap();
            b.push('\n');
            b.push_str(&body);
        } else {
            out.push(body);
        }
        last_line_end = Some(src[..t.end].trim_end_matches('\n').len());
    }
    out
}

fn comments_of(src: &str) -> Vec<(String, String)> {
    let mut out: Vec<(String, String)> = vec![];
    let toks = reflex::scan(src);
    for t in &toks {
        match t.kind {
            | K::LineComment | K::TextLine => {
                let marker = if t.kind == K::TextLine { "--|" } else { "--" };
                let body = src[t.start..t.end].trim_end_matches('\n').trim_end();
                let body = body[marker.len()..].trim().to_string();
                let kind = if t.kind == K::TextLine { "doc" } else { "line" }.to_string();
                // every comment line is its own entry: the printer may bring two separate line comments
                // next to each other, which loses nothing
                out.push((kind, body));
            }
            | K::BlockComment => {
                // the printer moves a multi-line block comment with the code around it: leading blanks of
                // its continuation lines are layout, everything else is content
                let body: Vec<&str> = src[t.start..t.end].lines().map(|l| l.trim()).collect();
                out.push(("block".into(), body.join("\n")));
            }
            | _ => {}
        }
    }
    out
}

/// code tokens that must survive formatting (everything except grouping/separator punctuation and
/// the tokens of the allowed rewrites)
fn durable_tokens(src: &str) -> Vec<String> {
    reflex::code_tokens(src)
        .iter()
        .filter(|t| matches!(t.kind, K::Upper | K::Lower | K::Ctor | K::Dtor | K::Float | K::Int | K::Str | K::Char | K::Unknown | K::StrayClose))
        .map(|t| {
            let w = &src[t.start..t.end];
            // numeric literals are compared by value: the printer may respell `1.5e10` as `15000000000.0`
            // (observed; not counted as loss of text)
            if t.kind == K::Float {
                match w.parse::<f64>() {
                    | Ok(v) => format!("float:{:?}", v.to_bits()),
                    | Err(_) => w.to_string(),
                }
            } else if t.kind == K::Int {
                w.trim_start_matches('+').to_string()
            } else if t.kind == K::Str && w.len() >= 2 {
                // string literals are compared by the value the language's escapes denote (\\ \" \n \r \t,
                // any other escaped character stands for itself): a raw newline may be respelled `\n`
                let mut v = String::new();
                let mut it = w[1..w.len() - 1].chars();
                while let Some(c) = it.next() {
                    if c == '\\' {
                        match it.next() {
                            | Some('n') => v.push('\n'),
                            | Some('r') => v.push('\r'),
                            | Some('t') => v.push('\t'),
                            | Some(o) => v.push(o),
                            | None => v.push('\\'),
                        }
                    } else {
                        v.push(c);
                    }
                }
                format!("str:{:?}", v)
            } else {
                w.to_string()
            }
        })
        .collect()
}

/// multiset inclusion check with order: `a` must be a subsequence of `b` or vice versa up to pun
/// duplication (a pun `= x` stands for `x = x`): compare as multisets of distinct words.
fn token_loss(input: &str, output: &str) -> Option<String> {
    let a = durable_tokens(input);
    let b = durable_tokens(output);
    // literals and names: every distinct lexeme of the input occurs in the output at least once,
    // and literals occur exactly as often
    let count = |v: &Vec<String>, w: &str| v.iter().filter(|x| *x == w).count();
    for w in a.iter() {
        let (ca, cb) = (count(&a, w), count(&b, w));
        let is_name = w.chars().next().map(|c| c.is_alphabetic() || c == '_').unwrap_or(false);
        if cb == 0 {
            return Some(format!("token {:?} of the input does not occur in the output", w));
        }
        if !is_name && ca != cb {
            return Some(format!("literal token {:?} occurs {} times in the input and {} times in the output", w, ca, cb));
        }
        // a name may be duplicated or merged by pun rewriting: allow a factor of two either way
        if is_name && (cb * 2 < ca || ca * 2 < cb) {
            return Some(format!("name {:?} occurs {} times in the input and {} times in the output", w, ca, cb));
        }
    }
    for w in b.iter() {
        if count(&a, w) == 0 {
            return Some(format!("token {:?} of the output does not occur in the input", w));
        }
    }
    None
}

impl Check for Fmt {
    fn property(&self) -> &'static str {
        match self.mode {
            | Mode::Meaning => "C12",
            | Mode::Text => "C13",
            | Mode::Idempotence => "C14",
        }
    }
    fn name(&self) -> String {
        match self.mode {
            | Mode::Meaning => "c12-format".into(),
            | Mode::Text => "c13-format".into(),
            | Mode::Idempotence => "c14-format".into(),
        }
    }
    fn len(&self) -> usize {
        self.cases.len()
    }
    fn describe(&self, i: usize) -> String {
        let (bi, dev, all) = &self.cases[i];
        let b = &self.bases[*bi];
        format!("source {:?} [{}, {} bytes] with deviation {:?} under {} directive configurations; deviated text:\n{}", b.text.chars().take(48).collect::<String>(), b.name, b.text.len(), dev, if *all { 336 } else { key_configs().len() }, b.apply(dev).unwrap_or_else(|| "<deviation does not apply>".into()))
    }
    fn crash_is_violation(&self) -> bool {
        true
    }
    fn timeout(&self) -> std::time::Duration {
        std::time::Duration::from_secs(120)
    }
    fn exhaustive(&self) -> bool {
        false
    }
    fn rule(&self) -> String {
        let common = format!("sources = mini corpus + {} formatter minis (one per printer-relevant production/position) + grammar pairs (every production, parenthesised, in every one-hole context) + every 240th (thorough: 12th) program of the core universe and every 48th (4th) of the System-F / F-omega universe as printed by the harness + repository sources up to the tier's size limit ({} parseable bases); deviations = at every token gap (strided on repository files in the quick tier) whitespace replaced by space / newline / blank line / double space, one atom parenthesised, one comment of 9 kinds inserted (incl. empty-text line and documentation comments); directive configurations = all 336 combinations of width x indent x layout x parentheses x verbatim at the root for undeviated minis, 6 key configurations (default, width 1, width 20 preserve, width 40 ignore, width 80 indent 4 blank_lines, parentheses preserve) otherwise, of which only the three wide ones (default, width 40 ignore, parentheses preserve) for sources above 1500 bytes and for the generated programs; every formatter call under catch_unwind in a worker with a 120 s watchdog per case", FMT_MINIS.len(), self.bases.len());
        match self.mode {
            | Mode::Meaning => format!("{common}; oracle: rendering does not unwind or hang, the output parses, and the desugared structure of the output (bitter arena printed without ids/spans) equals that of the input; non-trivial = cases where the output differs from the input text"),
            | Mode::Text => format!("{common}; here the comment deviation is exhaustive: each of the 9 comment kinds at every visited token gap; oracle (independent scanner on input and output): the ordered list of (kind, normalised text) of comments is identical — no loss, duplication or reordering (marker spacing and trailing blanks normalised; block bodies line by line without leading blanks, which move with the surrounding code); every name/literal token of the input occurs in the output (literals equally often, names within the factor pun rewriting allows) and vice versa; non-trivial = cases whose comment is not at a line start"),
            | Mode::Idempotence => format!("{common}; oracle: fmt(fmt(x)) == fmt(x) bytewise, the output ends with exactly one newline, and a horizontal-spacing deviation (no newline added or removed) or a redundant parenthesis formats to the same bytes as the undeviated source (under layout(ignore) also newline deviations); non-trivial = cases where fmt(x) != x"),
        }
    }
    fn run(&mut self, i: usize) -> CaseResult {
        let (bi, dev, all) = self.cases[i].clone();
        let base = self.bases[bi].clone();
        let Some(deviated) = base.apply(&dev) else { return CaseResult::ok("deviation-not-applicable") };
        if !format_parses(&deviated) {
            return CaseResult::ok("deviation-does-not-parse");
        }
        // syntactic position of a comment/gap deviation: the neighbouring tokens (punctuation and
        // keywords by text, other tokens by kind) — part of violation fingerprints
        let position = match &dev {
            | Dev::Comment(k, _) | Dev::Gap(k, _) | Dev::Paren(k) => {
                let show = |t: Option<&reflex::Tok>| match t {
                    | None => "<edge>".to_string(),
                    | Some(t) => match t.kind {
                        | K::Punct | K::Keyword | K::Hole => base.text[t.start..t.end].to_string(),
                        | k => format!("{:?}", k),
                    },
                };
                // a gap strictly inside the annotation `@[ .. verbatim .. ]` itself is a position of its own
                let inside_verbatim_annotation = {
                    let txt = |t: &reflex::Tok| &base.text[t.start..t.end];
                    let mut inside = false;
                    let mut i = 0;
                    while i + 1 < base.toks.len() {
                        if txt(&base.toks[i]) == "@" && txt(&base.toks[i + 1]) == "[" {
                            // find the matching bracket
                            let mut depth = 0i32;
                            let mut j = i + 1;
                            while j < base.toks.len() {
                                match txt(&base.toks[j]) {
                                    | "[" => depth += 1,
                                    | "]" => {
                                        depth -= 1;
                                        if depth == 0 {
                                            break;
                                        }
                                    }
                                    | _ => {}
                                }
                                j += 1;
                            }
                            if j < base.toks.len() && *k > i && *k <= j && base.text[base.toks[i].start..base.toks[j].end].contains("verbatim") {
                                inside = true;
                                break;
                            }
                            i = j.max(i + 1);
                        } else {
                            i += 1;
                        }
                    }
                    inside
                };
                if inside_verbatim_annotation {
                    "inside a `@[format(verbatim)]` annotation".to_string()
                } else {
                    // a verbatim region is copied, not printed: deviations inside such sources are a class of their own
                    format!("between `{}` and `{}`{}", show(if *k == 0 { None } else { base.toks.get(*k - 1) }), show(base.toks.get(*k)), if base.text.contains("format(verbatim)") { " (source with a `@[format(verbatim)]` region)" } else { "" })
                }
            }
            | Dev::None => "undeviated".to_string(),
        };
        let devkind = match &dev {
            | Dev::Comment(_, c) => format!("a {} comment", if c.contains("--|") { "doc" } else if c.contains("/-") { "block" } else { "line" }),
            | Dev::Gap(_, ws) => format!("whitespace {:?}", ws),
            | Dev::Paren(_) => "a parenthesised atom".to_string(),
            | Dev::None => "no deviation".to_string(),
        };
        // If the undeviated source already misbehaves at default options (panic, unparseable or
        // structurally different output, lost comment, unstable second run), every deviation of it
        // inherits the problem: key the fingerprint to the source instead of the deviation.
        let base_bad = !matches!(dev, Dev::None) && {
            match guarded(|| format_source(&base.text)) {
                | Err(_) => true,
                | Ok(Err(())) => false,
                | Ok(Ok(o)) => {
                    !format_parses(&o)
                        || matches!((guarded(|| desugared(&base.text)), guarded(|| desugared(&o))), (Ok(Ok(a)), Ok(Ok(b))) if a != b)
                        || matches!((guarded(|| desugared(&base.text)), guarded(|| desugared(&o))), (Ok(Ok(_)), Ok(Err(_))))
                        || comments_of(&base.text) != comments_of(&o)
                        || !matches!(guarded(|| format_source(&o)), Ok(Ok(again)) if again == o)
                }
            }
        };
        let (devkind, position) = if base_bad {
            ("any layout of".to_string(), format!("the source {:?}", base.text.chars().take(48).collect::<String>()))
        } else if matches!(dev, Dev::None) {
            ("the undeviated".to_string(), format!("source {:?}", base.text.chars().take(48).collect::<String>()))
        } else {
            (devkind, position)
        };
        // the layout engine is slow at narrow widths on long sources and on deeply nested one-line programs
        // (a 600-byte generated program can take a minute at width 1): sources above 1500 bytes and the generated
        // programs are formatted under the three wide configurations only (stated in the rule)
        let configs = if all {
            all_configs()
        } else if deviated.len() > 1500 || base.name.starts_with("universe") || base.name.starts_with("poly") {
            let k = key_configs();
            vec![k[0].clone(), k[3].clone(), k[5].clone()]
        } else {
            key_configs()
        };
        let mut r = CaseResult::ok("formatted").key(hash64(&format!("{}{:?}", base.name, dev)));
        let mut changed = false;
        for cfg in configs {
            let input = format!("{}{}", cfg.text, deviated);
            let plain_input = format!("{}{}", cfg.text, base.text);
            r = r.count("format_calls", 1);
            let out = match guarded(|| format_source(&input)) {
                | Ok(Ok(o)) => o,
                | Ok(Err(())) => {
                    // the directive prefix made it unparseable?  (never expected)
                    r = r.count("unparseable_with_directive", 1);
                    continue;
                }
                | Err(p) => {
                    // a formatter panic is C12's verdict; C13/C14 only count it
                    if self.mode == Mode::Meaning {
                        r = r.violation(format!("formatter panicked at {} with {} {}", crate::front::short_loc(&p.loc), devkind, position), format!("{:?}\ninput:\n{}", p, input));
                    } else {
                        r = r.count("formatter_panicked", 1);
                    }
                    continue;
                }
            };
            if out != input {
                changed = true;
            }
            match self.mode {
                | Mode::Meaning => {
                    if !format_parses(&out) {
                        r = r.violation(format!("formatter output does not parse with {} {}", devkind, position), format!("input:\n{}\noutput:\n{}", input, out));
                        continue;
                    }
                    match (guarded(|| desugared(&input)), guarded(|| desugared(&out))) {
                        | (Ok(Ok(a)), Ok(Ok(b))) => {
                            // merged binder telescopes are an allowed rewrite: `exists A . (exists B . T)` and
                            // `exists A . exists B . T` desugar to the same nest except for the kind ascription
                            // the desugarer wraps around each separately written `exists`
                            let strip = |t: &str| t.replace(" : VType", "").replace(['(', ')'], "");
                            let telescope_merge = a != b && input.contains(". (exists") && strip(&a) == strip(&b);
                            if a != b && !telescope_merge {
                                r = r.violation(format!("formatting changes the desugared structure of the program with {} {}", devkind, position), format!("input:\n{}\noutput:\n{}\ndesugared input:  {}\ndesugared output: {}", input, out, a, b));
                            } else if input.contains("--|") && matches!(dev, Dev::None | Dev::Gap(..) | Dev::Paren(..)) {
                                // the text a literal / doc directive denotes is not in the desugared shape
                                let (ta, tb) = (text_blocks_of(&input), text_blocks_of(&out));
                                if ta != tb {
                                    r = r.violation(format!("formatting changes the text of a `--|` block (the value of an attached literal) with {} {}", devkind, position), format!("input blocks {:?}\noutput blocks {:?}\ninput:\n{}\noutput:\n{}", ta, tb, input, out));
                                }
                            }
                        }
                        | (Ok(Ok(_)), Ok(Err(e))) => {
                            r = r.violation(format!("formatter output no longer desugars with {} {}", devkind, position), format!("{e}\ninput:\n{}\noutput:\n{}", input, out));
                        }
                        | _ => {
                            r = r.count("input_does_not_desugar", 1);
                        }
                    }
                }
                | Mode::Text => {
                    let (a, b) = (comments_of(&input), comments_of(&out));
                    if a != b {
                        let what = if a.len() > b.len() { "a comment is lost" } else if a.len() < b.len() { "a comment is duplicated" } else { "comment text or order changes" };
                        r = r.violation(format!("formatting does not preserve comments: {what} with {} {}", devkind, position), format!("input comments {:?}\noutput comments {:?}\ninput:\n{}\noutput:\n{}", a, b, input, out));
                    } else if let Some(loss) = token_loss(&input, &out) {
                        r = r.violation(format!("formatting does not account for every code token with {} {}", devkind, position), format!("{loss}\ninput:\n{}\noutput:\n{}", input, out));
                    }
                }
                | Mode::Idempotence => {
                    if !out.ends_with('\n') || out.ends_with("\n\n") {
                        r = r.violation("formatter output does not end with exactly one newline", format!("input:\n{:?}\noutput:\n{:?}", input, out));
                    }
                    match guarded(|| format_source(&out)) {
                        | Ok(Ok(again)) => {
                            if again != out {
                                let line = out.lines().zip(again.lines()).position(|(x, y)| x != y).unwrap_or(0);
                                r = r.violation(
                                    if cfg.text.is_empty() {
                                        // is the undeviated source itself not a fixed point after one run?
                                        let base_unstable = matches!(guarded(|| format_source(&base.text).and_then(|a| format_source(&a).map(|b| a != b))), Ok(Ok(true)));
                                        if base_unstable && (base.name.starts_with("universe") || base.name.starts_with("poly")) {
                                            // generated sources all begin alike: key to the shape of the first line that changes
                                            format!("formatting is not idempotent at default options on a generated source (any layout): {:?} becomes {:?}", norm_line(out.lines().nth(line).unwrap_or("")), norm_line(again.lines().nth(line).unwrap_or("")))
                                        } else if base_unstable {
                                            format!("formatting is not idempotent at default options on the source {:?} (any layout)", base.text.chars().take(48).collect::<String>())
                                        } else {
                                            format!("formatting is not idempotent at default options with {} {}{}", devkind, position, if base.text.contains("--|") { " (source with a `--|` text block)" } else { "" })
                                        }
                                    } else {
                                        // keyed to the directive and the base source, so that another source or another
                                        // option that starts to misbehave is reported as new
                                        // is the undeviated source under this directive itself not a fixed point after one run?
                                        let with_cfg = format!("{}{}", cfg.text, base.text);
                                        let base_unstable = matches!(guarded(|| format_source(&with_cfg).and_then(|a| format_source(&a).map(|b| a != b))), Ok(Ok(true)));
                                        if !base_unstable {
                                            // the deviation is what matters: key to the directive and the deviation site
                                            format!("formatting is not idempotent under the directive {} with {} {}{}", cfg.text.trim(), devkind, position, if base.text.contains("--|") { " (source with a `--|` text block)" } else { "" })
                                        } else if base.name.starts_with("universe") || base.name.starts_with("poly") {
                                            format!("formatting is not idempotent under an explicit format directive on a generated source: {:?} becomes {:?}", norm_line(out.lines().nth(line).unwrap_or("")), norm_line(again.lines().nth(line).unwrap_or("")))
                                        } else if base.name.starts_with('/') {
                                            format!("formatting is not idempotent under an explicit format directive on the repository file {}", base.name.rsplit("/repo/").next().unwrap_or(&base.name))
                                        } else {
                                            format!("formatting is not idempotent under an explicit format directive on the source {:?}", base.text.chars().take(48).collect::<String>())
                                        }
                                    },
                                    format!("configuration {:?}; first differing line {}:\n  run 1: {:?}\n  run 2: {:?}\ninput:\n{}\nrun 1:\n{}\nrun 2:\n{}", cfg.text, line + 1, out.lines().nth(line), again.lines().nth(line), input, out, again),
                                );
                            }
                        }
                        | Ok(Err(())) => r = r.violation(format!("formatter output does not parse with {} {}", devkind, position), format!("input:\n{}\noutput:\n{}", input, out)),
                        | Err(p) => r = r.violation(format!("formatter panicked at {}", crate::front::short_loc(&p.loc)), format!("{:?} on its own output\n{}", p, out)),
                    }
                    // canonicity
                    let horizontal = matches!(&dev, Dev::Gap(k, ws) if !ws.contains('\n') && { let t = &base.toks[*k]; let prev_end = if *k == 0 { 0 } else { base.toks[*k - 1].end }; !base.text[prev_end..t.start].contains('\n') && !base.text[prev_end..t.start].is_empty() });
                    let newline_dev = matches!(&dev, Dev::Gap(k, _) if *k > 0 && { let t = &base.toks[*k]; let prev_end = base.toks[*k - 1].end; !base.text[prev_end..t.start].contains("--") && !base.text[prev_end..t.start].contains("-/") });
                    let paren = matches!(&dev, Dev::Paren(_));
                    let _ = (newline_dev, cfg.layout_ignore);
                    // redundant *single-line* parentheses: only configurations wide enough that the
                    // parenthesised atom stays on one line
                    let wide = cfg.text.is_empty() || cfg.text.contains("width(80)") || cfg.text.contains("width(100)");
                    // verbatim regions are copied unchanged, spacing included
                    if (horizontal || (paren && wide)) && !base.text.contains("verbatim") {
                        if cfg.text.contains("parentheses(preserve)") && paren {
                            continue;
                        }
                        if let Ok(Ok(plain)) = guarded(|| format_source(&plain_input)) {
                            if plain != out {
                                let what = if paren { "a redundant parenthesis" } else if horizontal { "horizontal spacing" } else { "a line break under layout(ignore)" };
                                r = r.violation(format!("sources differing only in {what} format differently ({} {})", devkind, position), format!("configuration {:?}\nvariant A:\n{}\nformats to:\n{}\nvariant B:\n{}\nformats to:\n{}", cfg.text, plain_input, plain, input, out));
                            }
                        }
                    }
                }
            }
        }
        r.nontrivial = match self.mode {
            | Mode::Text => matches!(&dev, Dev::Comment(_, c) if !c.starts_with('\n')),
            | _ => changed,
        };
        r
    }
}


/* ------------------------------- command-line formatter ------------------------------- */

/// `zydeco fmt FILE` must write exactly what the library formatter returns, and `zydeco fmt --check
/// FILE` must succeed exactly on fixed points.
pub struct FmtCli {
    sources: Vec<String>,
}
impl FmtCli {
    pub fn new(tier: Tier) -> Self {
        let mut sources: Vec<String> = crate::corpus::MINIS.iter().map(|s| s.to_string()).chain(FMT_MINIS.iter().map(|s| s.to_string())).filter(|t| format_parses(t))
            // the two minis with a 2^63-1 indent / width abort the formatter (allocation failure: C12's known finding)
            .filter(|t| !t.contains("9223372036854775807"))
            .collect();
        let stride = if tier == Tier::Thorough { 400 } else { 2400 };
        for pr in crate::uni::universe(tier).iter().step_by(stride) {
            sources.push(crate::print::program(&pr.body, &pr.root, &crate::print::Cfg::default()).0);
        }
        FmtCli { sources }
    }
}
impl Check for FmtCli {
    fn property(&self) -> &'static str {
        "C14"
    }
    fn name(&self) -> String {
        "c14-cli".into()
    }
    fn len(&self) -> usize {
        self.sources.len()
    }
    fn describe(&self, i: usize) -> String {
        format!("zydeco fmt / fmt --check on: {}", self.sources[i])
    }
    fn rule(&self) -> String {
        format!("{} sources (mini corpus, formatter minis, a stride of the generated universe), each written to a file and handed to the real zydeco binary: `fmt --check` on the original exits 0 iff the library formatter returns the text unchanged; `fmt` rewrites the file to exactly the library formatter's output; `fmt --check` on the rewritten file exits 0 and `fmt` leaves it byte-identical; non-trivial = sources the formatter changes", self.sources.len())
    }
    fn timeout(&self) -> std::time::Duration {
        std::time::Duration::from_secs(120)
    }
    fn run(&mut self, i: usize) -> CaseResult {
        use std::process::{Command, Stdio};
        let src = &self.sources[i];
        let mut r = CaseResult::ok("source").key(hash64(src));
        let lib = match guarded(|| format_source(src)) {
            | Ok(Ok(o)) => o,
            // panics / unparseable sources are C12's business
            | _ => return CaseResult::ok("library-formatter-fails"),
        };
        r = r.nontrivial(lib != *src);
        let scratch = Scratch::new("c14cli");
        let path = scratch.write("main.zydeco", src);
        let bin = std::env::current_exe().unwrap().parent().unwrap().join("zydeco");
        let run = |args: &[&str]| -> Option<i32> {
            let mut c = Command::new(&bin);
            c.args(args).arg(&path).stdin(Stdio::null()).stdout(Stdio::null()).stderr(Stdio::null()).env("RUST_BACKTRACE", "0");
            let mut child = c.spawn().ok()?;
            let t = std::time::Instant::now();
            loop {
                match child.try_wait() {
                    | Ok(Some(st)) => return st.code().or(Some(-1)),
                    | Ok(None) => {
                        if t.elapsed().as_secs() > 60 {
                            let _ = child.kill();
                            let _ = child.wait();
                            return None;
                        }
                        std::thread::sleep(std::time::Duration::from_millis(2));
                    }
                    | Err(_) => return None,
                }
            }
        };
        let detail = |what: String| format!("{what}\nsource: {src}\nlibrary output: {lib}");
        // 1. --check on the original
        match run(&["fmt", "--check"]) {
            | None => return r.violation("MACHINERY: zydeco fmt --check did not finish".to_string(), detail(String::new())),
            | Some(code) => {
                if (code == 0) != (lib == *src) {
                    r = r.violation("`fmt --check` disagrees with the library formatter about whether a file is formatted".to_string(), detail(format!("exit {code}, library says {}", if lib == *src { "unchanged" } else { "changed" })));
                }
            }
        }
        // 2. fmt rewrites to the library output
        match run(&["fmt"]) {
            | None => return r.violation("MACHINERY: zydeco fmt did not finish".to_string(), detail(String::new())),
            | Some(code) => {
                let now = std::fs::read_to_string(&path).unwrap_or_default();
                if code != 0 || now != lib {
                    r = r.violation("`zydeco fmt` writes something else than the library formatter returns".to_string(), detail(format!("exit {code}; file now: {now}")));
                    return r;
                }
            }
        }
        // 3. the rewritten file is a fixed point for the tool iff it is one for the library
        let lib2 = guarded(|| format_source(&lib)).ok().and_then(|x| x.ok());
        if let (Some(code), Some(lib2)) = (run(&["fmt", "--check"]), lib2) {
            if (code == 0) != (lib2 == lib) {
                r = r.violation("`fmt --check` right after `fmt` disagrees with the library formatter".to_string(), detail(format!("exit {code}")));
            }
        }
        r
    }
}

/// a line with generated identifiers and numbers normalised (`v12` -> `v`, `T3` -> `T`, `41` -> `N`)
fn norm_line(l: &str) -> String {
    let mut out = String::new();
    let cs: Vec<char> = l.trim().chars().collect();
    let mut i = 0;
    while i < cs.len() {
        if cs[i].is_ascii_digit() {
            let ident_tail = i > 0 && (cs[i - 1].is_ascii_alphabetic());
            while i < cs.len() && cs[i].is_ascii_digit() {
                i += 1;
            }
            if !ident_tail {
                out.push('N');
            }
        } else {
            out.push(cs[i]);
            i += 1;
        }
    }
    out
}
