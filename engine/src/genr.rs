//! E1 enumerator: type-directed, size-exact, complete below the size bound for the chosen menu.
//! Every generated term is well typed by construction in the reference system.
use crate::lang::*;

#[derive(Clone, Debug)]
pub struct Menu {
    /// value types that may be chosen for intermediate results (do/let/app argument)
    pub vts: Vec<VT>,
    /// data types that `match` may scrutinise
    pub datas: Vec<usize>,
    /// codata types for destructor heads
    pub codatas: Vec<usize>,
    pub ints: Vec<i64>,
    pub fix: bool,
    pub exec: bool,
    pub redex: bool,
    /// offer at most this many most-recent variables per type
    pub vars_per_type: usize,
    pub alias_patterns: bool,
    /// also generate projection patterns `(/l = x)` and groups `(/l = x; /m = y)` on records
    pub projection_patterns: bool,
    /// also generate single-arm matches with an irrefutable pattern (tuple, variable, unit, alias)
    /// on product / unit / integer scrutinees
    pub irrefutable_matches: bool,
    /// also generate matches whose last arm is a wildcard/variable default
    pub default_arms: bool,
    /// also split a constructor's arm into several arms by a nested constructor pattern
    pub nested_patterns: bool,
}

pub type Ctx = Vec<(Var, VT)>;

pub struct Gen {
    pub menu: Menu,
    data: Vec<DataDecl>,
    codata: Vec<CodataDecl>,
}

/// all ways to split `n` into `k` positive parts
fn splits(n: usize, k: usize) -> Vec<Vec<usize>> {
    if k == 0 {
        return if n == 0 { vec![vec![]] } else { vec![] };
    }
    if k == 1 {
        return if n >= 1 { vec![vec![n]] } else { vec![] };
    }
    let mut out = vec![];
    for first in 1..=n.saturating_sub(k - 1) {
        for mut rest in splits(n - first, k - 1) {
            let mut v = vec![first];
            v.append(&mut rest);
            out.push(v);
        }
    }
    out
}

fn product<T: Clone>(lists: &[Vec<T>]) -> Vec<Vec<T>> {
    let mut out: Vec<Vec<T>> = vec![vec![]];
    for l in lists {
        let mut next = Vec::with_capacity(out.len() * l.len());
        for prefix in &out {
            for x in l {
                let mut p = prefix.clone();
                p.push(x.clone());
                next.push(p);
            }
        }
        out = next;
        if out.is_empty() {
            break;
        }
    }
    out
}

impl Gen {
    pub fn new(menu: Menu) -> Self {
        Gen { menu, data: data_decls(), codata: codata_decls() }
    }

    fn vars_of(&self, ctx: &Ctx, ty: &VT) -> Vec<Var> {
        ctx.iter().rev().filter(|(_, t)| t == ty).take(self.menu.vars_per_type).map(|(x, _)| *x).collect()
    }

    /// patterns for a value of type `ty`, binding fresh variables numbered from `ctx.len()`
    pub fn pats(&self, ctx: &Ctx, ty: &VT) -> Vec<Pat> {
        let base = ctx.len() as Var;
        let mut out = vec![Pat::Var(base, ty.clone())];
        match ty {
            | VT::Prod(cs) => {
                let items: Vec<Pat> = cs
                    .iter()
                    .enumerate()
                    .map(|(i, c)| match c {
                        | VT::Named(l, t) => Pat::Named(l.clone(), Box::new(Pat::Var(base + i as Var, (**t).clone()))),
                        | t => Pat::Var(base + i as Var, t.clone()),
                    })
                    .collect();
                out.push(Pat::Tuple(items.clone()));
                if self.menu.alias_patterns {
                    out.push(Pat::Alias(Box::new(Pat::Tuple(items)), Box::new(Pat::Var(base + cs.len() as Var, ty.clone()))));
                }
                if self.menu.projection_patterns {
                    let projs: Vec<Pat> = cs
                        .iter()
                        .enumerate()
                        .filter_map(|(i, c)| match c {
                            | VT::Named(l, t) => Some(Pat::Project(l.clone(), i, ty.clone(), Box::new(Pat::Var(base + i as Var, (**t).clone())))),
                            | _ => None,
                        })
                        .collect();
                    out.extend(projs.iter().cloned());
                    if projs.len() >= 2 {
                        // one opening, two selections; and in the other order
                        out.push(Pat::Alias(Box::new(projs[0].clone()), Box::new(projs[1].clone())));
                        out.push(Pat::Alias(Box::new(projs[1].clone()), Box::new(projs[0].clone())));
                        // a selection next to a whole alias
                        out.push(Pat::Alias(Box::new(projs[1].clone()), Box::new(Pat::Var(base + cs.len() as Var, ty.clone()))));
                    }
                }
            }
            | VT::Named(l, t) => out.push(Pat::Named(l.clone(), Box::new(Pat::Var(base, (**t).clone())))),
            | VT::Unit => out.push(Pat::Unit),
            | _ => {}
        }
        out
    }

    /// Ways to cover a payload of type `pt` by several refutable patterns: one pattern per constructor
    /// of the first non-recursive data component (elsewhere variables).
    fn nested_splits(&self, ctx: &Ctx, pt: &VT) -> Vec<Vec<Pat>> {
        let base = ctx.len() as Var;
        let mut out = vec![];
        let split_data = |d: usize, data: &Vec<DataDecl>| -> Option<Vec<Pat>> {
            if data[d].recursive || data[d].ctors.iter().any(|(_, t)| *t != VT::Unit) {
                return None;
            }
            Some((0..data[d].ctors.len()).map(|k| Pat::Ctor(d, k, Box::new(Pat::Unit))).collect())
        };
        match pt {
            | VT::Data(d2) => {
                if let Some(ps) = split_data(*d2, &self.data) {
                    out.push(ps);
                }
            }
            | VT::Prod(cs) => {
                for (i, c) in cs.iter().enumerate() {
                    if let VT::Data(d2) = c {
                        if let Some(ps) = split_data(*d2, &self.data) {
                            let group: Vec<Pat> = ps
                                .into_iter()
                                .map(|inner| {
                                    let mut next = base;
                                    let items: Vec<Pat> = cs
                                        .iter()
                                        .enumerate()
                                        .map(|(j, cj)| {
                                            if j == i {
                                                inner.clone()
                                            } else {
                                                next += 1;
                                                Pat::Var(next - 1, cj.clone())
                                            }
                                        })
                                        .collect();
                                    Pat::Tuple(items)
                                })
                                .collect();
                            out.push(group);
                        }
                    }
                }
            }
            | _ => {}
        }
        out
    }

    fn extend(ctx: &Ctx, p: &Pat) -> Ctx {
        let mut c = ctx.clone();
        let mut bs = vec![];
        p.binders(&mut bs);
        // binder ids are levels: keep the context dense so that fresh ids stay unique along a path
        for (x, t) in bs {
            while (c.len() as Var) < x {
                c.push((c.len() as Var, VT::Unit)); // never happens: ids are allocated densely
            }
            c.push((x, t));
        }
        c
    }

    /// all values of type `ty` with exactly `n` nodes
    pub fn vals(&self, ctx: &Ctx, ty: &VT, n: usize) -> Vec<V> {
        let mut out = vec![];
        if n == 0 {
            return out;
        }
        if n == 1 {
            for x in self.vars_of(ctx, ty) {
                out.push(V::Var(x));
            }
            match ty {
                | VT::Unit => out.push(V::Unit),
                | VT::Int => out.extend(self.menu.ints.iter().map(|i| V::Int(*i))),
                | VT::Str => out.push(V::Str("s".into())),
                | _ => {}
            }
            return out;
        }
        // projections out of product variables
        if n == 2 {
            for (x, t) in ctx.iter().rev() {
                if let VT::Prod(cs) = t {
                    for c in cs {
                        if let VT::Named(l, inner) = c {
                            if **inner == *ty && self.vars_of(ctx, t).contains(x) {
                                out.push(V::Proj(Box::new(V::Var(*x)), l.clone(), t.clone()));
                            }
                        }
                    }
                }
            }
        }
        match ty {
            | VT::Prod(cs) => {
                for split in splits(n - 1, cs.len()) {
                    let lists: Vec<Vec<V>> = cs.iter().zip(&split).map(|(c, k)| self.vals(ctx, c, *k)).collect();
                    for items in product(&lists) {
                        out.push(V::Tuple(items));
                    }
                }
            }
            | VT::Named(l, t) => {
                for v in self.vals(ctx, t, n - 1) {
                    out.push(V::Named(l.clone(), Box::new(v)));
                }
            }
            | VT::Data(d) => {
                for (k, (_, pt)) in self.data[*d].ctors.iter().enumerate() {
                    for v in self.vals(ctx, pt, n - 1) {
                        out.push(V::Ctor(*d, k, Box::new(v)));
                    }
                }
            }
            | VT::Thk(c) => {
                for body in self.comps(ctx, c, n - 1) {
                    out.push(V::Thunk(Box::new(body), (**c).clone()));
                }
            }
            | _ => {}
        }
        out
    }

    /// all computations of type `ty` with exactly `n` nodes
    pub fn comps(&self, ctx: &Ctx, ty: &CT, n: usize) -> Vec<C> {
        let mut out = vec![];
        if n < 2 {
            return out;
        }
        // introduction forms
        match ty {
            | CT::Ret(a) => {
                for v in self.vals(ctx, a, n - 1) {
                    out.push(C::Ret(v));
                }
                if self.menu.exec && **a == VT::Int && n >= 3 {
                    for split in splits(n - 1, 2) {
                        for a1 in self.vals(ctx, &VT::Int, split[0]) {
                            for b1 in self.vals(ctx, &VT::Int, split[1]) {
                                for op in [Op::Add, Op::Sub, Op::Mul, Op::Div] {
                                    out.push(C::Arith(op, a1.clone(), b1.clone()));
                                }
                            }
                        }
                    }
                }
            }
            | CT::Fn(a, b) => {
                for p in self.pats(ctx, a) {
                    let c2 = Self::extend(ctx, &p);
                    for body in self.comps(&c2, b, n - 1) {
                        out.push(C::Fn(p.clone(), Box::new(body)));
                    }
                }
            }
            | CT::Codata(d) => {
                let k = self.codata[*d].dtors.len();
                for split in splits(n - 1, k) {
                    let lists: Vec<Vec<C>> = self.codata[*d].dtors.iter().zip(&split).map(|((_, t), m)| self.comps(ctx, t, *m)).collect();
                    for arms in product(&lists) {
                        out.push(C::Comatch(*d, arms));
                    }
                }
            }
            | CT::Os => {
                if self.menu.exec {
                    for v in self.vals(ctx, &VT::Int, n - 1) {
                        out.push(C::Exit(v));
                    }
                    for split in splits(n - 1, 2) {
                        for v in self.vals(ctx, &VT::Int, split[0]) {
                            for k in self.comps(ctx, &CT::Os, split[1]) {
                                out.push(C::WriteInt(v.clone(), Box::new(k)));
                            }
                        }
                    }
                }
            }
        }
        // force of a thunk variable
        if n == 2 {
            for x in self.vars_of(ctx, &thk(ty.clone())) {
                out.push(C::Force(V::Var(x)));
            }
        }
        // force of a projected thunk
        if n == 3 {
            for v in self.vals(ctx, &thk(ty.clone()), 2) {
                if matches!(v, V::Proj(..)) {
                    out.push(C::Force(v));
                }
            }
        }
        // beta-redex on thunks: `! { c }`
        if self.menu.redex && n >= 4 {
            for body in self.comps(ctx, ty, n - 2) {
                out.push(C::Force(V::Thunk(Box::new(body), ty.clone())));
            }
        }
        // application
        for a in &self.menu.vts {
            for split in splits(n - 1, 2) {
                let fs = self.comps(ctx, &func(a.clone(), ty.clone()), split[0]);
                if fs.is_empty() {
                    continue;
                }
                let vs = self.vals(ctx, a, split[1]);
                for f in &fs {
                    if !self.menu.redex && matches!(f, C::Fn(..)) {
                        continue;
                    }
                    for v in &vs {
                        out.push(C::App(Box::new(f.clone()), v.clone()));
                    }
                }
            }
        }
        // do
        for a in &self.menu.vts {
            if matches!(a, VT::Thk(_)) {
                continue;
            }
            for split in splits(n - 1, 2) {
                let c1s = self.comps(ctx, &ret(a.clone()), split[0]);
                if c1s.is_empty() {
                    continue;
                }
                for p in self.pats(ctx, a) {
                    let ctx2 = Self::extend(ctx, &p);
                    let c2s = self.comps(&ctx2, ty, split[1]);
                    for c1 in &c1s {
                        for c2 in &c2s {
                            out.push(C::Do(p.clone(), Box::new(c1.clone()), Box::new(c2.clone())));
                        }
                    }
                }
            }
        }
        // let
        for a in &self.menu.vts {
            for split in splits(n - 1, 2) {
                let vs = self.vals(ctx, a, split[0]);
                if vs.is_empty() {
                    continue;
                }
                for p in self.pats(ctx, a) {
                    let ctx2 = Self::extend(ctx, &p);
                    let bodies = self.comps(&ctx2, ty, split[1]);
                    for v in &vs {
                        // `let x = y` of a variable is uninteresting except for shadowing: keep it
                        for b in &bodies {
                            out.push(C::Let(p.clone(), v.clone(), a.clone(), Box::new(b.clone())));
                        }
                    }
                }
            }
        }
        // single-arm irrefutable match on a non-data scrutinee
        if self.menu.irrefutable_matches && n >= 4 {
            for a in &self.menu.vts {
                if matches!(a, VT::Data(_) | VT::Thk(_)) {
                    continue;
                }
                for split in splits(n - 1, 2) {
                    let vs = self.vals(ctx, a, split[0]);
                    if vs.is_empty() {
                        continue;
                    }
                    for p in self.pats(ctx, a) {
                        let ctx2 = Self::extend(ctx, &p);
                        let bodies = self.comps(&ctx2, ty, split[1]);
                        for v in &vs {
                            for b in &bodies {
                                out.push(C::Match(v.clone(), usize::MAX, vec![(p.clone(), b.clone())]));
                            }
                        }
                    }
                }
            }
        }
        // match
        for d in &self.menu.datas {
            let k = self.data[*d].ctors.len();
            for split in splits(n - 1, k + 1) {
                let vs = self.vals(ctx, &VT::Data(*d), split[0]);
                if vs.is_empty() {
                    continue;
                }
                let mut arm_lists: Vec<Vec<Vec<(Pat, C)>>> = vec![];
                for (ki, (_, pt)) in self.data[*d].ctors.iter().enumerate() {
                    // each alternative is a list of arms that together cover constructor `ki`
                    let mut alternatives: Vec<Vec<(Pat, C)>> = vec![];
                    for p in self.pats(ctx, pt) {
                        let full = Pat::Ctor(*d, ki, Box::new(p));
                        let ctx2 = Self::extend(ctx, &full);
                        for b in self.comps(&ctx2, ty, split[ki + 1]) {
                            alternatives.push(vec![(full.clone(), b)]);
                        }
                    }
                    if self.menu.nested_patterns {
                        for group in self.nested_splits(ctx, pt) {
                            // the arms of a split share the size budget: first arm gets the budget, others size 2
                            let mut per_arm: Vec<Vec<(Pat, C)>> = vec![];
                            for (gi, p) in group.iter().enumerate() {
                                let full = Pat::Ctor(*d, ki, Box::new(p.clone()));
                                let ctx2 = Self::extend(ctx, &full);
                                let sz = if gi == 0 { split[ki + 1] } else { 2 };
                                per_arm.push(self.comps(&ctx2, ty, sz).into_iter().map(|b| (full.clone(), b)).collect());
                            }
                            for combo in product(&per_arm) {
                                alternatives.push(combo.clone());
                                // and in the opposite arm order (first-match semantics)
                                let mut rev = combo;
                                rev.reverse();
                                alternatives.push(rev);
                            }
                        }
                    }
                    arm_lists.push(alternatives);
                }
                let combos = product(&arm_lists);
                for v in &vs {
                    for arms in &combos {
                        out.push(C::Match(v.clone(), *d, arms.iter().flatten().cloned().collect()));
                    }
                }
            }
        }
        // match with a default arm: first constructor explicit, everything else through `_` or a variable
        if self.menu.default_arms {
            for d in &self.menu.datas {
                for split in splits(n - 1, 3) {
                    let vs = self.vals(ctx, &VT::Data(*d), split[0]);
                    if vs.is_empty() {
                        continue;
                    }
                    let (_, pt) = &self.data[*d].ctors[0];
                    let mut firsts = vec![];
                    for p in self.pats(ctx, pt) {
                        let full = Pat::Ctor(*d, 0, Box::new(p));
                        let ctx2 = Self::extend(ctx, &full);
                        for b in self.comps(&ctx2, ty, split[1]) {
                            firsts.push((full.clone(), b));
                        }
                    }
                    let mut defaults = vec![];
                    for b in self.comps(ctx, ty, split[2]) {
                        defaults.push((Pat::Wild(VT::Data(*d)), b));
                    }
                    let pv = Pat::Var(ctx.len() as Var, VT::Data(*d));
                    let ctx2 = Self::extend(ctx, &pv);
                    for b in self.comps(&ctx2, ty, split[2]) {
                        defaults.push((pv.clone(), b));
                    }
                    for v in &vs {
                        for f in &firsts {
                            for dflt in &defaults {
                                out.push(C::Match(v.clone(), *d, vec![f.clone(), dflt.clone()]));
                            }
                        }
                    }
                }
            }
        }
        // destructor
        for d in &self.menu.codatas {
            for (k, (_, t)) in self.codata[*d].dtors.iter().enumerate() {
                if t == ty {
                    for c in self.comps(ctx, &CT::Codata(*d), n - 1) {
                        out.push(C::Dtor(Box::new(c), *d, k));
                    }
                }
            }
        }
        // fix
        if self.menu.fix && !matches!(ty, CT::Ret(_)) {
            let f = ctx.len() as Var;
            let mut ctx2 = ctx.clone();
            ctx2.push((f, thk(ty.clone())));
            for b in self.comps(&ctx2, ty, n - 1) {
                out.push(C::Fix(f, ty.clone(), Box::new(b)));
            }
        }
        // comparison branches (executable slice)
        if self.menu.exec && n >= 7 {
            for split in splits(n - 1, 4) {
                if split[0] > 1 || split[1] > 1 {
                    continue;
                }
                for a in self.vals(ctx, &VT::Int, split[0]) {
                    for b in self.vals(ctx, &VT::Int, split[1]) {
                        for t in self.comps(ctx, ty, split[2]) {
                            for e in self.comps(ctx, ty, split[3]) {
                                out.push(C::IfLt(a.clone(), b.clone(), ty.clone(), Box::new(t.clone()), Box::new(e.clone())));
                            }
                        }
                    }
                }
            }
        }
        out
    }

    /// all closed computations of type `ty` with at most `n` nodes, simplest first
    pub fn programs(&self, ty: &CT, n: usize) -> Vec<C> {
        let mut out = vec![];
        for k in 2..=n {
            out.extend(self.comps(&vec![], ty, k));
        }
        out
    }
}

/* ----------------------------------- profiles ---------------------------------- */

pub fn pair() -> VT {
    VT::Prod(vec![VT::Int, VT::Int])
}
/// `(a :: Int64) * (b :: Int64 * Int64)`: last named component is itself a product
pub fn rec_nested() -> VT {
    VT::Prod(vec![named("a", VT::Int), named("b", pair())])
}
/// `Int64 * Bool * Int64`: a flat product of width three with mixed component types
pub fn triple() -> VT {
    VT::Prod(vec![VT::Int, VT::Data(BOOL), VT::Int])
}
pub fn rec_flat() -> VT {
    VT::Prod(vec![named("a", VT::Int), named("b", VT::Data(BOOL))])
}

#[derive(Clone, Debug)]
pub struct Profile {
    pub name: &'static str,
    pub menu: Menu,
    pub roots: Vec<CT>,
    pub size: usize,
}

pub fn profiles(thorough: bool) -> Vec<Profile> {
    let d = if thorough { 3 } else { 2 };
    let base = Menu { vts: vec![], datas: vec![], codatas: vec![], ints: vec![1, 2], fix: false, exec: false, redex: false, vars_per_type: 2, alias_patterns: false, projection_patterns: false, irrefutable_matches: false, default_arms: false, nested_patterns: false };
    vec![
        Profile {
            name: "functions",
            menu: Menu { vts: vec![VT::Int, thk(func(VT::Int, ret(VT::Int))), thk(ret(VT::Int))], redex: true, ..base.clone() },
            roots: vec![ret(VT::Int)],
            size: 8 + d,
        },
        Profile {
            name: "products",
            menu: Menu { vts: vec![VT::Int, pair(), rec_nested(), rec_flat()], alias_patterns: true, ints: vec![1, 2], ..base.clone() },
            roots: vec![ret(VT::Int), ret(pair())],
            size: 7 + d,
        },
        Profile {
            name: "projection-patterns",
            menu: Menu { vts: vec![VT::Int, rec_nested(), rec_flat()], projection_patterns: true, ints: vec![1, 2], ..base.clone() },
            roots: vec![ret(VT::Int)],
            size: 7 + d,
        },
        Profile {
            name: "irrefutable-matches",
            menu: Menu { vts: vec![VT::Int, pair()], irrefutable_matches: true, alias_patterns: false, ints: vec![1, 2], vars_per_type: 1, ..base.clone() },
            roots: vec![ret(VT::Int)],
            size: 7 + d,
        },
        Profile {
            name: "wide-products",
            menu: Menu { vts: vec![VT::Int, VT::Data(BOOL), triple(), VT::Data(BOX3)], datas: vec![BOOL, BOX3], ints: vec![1, 2], vars_per_type: 2, ..base.clone() },
            roots: vec![ret(VT::Int)],
            size: 8 + d,
        },
        Profile {
            name: "data",
            menu: Menu { vts: vec![VT::Int, VT::Data(BOOL), VT::Data(OPT), VT::Data(TWO)], datas: vec![BOOL, OPT, TWO], ints: vec![1], ..base.clone() },
            roots: vec![ret(VT::Int), ret(VT::Data(BOOL))],
            size: 8 + d,
        },
        Profile {
            name: "match-default",
            menu: Menu { vts: vec![VT::Int, VT::Data(BOOL), VT::Data(OPT)], datas: vec![BOOL, OPT, NAT], default_arms: true, ints: vec![1, 2], ..base.clone() },
            roots: vec![ret(VT::Int)],
            size: 6 + d,
        },
        Profile {
            name: "nested-patterns",
            menu: Menu { vts: vec![VT::Data(PB)], datas: vec![TWO, PB], nested_patterns: true, ints: vec![1, 2], vars_per_type: 1, ..base.clone() },
            roots: vec![ret(VT::Int)],
            size: 11 + d,
        },
        Profile {
            name: "recursive-data",
            menu: Menu { vts: vec![VT::Int, VT::Data(NAT), VT::Data(LIST)], datas: vec![NAT, LIST], ints: vec![1], ..base.clone() },
            roots: vec![ret(VT::Int), ret(VT::Data(NAT))],
            size: 8 + d,
        },
        Profile {
            name: "codata",
            menu: Menu { vts: vec![VT::Int, thk(CT::Codata(OBJ))], codatas: vec![OBJ], ints: vec![1, 2], ..base.clone() },
            roots: vec![ret(VT::Int)],
            size: 9 + d,
        },
        Profile {
            name: "codata-inplace",
            menu: Menu { vts: vec![VT::Int], codatas: vec![FUN1], ints: vec![1], vars_per_type: 2, ..base.clone() },
            roots: vec![ret(VT::Int)],
            size: 11 + d,
        },
        Profile {
            name: "fix",
            menu: Menu { vts: vec![VT::Int, VT::Data(NAT)], datas: vec![NAT], fix: true, ints: vec![1], ..base.clone() },
            roots: vec![ret(VT::Int)],
            size: 9 + d,
        },
        Profile {
            name: "exec",
            menu: Menu { vts: vec![VT::Int], exec: true, ints: vec![0, 2, 7], ..base.clone() },
            roots: vec![CT::Os],
            size: 7 + d,
        },
        Profile {
            name: "exec-arith",
            menu: Menu { vts: vec![VT::Int, thk(ret(VT::Int))], exec: true, ints: vec![0, 3], ..base.clone() },
            roots: vec![ret(VT::Int)],
            size: 6 + d,
        },
    ]
}
