//! C10 — the front end is total.
use crate::common::*;
use crate::corpus::*;
use crate::front::*;
use crate::reflex;
use crate::subject::*;
use std::time::Duration;
use zydeco_session::CompilerSession;

pub const VOCAB: &[&str] = &[
    // one representative per token kind
    "X", "x", "+A", ".d", "end", "begin", "data", "codata", "as", "def", "let", "param", "in", "that", "do", "ret", "fn", "pi",
    "fix", "match", "comatch", "forall", "exists", "sigma", "1.5", "7", "\"s\"", "'c'", "(", ")", "[", "]", "{", "}", ",", ":",
    "::", "=", ";", "!", "/", "|", "+", "*", ".", "=>", "->", "<-", "_", "@",
    // extreme lexemes and lexical irregularities
    "99999999999999999999999999999999999999999", "-99999999999999999999999999999999999999999", "1e400",
    "0.00000000000000000000000000000000000000000000000000000000000000001", "\"\\n\\t\\\\\\\"\\q\"", "'\\n'", "_x", "\u{1}", "$",
    "\"", "'", "\r", "\u{a0}", "🙂", "-/", "/-", "--|t\n", "intrinsic", "import", "\"f.zy\"", "é",
];

fn join(seq: &[usize]) -> String {
    seq.iter().map(|&i| VOCAB[i]).collect::<Vec<_>>().join(" ")
}

fn assess(scratch: &Scratch, name: &str, text: &str, r: &mut CaseResult, label: &str) -> Option<Verdict> {
    let path = scratch.write(name, text);
    let session = CompilerSession::default();
    let out = front_end(&session, &path);
    for (fp, detail) in out.problems {
        r.violations.push(Violation { fingerprint: fp, detail: format!("[{label}] input {:?}\n{}", text, detail) });
    }
    out.verdict
}

/// All token sequences of length <= k over VOCAB.
pub struct Tokens {
    k: usize,
    prefixes: Vec<Vec<usize>>,
    scratch: Option<Scratch>,
}
impl Tokens {
    pub fn new(tier: Tier) -> Self {
        let k = 3;
        let _ = tier;
        let mut prefixes: Vec<Vec<usize>> = vec![vec![]];
        let mut frontier: Vec<Vec<usize>> = vec![vec![]];
        for _ in 1..k {
            let mut next = vec![];
            for p in &frontier {
                for s in 0..VOCAB.len() {
                    let mut q = p.clone();
                    q.push(s);
                    next.push(q);
                }
            }
            prefixes.extend(next.iter().cloned());
            frontier = next;
        }
        Tokens { k, prefixes, scratch: None }
    }
}
impl Check for Tokens {
    fn property(&self) -> &'static str {
        "C10"
    }
    fn name(&self) -> String {
        "c10-tokens".into()
    }
    fn len(&self) -> usize {
        self.prefixes.len()
    }
    fn describe(&self, i: usize) -> String {
        format!("all one-symbol extensions of the token prefix {:?} (vocabulary of {} symbols)", join(&self.prefixes[i]), VOCAB.len())
    }
    fn rule(&self) -> String {
        format!("every sequence of length <= {} over a {}-symbol vocabulary (one lexeme per token kind + extreme lexemes: 41-digit integers, 1e400, long fraction, every escape, unknown characters, lone quotes, CR, NBSP, 4-byte scalar, stray -/ and /-), space-joined; each analysed in-process (CompilerSession::analyze under catch_unwind), diagnostics rendered through ariadne to a buffer, every span checked against the file; case = one prefix with all {} one-symbol extensions; non-trivial = cases where at least one extension gets past the parser; distinct by prefix", self.k, VOCAB.len(), VOCAB.len())
    }
    fn crash_is_violation(&self) -> bool {
        true
    }
    fn timeout(&self) -> Duration {
        Duration::from_secs(30)
    }
    fn run(&mut self, i: usize) -> CaseResult {
        let scratch = self.scratch.get_or_insert_with(|| Scratch::new("c10t"));
        let prefix = self.prefixes[i].clone();
        let mut r = CaseResult::ok("prefix").key(hash64(&join(&prefix)));
        let mut past_parser = 0u64;
        let mut n = 0u64;
        let mut run_one = |seq: &[usize], r: &mut CaseResult| {
            let text = join(seq);
            n += 1;
            if let Some(v) = assess(scratch, "main.zydeco", &text, r, "tokens") {
                if !matches!(v, Verdict::Source(_)) {
                    past_parser += 1;
                }
            }
        };
        if prefix.is_empty() {
            run_one(&[], &mut r);
        }
        for s in 0..VOCAB.len() {
            let mut seq = prefix.clone();
            seq.push(s);
            run_one(&seq, &mut r);
        }
        r.nontrivial = past_parser > 0;
        r.count("inputs", n).count("inputs_past_parser", past_parser)
    }
}

/// Metadata forms: every directive name x argument lists of length <= 2, in both spellings.
pub struct Metadata {
    cases: Vec<String>,
    scratch: Option<Scratch>,
}
impl Metadata {
    pub fn new() -> Self {
        let names = ["import", "intrinsic", "builtin", "format", "doc", "literal", "monadic", "debug", "unknown_directive", "let", "end"];
        let args = [
            "\"f.zy\"", "\"\"", "1", "0", "-1", "99999999999999999999", "-99999999999999999999", "9223372036854775807", "i64", "ret",
            "os", "exit", "nosuch", "width(40)", "width(0)", "width(-1)", "width(99999999999999999999)", "indent(0)", "indent(300)",
            "layout(ignore)", "layout(nosuch)", "verbatim", "verbatim()", "parentheses(minimal)", "f(g(h))", "\"/nonexistent/x.zy\"", "\"../main.zydeco\"",
        ];
        let mut cases = vec![];
        for n in names {
            let mut lists: Vec<String> = vec![String::new(), "()".into()];
            for a in args {
                lists.push(format!("({a})"));
                lists.push(format!("({a},)"));
            }
            for a in args {
                for b in args {
                    lists.push(format!("({a}, {b})"));
                }
            }
            for l in lists {
                cases.push(format!("@[{n}{l}] _"));
                cases.push(format!("@({n}{l})"));
                cases.push(format!("--| text\n@[{n}{l}] ret ()"));
            }
        }
        Metadata { cases, scratch: None }
    }
}
impl Check for Metadata {
    fn property(&self) -> &'static str {
        "C10"
    }
    fn name(&self) -> String {
        "c10-metadata".into()
    }
    fn len(&self) -> usize {
        self.cases.len()
    }
    fn describe(&self, i: usize) -> String {
        self.cases[i].clone()
    }
    fn rule(&self) -> String {
        "every directive name (import, intrinsic, builtin, format, doc, literal, monadic, debug, an unknown name, two keywords) x every argument list of length <= 2 over 27 argument forms (strings, small/huge/negative integers, role identifiers, format options in and out of range, nested calls, missing and self-referential paths), in bracket, parenthesis-sugar and documented forms; full front end + diagnostic rendering; non-trivial = inputs that get past parsing; distinct by text".into()
    }
    fn crash_is_violation(&self) -> bool {
        true
    }
    fn run(&mut self, i: usize) -> CaseResult {
        let scratch = self.scratch.get_or_insert_with(|| Scratch::new("c10m"));
        let text = self.cases[i].clone();
        let mut r = CaseResult::ok("meta").key(hash64(&text));
        let v = assess(scratch, "main.zydeco", &text, &mut r, "metadata");
        if let Some(v) = v {
            r.class = format!("meta-{}", v.tag());
            r.nontrivial = !matches!(v, Verdict::Source(_));
        }
        r
    }
}

pub const FRAGS: &[&str] = &[
            "()", "x", "X", "1", "1.5", "\"s\"", "'c'", "_", "{ ret () }", "! x", "ret x", "begin ret () end", "comatch .d => ret () end",
            "data end", "data | +A : X end", "codata end", "codata | .d : X end", "codata | .d .e : X end", "codata | .d x : X end", "+A ()", "+A(x)", "match x end",
            "match x | +A() => ret () end", "comatch end", "comatch | .d => ret () end", "comatch | .d x .e => ret () end", "x/a", "x y", "x .d", "X * Y", "X -> Y", "pi X . Y",
            "pi .d . Y", "forall (X : K) . Y", "forall .d . Y", "sigma (X : K) . Y", "sigma .d . Y", "exists (X : K) . Y", "exists (X as Y) . Z",
            "exists (X = Y as Z : K) . W", "fn x => ret x", "fn .d => ret ()", "fn .d x .e => ret ()", "fix x => ret ()", "fix _ => ret ()", "fix (f; g) => ret ()", "fix +A(x) => ret ()",
            "do x <- ret (); ret x", "do (x, y) <- ret (); ret x", "param x in ret x", "param (x : X) that ret x", "let x = 1 in ret x", "let x = 1 that ret x",
            "let ! f x = ret x in ret ()", "let fix f (x : X) : Y = ret x in ret ()", "def x = 1 in ret x", "def ! fix f .d x : Y = ret x in ret ()", "@[doc] x", "@(intrinsic(ret))", "(x : X)", "(a = x)",
            "(= a)", "(= a : X)", "(a :: X)", "(x, y)", "(x, y,)", "(x; y)", "(/a)", "(/a = x)", "x as y",
        ];
pub const CTXS: &[&str] = &[
            "HOLE", "ret HOLE", "! HOLE", "{ HOLE }", "+A HOLE", "HOLE HOLE", "HOLE .d", "HOLE/a", "(HOLE : HOLE)", "let x = HOLE in HOLE",
            "let x : HOLE = () in ret x", "let HOLE = () in ret ()", "do x <- HOLE; HOLE", "fn (x : HOLE) => ret x", "match HOLE | x => HOLE end",
            "match () | HOLE => ret () end", "comatch | HOLE => ret () end", "fix (x : HOLE) => HOLE", "data | +A : HOLE end", "codata | .d : HOLE end", "codata | .d HOLE : X end",
            "HOLE * HOLE", "HOLE -> HOLE", "forall (X : HOLE) . HOLE", "pi (x : HOLE) . HOLE", "sigma (x : HOLE) . HOLE", "exists (X : HOLE) . HOLE", "exists (X as HOLE) . X",
            "begin HOLE end", "begin let x = HOLE that ret x end", "param (x : HOLE) in ret x", "(a = HOLE)", "(a :: HOLE)", "@[doc] HOLE", "let Ret = @(intrinsic(ret)) in let T = HOLE in ret ()",
            "let Ret = @(intrinsic(ret)) in (HOLE : Ret @(intrinsic(unit)))", "let x = 1 that HOLE",
        ];

/// Syntactically valid (or nearly valid) but ill-formed terms: every production at the wrong sort,
/// empty forms, misplaced binders.
pub struct IllFormed {
    cases: Vec<String>,
    scratch: Option<Scratch>,
}
impl IllFormed {
    pub fn new() -> Self {
        // term fragments of every production
        let frags: Vec<&str> = FRAGS.to_vec();
                // contexts with one hole each, at every sort
        let ctxs: Vec<&str> = CTXS.to_vec();
                let mut cases = vec![];
        for c in &ctxs {
            for f in &frags {
                cases.push(c.replace("HOLE", &format!("({f})")));
                cases.push(c.replace("HOLE", f));
            }
        }
        cases.sort();
        cases.dedup();
        IllFormed { cases, scratch: None }
    }
}
impl Check for IllFormed {
    fn property(&self) -> &'static str {
        "C10"
    }
    fn name(&self) -> String {
        "c10-illformed".into()
    }
    fn len(&self) -> usize {
        self.cases.len()
    }
    fn describe(&self, i: usize) -> String {
        self.cases[i].clone()
    }
    fn rule(&self) -> String {
        "every one of 70 term fragments (one per grammar production and binder/sort variant, incl. destructors in parameter positions, empty match/comatch/data/codata, non-variable fix binders, `that` without `begin`) substituted, bare and parenthesised, into every hole of 37 one-hole contexts covering each syntactic position and sort; full front end + diagnostic rendering; non-trivial = inputs that get past parsing".into()
    }
    fn crash_is_violation(&self) -> bool {
        true
    }
    fn run(&mut self, i: usize) -> CaseResult {
        let scratch = self.scratch.get_or_insert_with(|| Scratch::new("c10i"));
        let text = self.cases[i].clone();
        let mut r = CaseResult::ok("ill").key(hash64(&text));
        let v = assess(scratch, "main.zydeco", &text, &mut r, "illformed");
        if let Some(v) = v {
            r.class = format!("ill-{}", v.tag());
            r.nontrivial = !matches!(v, Verdict::Source(_));
        }
        r
    }
}

/// Arbitrary bytes: all byte strings of length <= 3 over a small alphabet incl. invalid UTF-8, NUL, BOM parts.
pub struct Bytes {
    scratch: Option<Scratch>,
}
const BYTE_ALPHA: [u8; 12] = [0x00, b'x', b'(', b'"', b'\'', b'-', b'/', 0xC3, 0xA9, 0xFF, 0xEF, b'\n'];
impl Check for Bytes {
    fn property(&self) -> &'static str {
        "C10"
    }
    fn name(&self) -> String {
        "c10-bytes".into()
    }
    fn len(&self) -> usize {
        1 + 12 + 144
    }
    fn describe(&self, i: usize) -> String {
        format!("all one-byte extensions of the byte prefix {:?} over alphabet {:02x?}", byte_prefix(i), BYTE_ALPHA)
    }
    fn rule(&self) -> String {
        "every byte string of length <= 3 over a 12-byte alphabet (NUL, invalid UTF-8 lead/continuation bytes, 0xFF, quotes, comment markers) written as a real file and analysed; also as the content of an imported file; non-trivial = valid UTF-8 inputs".into()
    }
    fn crash_is_violation(&self) -> bool {
        true
    }
    fn run(&mut self, i: usize) -> CaseResult {
        let scratch = self.scratch.get_or_insert_with(|| Scratch::new("c10b"));
        let prefix = byte_prefix(i);
        let mut r = CaseResult::ok("bytes").key(hash64(&format!("{:?}", prefix)));
        let mut valid = 0;
        for &b in &BYTE_ALPHA {
            let mut bytes = prefix.clone();
            bytes.push(b);
            if std::str::from_utf8(&bytes).is_ok() {
                valid += 1;
            }
            let p = scratch.path("main.zydeco");
            std::fs::write(&p, &bytes).unwrap();
            let session = CompilerSession::default();
            let out = front_end(&session, &p);
            for (fp, d) in out.problems {
                r.violations.push(Violation { fingerprint: fp, detail: format!("[bytes root] {:02x?}\n{}", bytes, d) });
            }
            // as an imported provider
            std::fs::write(scratch.path("dep.zy"), &bytes).unwrap();
            std::fs::write(scratch.path("imp.zydeco"), "@(import(\"dep.zy\"))").unwrap();
            let session = CompilerSession::default();
            let out = front_end(&session, &scratch.path("imp.zydeco"));
            for (fp, d) in out.problems {
                r.violations.push(Violation { fingerprint: fp, detail: format!("[bytes import] {:02x?}\n{}", bytes, d) });
            }
        }
        r.nontrivial = valid > 0;
        r.count("inputs", 24)
    }
}
fn byte_prefix(i: usize) -> Vec<u8> {
    if i == 0 {
        vec![]
    } else if i <= 12 {
        vec![BYTE_ALPHA[i - 1]]
    } else {
        let j = i - 13;
        vec![BYTE_ALPHA[j / 12], BYTE_ALPHA[j % 12]]
    }
}

/// Single-token edits of repository sources (overlay over the original path so imports resolve).
pub struct Edits {
    /// (file index, token index)
    sites: Vec<(usize, usize)>,
    files: Vec<(std::path::PathBuf, String, Vec<reflex::Tok>)>,
    symbols: Vec<&'static str>,
    session: Option<CompilerSession>,
    minis: usize,
    scratch: Option<Scratch>,
}
impl Edits {
    pub fn new(tier: Tier) -> Self {
        let mut files = vec![];
        for (k, m) in MINIS.iter().enumerate() {
            files.push((std::path::PathBuf::from(format!("mini{k}.zydeco")), m.to_string(), reflex::code_tokens(m)));
        }
        let minis = files.len();
        for p in repo_sources() {
            let Ok(text) = std::fs::read_to_string(&p) else { continue };
            let (limit, tlimit) = if tier == Tier::Thorough { (4000, 60_000) } else { (700, 3000) };
            if text.len() > limit || transitive_size(&p) > tlimit {
                continue;
            }
            let toks = reflex::code_tokens(&text);
            files.push((p, text, toks));
        }
        let mut sites = vec![];
        for (fi, f) in files.iter().enumerate() {
            for ti in 0..f.2.len() {
                sites.push((fi, ti));
            }
        }
        let symbols: Vec<&'static str> = if tier == Tier::Thorough {
            VOCAB.to_vec()
        } else {
            vec!["x", "X", "+A", ".d", "end", "that", "in", "(", ")", "=", ":", "_", "|", "7", "\"s\"", "-/", "/-", "@", "$", "99999999999999999999999999999999999999999"]
        };
        Edits { sites, files, symbols, session: None, minis, scratch: None }
    }
}
impl Check for Edits {
    fn property(&self) -> &'static str {
        "C10"
    }
    fn name(&self) -> String {
        "c10-edits".into()
    }
    fn len(&self) -> usize {
        self.sites.len()
    }
    fn describe(&self, i: usize) -> String {
        let (fi, ti) = self.sites[i];
        let f = &self.files[fi];
        let t = &f.2[ti];
        format!("file {} token #{} {:?} at bytes {}..{}: delete, duplicate, swap with next, replace by each of {} symbols", f.0.display(), ti, &f.1[t.start..t.end], t.start, t.end, self.symbols.len())
    }
    fn rule(&self) -> String {
        format!("for every code token (reference scanner) of every mini-corpus source and every repository source up to the tier's size limit: delete it, duplicate it, swap it with its successor, replace it by each of {} symbols; the edited text is installed as an overlay over the original path of a long-lived session (imports resolve as in the editor) and analysed fully with diagnostics rendered; case = one token site; non-trivial = sites where at least one edit still parses; {} files, {} sites", self.symbols.len(), self.files.len(), self.sites.len())
    }
    fn crash_is_violation(&self) -> bool {
        true
    }
    fn timeout(&self) -> Duration {
        Duration::from_secs(120)
    }
    fn exhaustive(&self) -> bool {
        false
    }
    fn run(&mut self, i: usize) -> CaseResult {
        let (fi, ti) = self.sites[i];
        let (path, text, toks) = self.files[fi].clone();
        let t = toks[ti].clone();
        let mut edits: Vec<String> = vec![];
        edits.push(format!("{}{}", &text[..t.start], &text[t.end..]));
        edits.push(format!("{}{} {}", &text[..t.end], " ", &text[t.start..]));
        if ti + 1 < toks.len() {
            let u = &toks[ti + 1];
            edits.push(format!("{}{}{}{}{}", &text[..t.start], &text[u.start..u.end], &text[t.end..u.start], &text[t.start..t.end], &text[u.end..]));
        }
        for s in &self.symbols {
            edits.push(format!("{}{}{}", &text[..t.start], s, &text[t.end..]));
        }
        let mut r = CaseResult::ok("site").key(hash64(&format!("{}#{}", path.display(), ti)));
        let mut parsed = 0u64;
        let is_mini = fi < self.minis;
        let scratch = self.scratch.get_or_insert_with(|| Scratch::new("c10e"));
        let session = self.session.get_or_insert_with(CompilerSession::default);
        for e in &edits {
            let target = if is_mini { scratch.write("main.zydeco", e) } else { path.clone() };
            let ok = guarded(|| {
                if !is_mini {
                    session.set_overlay(&target, e.clone()).ok();
                }
            });
            if ok.is_err() {
                r.violations.push(Violation { fingerprint: "set_overlay panicked".into(), detail: format!("{}", path.display()) });
                self.session = None;
                return r;
            }
            let out = if is_mini { front_end(&CompilerSession::default(), &target) } else { front_end(session, &target) };
            if let Some(v) = &out.verdict {
                if !matches!(v, Verdict::Source(_)) {
                    parsed += 1;
                }
            }
            let broken = out.verdict.is_none();
            for (fp, d) in out.problems {
                r.violations.push(Violation { fingerprint: fp, detail: format!("[edit of {}] edited text:\n{}\n{}", path.display(), e, d) });
            }
            if broken {
                // a panic may leave the salsa session poisoned: start afresh
                self.session = None;
                return r.count("inputs", edits.len() as u64);
            }
        }
        if !is_mini {
            let _ = guarded(|| session.clear_overlay(&path).ok());
        }
        r.nontrivial = parsed > 0;
        r.count("inputs", edits.len() as u64).count("inputs_past_parser", parsed)
    }
}

/// Ill-typed (and some still well-typed) generated programs: every single-site mutant of the
/// System-F / F-omega universe, through the full front end with diagnostics rendered.
pub struct Mutants {
    texts: Vec<String>,
    chunk: usize,
    scratch: Option<Scratch>,
}
impl Mutants {
    pub fn new(tier: Tier) -> Self {
        let stride = if tier == Tier::Thorough { 1 } else { 6 };
        let mut texts = vec![];
        let mut k = 0usize;
        for p in crate::poly::universe(tier) {
            for (_, m) in crate::poly::mutants(&p) {
                if k % stride == 0 {
                    texts.push(crate::poly::program(&m, false));
                }
                k += 1;
            }
        }
        Mutants { texts, chunk: 64, scratch: None }
    }
}
impl Check for Mutants {
    fn property(&self) -> &'static str {
        "C10"
    }
    fn name(&self) -> String {
        "c10-generated-mutants".into()
    }
    fn len(&self) -> usize {
        self.texts.len().div_ceil(self.chunk)
    }
    fn describe(&self, i: usize) -> String {
        format!("mutants #{}..; first:\n{}", i * self.chunk, self.texts[i * self.chunk])
    }
    fn rule(&self) -> String {
        format!("every {} single-site mutant of the System-F / F-omega universe ({} programs: wrong variable, wrong type argument, wrong annotation, wrong package witness, escaping abstract type — mostly ill typed, in many different ways), each through the full front end with every diagnostic rendered (ariadne and the CLI renderer) and every span checked; non-trivial = every chunk", if self.texts.len() > 60000 { "" } else { "sixth" }, self.texts.len())
    }
    fn timeout(&self) -> std::time::Duration {
        std::time::Duration::from_secs(120)
    }
    fn crash_is_violation(&self) -> bool {
        true
    }
    fn run(&mut self, i: usize) -> CaseResult {
        let scratch = self.scratch.get_or_insert_with(|| Scratch::new("c10m"));
        let a = i * self.chunk;
        let b = (a + self.chunk).min(self.texts.len());
        let mut r = CaseResult::ok("chunk").key(i as u64).nontrivial(true);
        for t in &self.texts[a..b] {
            let v = assess(scratch, "main.zydeco", t, &mut r, "mutant");
            if let Some(v) = v {
                r = r.count(&format!("verdict_{}", v.tag()), 1);
            }
        }
        r
    }
}

/// Type inference stress: unannotated functions applied to structures that contain the function
/// (or its own parameter) again — every position where an inference variable could end up inside its
/// own solution.
pub struct Inference {
    cases: Vec<String>,
    chunk: usize,
    scratch: Option<Scratch>,
}
impl Inference {
    fn args(n: usize) -> Vec<String> {
        // value terms with exactly n nodes over the atoms F (the function), (), 1
        if n == 1 {
            return vec!["F".into(), "()".into(), "1".into()];
        }
        let mut out = vec![];
        for a in Self::args(n - 1) {
            out.push(format!("(a = {a})"));
            out.push(format!("{{ ret {a} }}"));
            out.push(format!("{{ ! F {a} }}"));
            out.push(format!("+K({a})"));
        }
        for k in 1..n - 1 {
            for a in Self::args(k) {
                for b in Self::args(n - 1 - k) {
                    out.push(format!("({a}, {b})"));
                }
            }
        }
        if n >= 4 {
            for a in Self::args(1) {
                for b in Self::args(1) {
                    for c in Self::args(n - 3) {
                        out.push(format!("({a}, {b}, {c})"));
                    }
                }
            }
        }
        out
    }
    pub fn new(tier: Tier) -> Self {
        let max = if tier == Tier::Thorough { 5 } else { 4 };
        let mut args = vec![];
        for n in 1..=max {
            args.extend(Self::args(n));
        }
        let ctxs = [
            "let Ret = @(intrinsic(ret)) in let f = { fn x => ret x } in ! f ARG",
            "let Ret = @(intrinsic(ret)) in let f = { fn x => ret x } in do y <- ! f ARG; ! f y",
            "let Ret = @(intrinsic(ret)) in let f = { fn x y => ret x } in ! f ARG ARG",
            "let Ret = @(intrinsic(ret)) in let g = { fn f => ! f ARG } in ret 0",
            "let Ret = @(intrinsic(ret)) in (fix f => fn x => ! f ARG) 1",
            "let Ret = @(intrinsic(ret)) in let f = { fn x => ret (x, ARG) } in ! f 1",
        ];
        let mut cases = vec![];
        for c in ctxs {
            for a in &args {
                // only arguments that mention the function are interesting
                if !a.contains('F') {
                    continue;
                }
                cases.push(c.replace("ARG", &a.replace('F', "f")));
            }
        }
        Inference { cases, chunk: 32, scratch: None }
    }
}
impl Check for Inference {
    fn property(&self) -> &'static str {
        "C10"
    }
    fn name(&self) -> String {
        "c10-inference".into()
    }
    fn len(&self) -> usize {
        self.cases.len().div_ceil(self.chunk)
    }
    fn describe(&self, i: usize) -> String {
        format!("programs #{}..; first: {}", i * self.chunk, self.cases[i * self.chunk])
    }
    fn rule(&self) -> String {
        format!("6 contexts around an unannotated function f (applied, applied twice, bound as a parameter and applied, recursive through fix, returning a tuple) x every value term with at most 4 (thorough 5) nodes over {{f, (), 1}} built from pairs, triples, named fields, thunks returning / applying, a constructor, that mentions f ({} programs: self-application through every position of every structure, where an inference variable may occur in its own solution); each through the full front end with diagnostics rendered; a panic, abort, stack overflow or time-out is a violation; non-trivial = every chunk", self.cases.len())
    }
    fn crash_is_violation(&self) -> bool {
        true
    }
    fn timeout(&self) -> std::time::Duration {
        std::time::Duration::from_secs(60)
    }
    fn run(&mut self, i: usize) -> CaseResult {
        let scratch = self.scratch.get_or_insert_with(|| Scratch::new("c10inf"));
        let a = i * self.chunk;
        let b = (a + self.chunk).min(self.cases.len());
        let mut r = CaseResult::ok("chunk").key(i as u64).nontrivial(true);
        for t in &self.cases[a..b] {
            if let Some(v) = assess(scratch, "main.zydeco", t, &mut r, "inference") {
                r = r.count(&format!("verdict_{}", v.tag()), 1);
            }
        }
        r
    }
}

/// Literal bodies, character by character: every string of length <= 3 over a 13-character alphabet
/// (letters, backslash, both quotes, the escape letters, `|`, parentheses, blank, braces, a digit)
/// between single quotes and between double quotes, in an accepted and in a rejected context.
pub struct Literals {
    bodies: Vec<String>,
    chunk: usize,
    scratch: Option<Scratch>,
}
const LIT_ALPHABET: [char; 13] = ['a', '\\', '\'', '"', 'n', '|', '(', ')', ' ', 'u', '{', '}', '0'];
impl Literals {
    pub fn new() -> Self {
        let mut bodies = vec![String::new()];
        let mut frontier = vec![String::new()];
        for _ in 0..3 {
            let mut next = vec![];
            for p in &frontier {
                for c in LIT_ALPHABET {
                    let mut q = p.clone();
                    q.push(c);
                    next.push(q);
                }
            }
            bodies.extend(next.iter().cloned());
            frontier = next;
        }
        Literals { bodies, chunk: 16, scratch: None }
    }
}
impl Check for Literals {
    fn property(&self) -> &'static str {
        "C10"
    }
    fn name(&self) -> String {
        "c10-literals".into()
    }
    fn len(&self) -> usize {
        self.bodies.len().div_ceil(self.chunk)
    }
    fn describe(&self, i: usize) -> String {
        format!("literal bodies #{}..#{}; first {:?} (between single and double quotes, in `ret <lit>` and in `let x = <lit> in ret x x`)", i * self.chunk, (i + 1) * self.chunk, self.bodies[i * self.chunk])
    }
    fn rule(&self) -> String {
        format!("every character string of length <= 3 over the 13-character alphabet {:?} ({} bodies) as the body of a char literal and of a string literal, each in an accepted context (`ret <lit>`) and in a rejected one (`let x = <lit> in ret x x`, so that a diagnostic is rendered): the front end returns a verdict and never unwinds; non-trivial = bodies with a backslash or a quote", LIT_ALPHABET, self.bodies.len())
    }
    fn crash_is_violation(&self) -> bool {
        true
    }
    fn timeout(&self) -> Duration {
        Duration::from_secs(30)
    }
    fn run(&mut self, i: usize) -> CaseResult {
        let scratch = self.scratch.get_or_insert_with(|| Scratch::new("c10l"));
        let a = i * self.chunk;
        let b = ((i + 1) * self.chunk).min(self.bodies.len());
        let mut r = CaseResult::ok("bodies").key(hash64(&format!("lit{i}")));
        let mut nontrivial = false;
        let mut n = 0u64;
        for body in &self.bodies[a..b] {
            if body.contains('\\') || body.contains('\'') || body.contains('"') {
                nontrivial = true;
            }
            for q in ['\'', '"'] {
                for ctx in ["ret LIT", "let x = LIT in\nret x x"] {
                    let text = ctx.replace("LIT", &format!("{q}{body}{q}"));
                    n += 1;
                    assess(scratch, "main.zydeco", &text, &mut r, "literals");
                }
            }
        }
        r.nontrivial = nontrivial;
        r.count("inputs", n)
    }
}

pub fn checks(tier: Tier) -> Vec<Box<dyn Check>> {
    vec![
        Box::new(Inference::new(tier)),
        Box::new(Mutants::new(tier)),
        Box::new(Tokens::new(tier)),
        Box::new(Metadata::new()),
        Box::new(IllFormed::new()),
        Box::new(Bytes { scratch: None }),
        Box::new(Edits::new(tier)),
        Box::new(Literals::new()),
    ]
}
