//! C08 — block contributions are ordered by dependency. Graph level: explicit-state exploration of
//! the real `zydeco_utils::graph` release protocol on every directed graph with <= 4 nodes.
use crate::common::*;
use crate::seed::*;
use std::collections::{BTreeMap, BTreeSet, HashSet};
use zydeco_utils::prelude::{DepGraph, Kosaraju, SccGraph};

#[derive(Clone, Debug)]
pub struct G {
    pub n: usize,
    /// adj[i] bit j set: i depends on j
    pub adj: Vec<u32>,
}

impl G {
    fn from_index(n: usize, idx: u64) -> G {
        let mut adj = vec![0u32; n];
        for i in 0..n {
            adj[i] = ((idx >> (i * n)) & ((1u64 << n) - 1)) as u32;
        }
        G { n, adj }
    }
    fn edges(&self) -> Vec<(usize, usize)> {
        let mut e = vec![];
        for i in 0..self.n {
            for j in 0..self.n {
                if self.adj[i] >> j & 1 == 1 {
                    e.push((i, j));
                }
            }
        }
        e
    }
    /// reference: reachability closure, SCCs as sorted vectors, component-level dependencies
    fn reach(&self) -> Vec<u32> {
        let mut r: Vec<u32> = (0..self.n).map(|i| self.adj[i] | (1 << i)).collect();
        for k in 0..self.n {
            for i in 0..self.n {
                if r[i] >> k & 1 == 1 {
                    r[i] |= r[k];
                }
            }
        }
        r
    }
    pub fn sccs(&self) -> Vec<u32> {
        let r = self.reach();
        let mut comps: BTreeSet<u32> = BTreeSet::new();
        for i in 0..self.n {
            let mut c = 0u32;
            for j in 0..self.n {
                if r[i] >> j & 1 == 1 && r[j] >> i & 1 == 1 {
                    c |= 1 << j;
                }
            }
            comps.insert(c);
        }
        comps.into_iter().collect()
    }
}

/// `mode` 0: every node is registered as a key before the edges are added (what the block resolver
/// does). `mode` 1: only edges are added, so a node without outgoing edges that something depends on
/// exists *only as a dependency target* (never a key of the map); nodes without any edge are still
/// registered, otherwise they would not be part of the graph at all.
fn build(g: &G, ids: &[u32], mode: u8) -> DepGraph<u32> {
    let mut d = DepGraph::new();
    let edges = g.edges();
    for i in 0..g.n {
        if mode == 0 || !edges.iter().any(|(a, b)| *a == i || *b == i) {
            d.add(ids[i], []);
        }
    }
    for (i, j) in edges {
        d.add(ids[i], [ids[j]]);
    }
    d
}

/// Explore the release protocol exhaustively for one graph. Returns (states, transitions, problem).
fn explore(g: &G, ids: &[u32], partial: bool, mode: u8) -> (u64, u64, Option<String>) {
    let comps = g.sccs();
    let deps = build(g, ids, mode);
    let scc0 = Kosaraju::new(&deps).run();
    let idx_of = |id: u32| ids.iter().position(|x| *x == id);
    // expected offers for a released mask
    let expected = |released: u32| -> BTreeSet<u32> {
        let mut out = BTreeSet::new();
        for &c in &comps {
            let remaining = c & !released;
            if remaining == 0 {
                continue;
            }
            // every *component* that c depends on must be released completely (dependencies are
            // between components: a partially released group still blocks its dependents)
            let mut ok = true;
            for i in 0..g.n {
                if c >> i & 1 == 1 {
                    let outside = g.adj[i] & !c;
                    for &d in &comps {
                        if d & outside != 0 && d & !released != 0 {
                            ok = false;
                        }
                    }
                }
            }
            if ok {
                out.insert(remaining);
            }
        }
        out
    };
    let mut seen: BTreeMap<u32, BTreeSet<u32>> = BTreeMap::new();
    let mut frontier: Vec<(u32, SccGraph<u32>)> = vec![(0, scc0)];
    let mut states = 0u64;
    let mut transitions = 0u64;
    let all = (1u32 << g.n) - 1;
    while let Some((released, scc)) = frontier.pop() {
        let offered_raw = scc.top();
        let mut offered: BTreeSet<u32> = BTreeSet::new();
        for group in &offered_raw {
            let mut m = 0u32;
            for id in group.iter() {
                match idx_of(*id) {
                    | Some(i) => m |= 1 << i,
                    | None => return (states, transitions, Some(format!("top() offered unknown id {id}"))),
                }
            }
            if m == 0 {
                return (states, transitions, Some("top() offered an empty group".into()));
            }
            if !offered.insert(m) {
                return (states, transitions, Some(format!("top() offered group {m:#b} twice")));
            }
        }
        if let Some(prev) = seen.get(&released) {
            if *prev != offered {
                return (states, transitions, Some(format!("released set {released:#b} reached along two paths offers different groups: {prev:?} vs {offered:?}")));
            }
            continue;
        }
        states += 1;
        let want = expected(released);
        if offered != want {
            return (
                states,
                transitions,
                Some(format!("after releasing {released:#b}: top() offers {offered:?} (node bitmasks), reference says {want:?}; SCCs {comps:?}")),
            );
        }
        if offered.is_empty() && released != all {
            return (states, transitions, Some(format!("stuck: nothing offered with released {released:#b} of {all:#b}")));
        }
        seen.insert(released, offered.clone());
        let groups: Vec<u32> = offered.iter().copied().collect();
        // every non-empty subset of the offered groups
        for sub in 1u32..(1 << groups.len()) {
            let mut mask = 0u32;
            for (k, gm) in groups.iter().enumerate() {
                if sub >> k & 1 == 1 {
                    mask |= gm;
                }
            }
            let mut next = scc.clone();
            let rel: Vec<u32> = (0..g.n).filter(|i| mask >> i & 1 == 1).map(|i| ids[i]).collect();
            next.release(rel);
            transitions += 1;
            frontier.push((released | mask, next));
        }
        if partial {
            // deviation: release one node of a multi-node group
            for gm in &groups {
                if gm.count_ones() > 1 {
                    for i in 0..g.n {
                        if gm >> i & 1 == 1 {
                            let mut next = scc.clone();
                            next.release([ids[i]]);
                            transitions += 1;
                            frontier.push((released | (1 << i), next));
                        }
                    }
                }
            }
        }
    }
    (states, transitions, None)
}

const NUMBERINGS: [[u32; 8]; 3] = [[0, 1, 2, 3, 4, 5, 6, 7], [70, 3, 51, 12, 9, 44, 1, 30], [1000, 999, 998, 997, 996, 995, 994, 993]];

pub struct Graphs {
    /// (n, first index, count)
    chunks: Vec<(usize, u64, u64)>,
    seeds: u64,
}

impl Graphs {
    pub fn new(tier: Tier) -> Self {
        let mut chunks = vec![];
        for n in 1..=4usize {
            let total = 1u64 << (n * n);
            let step = 256;
            let mut a = 0;
            while a < total {
                chunks.push((n, a, step.min(total - a)));
                a += step;
            }
        }
        Graphs { chunks, seeds: if tier == Tier::Thorough { 32 } else { 4 } }
    }
}

impl Check for Graphs {
    fn property(&self) -> &'static str {
        "C08"
    }
    fn name(&self) -> String {
        "c08-graphs".into()
    }
    fn len(&self) -> usize {
        self.chunks.len()
    }
    fn level(&self) -> &'static str {
        "model_checking"
    }
    fn describe(&self, i: usize) -> String {
        let (n, a, c) = self.chunks[i];
        let g = G::from_index(n, a);
        format!("graphs on {} nodes with adjacency index {}..{} (first: edges {:?} = (dependent, dependency)), 3 node numberings, hash seeds 0..{}; release protocol explored exhaustively (every non-empty subset of offered groups, plus single-node partial releases)", n, a, a + c, g.edges(), self.seeds)
    }
    fn rule(&self) -> String {
        format!("all directed graphs with self-loops on 1..4 nodes (2+16+512+65536), each under 3 node numberings, 2 construction modes (every node registered as a key first / edges only, so that leaves exist only as dependency targets) and hash seeds 0..{} (fresh thread per seed under the getrandom interposer): Kosaraju::run, then the top()/release() state graph explored exhaustively — transitions = every non-empty subset of the currently offered groups, plus releasing a single node of a multi-node group; states deduplicated by released set with the offers re-compared on every revisit; invariant per state: offered groups = reference SCCs (transitive-closure brute force) whose outside dependencies are all released, minus released nodes; never stuck before everything is released; no panic; case = 256 graphs; non-trivial = graphs with >= 1 edge between distinct nodes", self.seeds)
    }
    fn run(&mut self, i: usize) -> CaseResult {
        let (n, a, c) = self.chunks[i];
        let seeds = self.seeds;
        let mut result = CaseResult::ok("chunk").key(hash64(&format!("{n}:{a}")));
        let mut orders: HashSet<u64> = HashSet::new();
        let mut nontrivial = false;
        for seed in 0..seeds {
            let out = with_seed(seed * 1_000_003 + a + n as u64, move || {
                let order = probe_order();
                let mut states = 0u64;
                let mut transitions = 0u64;
                let mut problems: Vec<(u64, usize, String)> = vec![];
                let mut nontrivial = false;
                for idx in a..a + c {
                    let g = G::from_index(n, idx);
                    if g.edges().iter().any(|(i, j)| i != j) {
                        nontrivial = true;
                    }
                    for (k, ids) in NUMBERINGS.iter().enumerate() {
                        for mode in 0..2u8 {
                            let r = crate::subject::guarded(|| explore(&g, &ids[..n], true, mode));
                            let tag = if mode == 1 { " [leaves only as dependency targets]" } else { "" };
                            match r {
                                | Ok((s, t, p)) => {
                                    states += s;
                                    transitions += t;
                                    if let Some(p) = p {
                                        problems.push((idx, k, format!("{p}{tag}")));
                                    }
                                }
                                | Err(p) => problems.push((idx, k, format!("panic {} at {}{tag}", p.msg, p.loc))),
                            }
                        }
                    }
                }
                (order, states, transitions, problems, nontrivial)
            });
            match out {
                | Ok((order, states, transitions, problems, nt)) => {
                    orders.insert(order);
                    nontrivial |= nt;
                    result = result.count("states", states).count("transitions", transitions).count("traces", c * 6);
                    for (idx, k, p) in problems.into_iter().take(3) {
                        let g = G::from_index(n, idx);
                        let fp = if p.starts_with("panic") {
                            "graph API panicked during the release protocol".to_string()
                        } else if p.starts_with("stuck") {
                            "release protocol stuck before all nodes were released".to_string()
                        } else if p.contains("two paths") {
                            "release protocol is path dependent".to_string()
                        } else {
                            "top() offers groups that differ from the reference ready components".to_string()
                        };
                        result = result.violation(
                            fp,
                            format!("graph n={} edges(dependent,dependency)={:?} numbering #{} hash seed {}: {}", n, g.edges(), k, seed, p),
                        );
                    }
                }
                | Err(e) => {
                    result = result.violation("graph exploration thread died", e);
                }
            }
        }
        result.nontrivial = nontrivial;
        result.count("distinct_probe_orders_seen", orders.len() as u64)
    }
}

/// Structured larger families (5..8 nodes): chains, fans, cliques, two interlocking cycles.
pub struct Families {
    graphs: Vec<(String, G)>,
    seeds: u64,
}
impl Families {
    pub fn new(tier: Tier) -> Self {
        let mut graphs = vec![];
        for n in 5..=8usize {
            let mut chain = vec![0u32; n];
            let mut rchain = vec![0u32; n];
            let mut fan_in = vec![0u32; n];
            let mut fan_out = vec![0u32; n];
            let mut clique = vec![0u32; n];
            let mut ring = vec![0u32; n];
            let mut two = vec![0u32; n];
            for i in 0..n {
                if i + 1 < n {
                    chain[i] |= 1 << (i + 1);
                    rchain[i + 1] |= 1 << i;
                    fan_in[i + 1] |= 1;
                    fan_out[0] |= 1 << (i + 1);
                }
                clique[i] = ((1u32 << n) - 1) & !(1 << i);
                ring[i] |= 1 << ((i + 1) % n);
            }
            // two cycles sharing node 0, plus a bridge from the second into a tail node
            let h = n / 2;
            for i in 0..h {
                two[i] |= 1 << ((i + 1) % h);
            }
            for i in h..n {
                two[i] |= 1 << (if i + 1 < n { i + 1 } else { h });
            }
            two[0] |= 1 << h;
            for (name, adj) in [("chain", chain), ("reverse-chain", rchain), ("fan-in", fan_in), ("fan-out", fan_out), ("clique", clique), ("ring", ring), ("two-cycles", two)] {
                graphs.push((format!("{name}-{n}"), G { n, adj }));
            }
        }
        Families { graphs, seeds: if tier == Tier::Thorough { 32 } else { 4 } }
    }
}
impl Check for Families {
    fn property(&self) -> &'static str {
        "C08"
    }
    fn name(&self) -> String {
        "c08-families".into()
    }
    fn len(&self) -> usize {
        self.graphs.len()
    }
    fn level(&self) -> &'static str {
        "model_checking"
    }
    fn describe(&self, i: usize) -> String {
        format!("{}: edges {:?}", self.graphs[i].0, self.graphs[i].1.edges())
    }
    fn rule(&self) -> String {
        "structured families on 5..8 nodes (chain, reverse chain, fan-in, fan-out, clique, ring, two linked cycles), enumerated completely (not sampled), same exhaustive release-protocol exploration and invariants as c08-graphs".into()
    }
    fn run(&mut self, i: usize) -> CaseResult {
        let (name, g) = self.graphs[i].clone();
        let mut result = CaseResult::ok("family").nontrivial(true).key(hash64(&name));
        for seed in 0..self.seeds {
            let g2 = g.clone();
            let out = with_seed(seed + 77, move || crate::subject::guarded(|| explore(&g2, &NUMBERINGS[1][..g2.n], g2.n <= 6, (seed % 2) as u8)));
            match out {
                | Ok(Ok((s, t, p))) => {
                    result = result.count("states", s).count("transitions", t).count("traces", 1);
                    if let Some(p) = p {
                        result = result.violation("top() offers groups that differ from the reference ready components", format!("{name} seed {seed}: {p}"));
                    }
                }
                | Ok(Err(p)) => result = result.violation("graph API panicked during the release protocol", format!("{name}: {:?}", p)),
                | Err(e) => result = result.violation("graph exploration thread died", e),
            }
        }
        result
    }
}

pub fn checks(tier: Tier) -> Vec<Box<dyn Check>> {
    vec![Box::new(Graphs::new(tier)), Box::new(Families::new(tier))]
}
