//! C20 — monadic blocks instantiated at the identity monad (and at a second lawful monad).
use crate::common::*;
use crate::lang::*;
use crate::print::{self, Cfg};
use crate::subject::*;
use crate::uni::*;

pub struct Monadic {
    progs: Vec<Prog>,
    chunk: usize,
    scratch: Option<Scratch>,
}

impl Monadic {
    pub fn new(tier: Tier) -> Self {
        let stride = if tier == Tier::Thorough { 1 } else { 2 };
        let progs: Vec<Prog> = universe(tier)
            .into_iter()
            .filter(|p| matches!(p.root, CT::Ret(_)) && !uses_exec(&p.body))
            .enumerate()
            .filter(|(i, _)| i % stride == 0)
            .map(|(_, p)| p)
            .collect();
        Monadic { progs, chunk: 16, scratch: None }
    }
}

pub fn frame(body: &C, root: &CT, cps: bool) -> String {
    let mut s = String::from("begin\n");
    for l in print::decl_lines() {
        s.push_str("  ");
        s.push_str(&l);
        s.push_str(" that\n");
    }
    s.push_str("  let Monad (M : VType -> CType) = codata | .return : forall (A : VType) . A -> M A | .bind : forall (A : VType) . forall (B : VType) . Thk (M A) -> Thk (A -> M B) -> M B end that\n");
    s.push_str("  let Algebra (M : VType -> CType) (R : CType) = forall (A : VType) . Thk (M A) -> Thk (A -> R) -> R that\n");
    s.push_str("  def ! ret_monad : Monad Ret = comatch | .return A value => ret value | .bind A B computation function => do value <- ! computation; ! function value end that\n");
    s.push_str("  let K (A : VType) = Thk (A -> Ret Int64) -> Ret Int64 that\n");
    s.push_str("  def ! cps_monad : Monad K = comatch | .return A value => fn k => ! k value | .bind A B computation function => fn k => ! computation { fn a => ! function a k } end that\n");
    s.push_str("  def ! translated = @[monadic] begin\n");
    s.push_str(&print::body_only(body, &Cfg::default()));
    s.push_str("\n  end that\n");
    if cps {
        s.push_str("  (! translated K { ! cps_monad } { fn (r : Int64) => ret r } : Ret Int64)\n");
    } else {
        s.push_str(&format!("  (! translated Ret {{ ! ret_monad }} : {})\n", print::ct(root)));
    }
    s.push_str("end\n");
    s
}

impl Check for Monadic {
    fn property(&self) -> &'static str {
        "C20"
    }
    fn name(&self) -> String {
        "c20-monadic".into()
    }
    fn len(&self) -> usize {
        self.progs.len().div_ceil(self.chunk)
    }
    fn describe(&self, i: usize) -> String {
        let p = &self.progs[i * self.chunk];
        format!("programs #{}..#{} of the monadic slice; first ({}), identity frame:\n{}", i * self.chunk, (i + 1) * self.chunk, p.origin, frame(&p.body, &p.root, false))
    }
    fn rule(&self) -> String {
        format!("every closed returning computation of the universe that uses no host operation ({} programs: functions, thunks, products, data + match incl. nested and default arms, recursive data, codata, fix, schema instances) is embedded in a self-contained frame (local Monad and Algebra definitions copied from lib/std/control/*.type.zy, `def ! translated = @[monadic] begin BODY end`) and instantiated (1) at the identity monad (Ret, return = ret, bind = run then continue) and, for Ret Int64 bodies, (2) at a continuation monad with answer type Int64 run with the identity continuation; oracle: acceptance of the frame is recorded, not required; whenever a frame is accepted, running it never goes wrong and its result equals the reference evaluator's result for the plain body; non-trivial = accepted frames whose body contains a `do` and at least one other construct", self.progs.len())
    }
    fn timeout(&self) -> std::time::Duration {
        std::time::Duration::from_secs(300)
    }
    fn run(&mut self, i: usize) -> CaseResult {
        let scratch = self.scratch.get_or_insert_with(|| Scratch::new("c20"));
        let a = i * self.chunk;
        let b = ((i + 1) * self.chunk).min(self.progs.len());
        let mut r = CaseResult::ok("chunk").key(hash64(&format!("mo{}", i)));
        let mut nontrivial = 0u64;
        for prog in &self.progs[a..b] {
            let reference = Machine::new(REF_FUEL, b"").run(&prog.body);
            let frames: Vec<bool> = if prog.root == ret(VT::Int) { vec![false, true] } else { vec![false] };
            for cps in frames {
                let text = frame(&prog.body, &prog.root, cps);
                let path = scratch.write("main.zydeco", &text);
                let which = if cps { "continuation monad" } else { "identity monad" };
                r = r.count("frames", 1);
                let res = guarded(|| {
                    let s = Subject::analyze(&path);
                    let v = s.verdict();
                    let run = if v.accepted() { Some(s.run(b"", &[], SUBJECT_FUEL * 4)) } else { None };
                    (v, run)
                });
                match res {
                    | Err(p) => {
                        r = r.violation(format!("monadic elaboration panicked at {}: {}", crate::front::short_loc(&p.loc), crate::front::short_msg(&p.msg)), format!("{:?}\n{}", p, text));
                    }
                    | Ok((verdict, run)) => {
                        if !verdict.accepted() {
                            r = r.count(&format!("frame_{}", verdict.tag()), 1);
                            continue;
                        }
                        r = r.count("frames_accepted", 1);
                        let Some(run) = run else { continue };
                        let has_do = format!("{:?}", prog.body).contains("Do(");
                        if has_do && size_c(&prog.body) > 4 {
                            nontrivial += 1;
                        }
                        match &run.end {
                            | RunEnd::Panic(p) if !defined_trap(p) => {
                                r = r.violation(format!("accepted monadic block goes wrong at the {which}: {} at {}", crate::front::short_msg(&p.msg), crate::front::short_loc(&p.loc)), format!("{:?}\n{}", p, text));
                            }
                            | _ => {
                                if let Some(d) = disagreement(&run, &reference) {
                                    r = r.violation(format!("monadic block at the {which} computes a different result than the plain computation (origin {})", prog.origin), format!("{d}\nframed run: {:?}\nreference (plain body): {:?}\n{}", run.end, reference.end, text));
                                }
                            }
                        }
                    }
                }
            }
        }
        r.nontrivial = nontrivial > 0;
        r.count("nontrivial_frames", nontrivial)
    }
}

pub fn checks(tier: Tier) -> Vec<Box<dyn Check>> {
    vec![Box::new(Monadic::new(tier))]
}
