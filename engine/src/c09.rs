//! C09 — imports: acyclic, deduplicated source graph. Graph level: every import/companion edge set
//! over a small file set, materialised on disk and loaded by the real `CompilerSession::graph`.
use crate::common::*;
use crate::seed::*;
use crate::subject::*;
use std::collections::{BTreeMap, BTreeSet};
use std::path::{Path, PathBuf};
use zydeco_session::{CompilerSession, SourceLoadError};

/// One file system state: implementations f0..f{n-1}.zy, optional companions, import edges.
#[derive(Clone, Debug)]
pub struct Fs {
    pub n: usize,
    /// impl_edges[i] bit j: f_i.zy imports f_j.zy
    pub impl_edges: Vec<u32>,
    /// which implementations have a companion signature
    pub sigs: u32,
    /// sig_edges[i] bit j: f_i.zyi imports f_j.zy
    pub sig_edges: Vec<u32>,
    /// duplicate the first import of f0 (multi-edge)
    pub dup: bool,
}

#[derive(Clone, Copy, Debug, PartialEq, Eq, PartialOrd, Ord, Hash)]
pub enum Node {
    Impl(usize),
    Sig(usize),
}

impl Fs {
    pub fn name(node: Node) -> String {
        match node {
            | Node::Impl(i) => format!("f{i}.zy"),
            | Node::Sig(i) => format!("f{i}.zyi"),
        }
    }
    pub fn node_of(name: &str) -> Option<Node> {
        let stem = name.strip_prefix('f')?;
        if let Some(i) = stem.strip_suffix(".zyi") {
            return i.parse().ok().map(Node::Sig);
        }
        stem.strip_suffix(".zy")?.parse().ok().map(Node::Impl)
    }
    /// import occurrences of a node, in source order
    pub fn imports(&self, node: Node) -> Vec<usize> {
        let mask = match node {
            | Node::Impl(i) => self.impl_edges[i],
            | Node::Sig(i) => self.sig_edges[i],
        };
        let mut v: Vec<usize> = (0..self.n).filter(|j| mask >> j & 1 == 1).collect();
        if self.dup && node == Node::Impl(0) && !v.is_empty() {
            v.push(v[0]);
        }
        v
    }
    pub fn content(&self, node: Node) -> String {
        let imps = self.imports(node);
        match node {
            | Node::Impl(_) => {
                let mut parts: Vec<String> = imps.iter().map(|j| format!("@(import(\"f{j}.zy\"))")).collect();
                parts.push("()".into());
                if parts.len() == 1 { "()".into() } else { format!("({})", parts.join(", ")) }
            }
            | Node::Sig(_) => {
                let mut s = String::new();
                for (k, j) in imps.iter().enumerate() {
                    s.push_str(&format!("let x{k} = @(import(\"f{j}.zy\")) in\n"));
                }
                s.push_str("@(intrinsic(unit))");
                s
            }
        }
    }
    /// dependency edges (kind, from, to): signature edge first (as the loader orders them), then imports
    pub fn deps(&self, node: Node) -> Vec<(bool, Node)> {
        let mut out = vec![];
        if let Node::Impl(i) = node {
            if self.sigs >> i & 1 == 1 {
                out.push((true, Node::Sig(i)));
            }
        }
        for j in self.imports(node) {
            out.push((false, Node::Impl(j)));
        }
        out
    }
    pub fn reachable(&self) -> BTreeSet<Node> {
        let mut seen = BTreeSet::new();
        let mut stack = vec![Node::Impl(0)];
        while let Some(x) = stack.pop() {
            if seen.insert(x) {
                for (_, t) in self.deps(x) {
                    stack.push(t);
                }
            }
        }
        seen
    }
    pub fn has_reachable_cycle(&self) -> bool {
        // colour DFS over the reachable subgraph
        fn visit(fs: &Fs, x: Node, state: &mut BTreeMap<Node, u8>) -> bool {
            state.insert(x, 1);
            for (_, t) in fs.deps(x) {
                match state.get(&t) {
                    | Some(1) => return true,
                    | Some(_) => {}
                    | None => {
                        if visit(fs, t, state) {
                            return true;
                        }
                    }
                }
            }
            state.insert(x, 2);
            false
        }
        visit(self, Node::Impl(0), &mut BTreeMap::new())
    }
    pub fn materialise(&self, scratch: &Scratch) {
        scratch.clear();
        for i in 0..self.n {
            scratch.write(&Fs::name(Node::Impl(i)), &self.content(Node::Impl(i)));
            if self.sigs >> i & 1 == 1 {
                scratch.write(&Fs::name(Node::Sig(i)), &self.content(Node::Sig(i)));
            }
        }
    }
}

fn file_node(p: &Path) -> Option<Node> {
    Fs::node_of(p.file_name()?.to_str()?)
}

/// Compare the loader's answer with the reference. Returns (outcome class, problem).
pub fn judge(fs: &Fs, dir: &Path) -> (String, Option<(String, String)>) {
    let session = CompilerSession::default();
    let root = dir.join("f0.zy");
    let res = guarded(|| session.graph(&root));
    let res = match res {
        | Ok(r) => r,
        | Err(p) => return ("panic".into(), Some(("source loader panicked".into(), format!("{:?}", p)))),
    };
    let want_cycle = fs.has_reachable_cycle();
    match res {
        | Ok(graph) => {
            if want_cycle {
                return ("ok".into(), Some(("cyclic source graph accepted".into(), "loader returned Ok although a dependency cycle is reachable from the root".into())));
            }
            // sources = reachable files, once each
            let mut got: Vec<Node> = vec![];
            for (_, f) in graph.sources.iter() {
                match file_node(&f.path) {
                    | Some(n) => got.push(n),
                    | None => return ("ok".into(), Some(("loader lists an unknown source".into(), format!("{}", f.path.display())))),
                }
            }
            let got_set: BTreeSet<Node> = got.iter().copied().collect();
            if got_set.len() != got.len() {
                return ("ok".into(), Some(("a source file is listed more than once".into(), format!("{:?}", got))));
            }
            let want = fs.reachable();
            if got_set != want {
                return ("ok".into(), Some(("loaded sources differ from the reachable files".into(), format!("got {:?}, reachable {:?}", got_set, want))));
            }
            // import edges: one per occurrence
            let mut got_edges: Vec<(Node, Node)> = vec![];
            for (_, e) in graph.imports.iter() {
                let a = file_node(&graph.sources[&e.importer].path).unwrap();
                let b = file_node(&graph.sources[&e.imported].path).unwrap();
                got_edges.push((a, b));
            }
            got_edges.sort();
            let mut want_edges: Vec<(Node, Node)> = vec![];
            for x in &want {
                for j in fs.imports(*x) {
                    want_edges.push((*x, Node::Impl(j)));
                }
            }
            want_edges.sort();
            if got_edges != want_edges {
                return ("ok".into(), Some(("import edges differ from the import occurrences".into(), format!("got {:?}, want {:?}", got_edges, want_edges))));
            }
            // signature pairing
            for (_, f) in graph.sources.iter() {
                let x = file_node(&f.path).unwrap();
                let want_sig = matches!(x, Node::Impl(i) if fs.sigs >> i & 1 == 1);
                if f.signature.is_some() != want_sig {
                    return ("ok".into(), Some(("companion signature pairing wrong".into(), format!("{:?}: signature {:?}, companion exists {}", x, f.signature.is_some(), want_sig))));
                }
            }
            // provider order
            let order: Vec<Node> = graph.provider_order().iter().map(|id| file_node(&graph.sources[id].path).unwrap()).collect();
            let pos: BTreeMap<Node, usize> = order.iter().enumerate().map(|(i, n)| (*n, i)).collect();
            if pos.len() != order.len() || order.iter().copied().collect::<BTreeSet<_>>() != want {
                return ("ok".into(), Some(("provider order is not a permutation of the sources".into(), format!("{:?}", order))));
            }
            if order.last() != Some(&Node::Impl(0)) {
                return ("ok".into(), Some(("provider order does not end with the root".into(), format!("{:?}", order))));
            }
            for x in &want {
                for (_, t) in fs.deps(*x) {
                    if pos[&t] >= pos[x] {
                        return ("ok".into(), Some(("provider order lists a consumer before its provider".into(), format!("{:?}: {:?} depends on {:?}", order, x, t))));
                    }
                }
            }
            ("ok".into(), None)
        }
        | Err(e) => match e.as_ref() {
            | SourceLoadError::Cycle(cycle) => {
                if !want_cycle {
                    return ("cycle".into(), Some(("acyclic source graph rejected as cyclic".into(), format!("{}", cycle))));
                }
                if cycle.steps.is_empty() {
                    return ("cycle".into(), Some(("reported cycle has no steps".into(), String::new())));
                }
                for (k, step) in cycle.steps.iter().enumerate() {
                    let (Some(a), Some(b)) = (file_node(&step.dependent), file_node(&step.dependency)) else {
                        return ("cycle".into(), Some(("reported cycle step names an unknown file".into(), format!("{}", cycle))));
                    };
                    let is_sig = matches!(step.kind, zydeco_session::source::SourceDependencyKind::Signature);
                    if !fs.deps(a).contains(&(is_sig, b)) {
                        return ("cycle".into(), Some(("reported cycle step is not a real dependency edge".into(), format!("step {k}: {:?} -> {:?} (signature={is_sig}) not among {:?}\n{}", a, b, fs.deps(a), cycle))));
                    }
                    let next = &cycle.steps[(k + 1) % cycle.steps.len()];
                    if next.dependent != step.dependency {
                        return ("cycle".into(), Some(("reported cycle steps do not chain".into(), format!("{}", cycle))));
                    }
                    // the span of an import step lies inside the dependent file
                    if !is_sig {
                        let (l, r) = step.span.get_cursor1();
                        let len = fs.content(a).len();
                        if l > r || r > len {
                            return ("cycle".into(), Some(("reported cycle step span outside its file".into(), format!("{:?} span {l}..{r} len {len}", a))));
                        }
                    }
                }
                let _ = format!("{}", cycle);
                ("cycle".into(), None)
            }
            | other => ("error".into(), Some(("unexpected load error on a well-formed file set".into(), format!("{}", other)))),
        },
    }
}

pub struct FileGraphs {
    states: Vec<Fs>,
    chunk: usize,
    seeds: u64,
    scratch: Option<Scratch>,
    label: &'static str,
}

impl FileGraphs {
    /// 3 files, every import edge set x every companion set of size <= 2 x every signature edge set.
    pub fn with_signatures(tier: Tier) -> Self {
        let n = 3;
        let mut states = vec![];
        for e in 0u32..512 {
            let impl_edges: Vec<u32> = (0..n).map(|i| (e >> (i * n)) & 7).collect();
            for sigs in 0u32..8 {
                if sigs.count_ones() > 2 {
                    continue;
                }
                let k = sigs.count_ones() as usize;
                for se in 0u32..(1 << (3 * k)) {
                    let mut sig_edges = vec![0u32; n];
                    let mut slot = 0;
                    for i in 0..n {
                        if sigs >> i & 1 == 1 {
                            sig_edges[i] = (se >> (3 * slot)) & 7;
                            slot += 1;
                        }
                    }
                    states.push(Fs { n, impl_edges: impl_edges.clone(), sigs, sig_edges, dup: false });
                }
            }
            // multi-edge variant without signatures
            states.push(Fs { n, impl_edges: impl_edges.clone(), sigs: 0, sig_edges: vec![0; n], dup: true });
        }
        FileGraphs { states, chunk: 64, seeds: if tier == Tier::Thorough { 8 } else { 2 }, scratch: None, label: "c09-graphs3sig" }
    }
    /// 4 files, every import edge set, no signatures.
    pub fn four(tier: Tier) -> Self {
        let n = 4;
        let mut states = vec![];
        for e in 0u32..65536 {
            let impl_edges: Vec<u32> = (0..n).map(|i| (e >> (i * n)) & 15).collect();
            states.push(Fs { n, impl_edges, sigs: 0, sig_edges: vec![0; n], dup: false });
        }
        FileGraphs { states, chunk: 64, seeds: if tier == Tier::Thorough { 8 } else { 2 }, scratch: None, label: "c09-graphs4" }
    }
}

impl FileGraphs {
    /// Larger structured graphs (5..8 files): a chain, a fan, a full DAG and a ring-free ladder, each
    /// with every single extra import edge (self-imports included) added, and each with one
    /// companion signature importing every single file.
    pub fn families(tier: Tier) -> Self {
        let mut states = vec![];
        for n in 5..=8usize {
            let mut bases: Vec<Vec<u32>> = vec![];
            // chain 0 -> 1 -> ... -> n-1
            bases.push((0..n).map(|i| if i + 1 < n { 1 << (i + 1) } else { 0 }).collect());
            // fan: the root imports everything
            bases.push((0..n).map(|i| if i == 0 { ((1u32 << n) - 1) & !1 } else { 0 }).collect());
            // full DAG: i imports every j > i
            bases.push((0..n).map(|i| ((1u32 << n) - 1) & !((1u32 << (i + 1)) - 1)).collect());
            // ladder: i imports i+1 and i+2
            bases.push((0..n).map(|i| (if i + 1 < n { 1 << (i + 1) } else { 0 }) | (if i + 2 < n { 1 << (i + 2) } else { 0 })).collect());
            for base in bases {
                states.push(Fs { n, impl_edges: base.clone(), sigs: 0, sig_edges: vec![0; n], dup: false });
                for i in 0..n {
                    for j in 0..n {
                        if base[i] >> j & 1 == 1 {
                            continue;
                        }
                        let mut e = base.clone();
                        e[i] |= 1 << j;
                        states.push(Fs { n, impl_edges: e, sigs: 0, sig_edges: vec![0; n], dup: false });
                    }
                }
                // one companion signature (on the middle file) importing each single file
                let k = n / 2;
                for j in 0..n {
                    let mut sig_edges = vec![0u32; n];
                    sig_edges[k] = 1 << j;
                    states.push(Fs { n, impl_edges: base.clone(), sigs: 1 << k, sig_edges, dup: false });
                }
            }
        }
        FileGraphs { states, chunk: 16, seeds: if tier == Tier::Thorough { 8 } else { 2 }, scratch: None, label: "c09-families" }
    }
}

impl Check for FileGraphs {
    fn property(&self) -> &'static str {
        "C09"
    }
    fn name(&self) -> String {
        self.label.into()
    }
    fn len(&self) -> usize {
        self.states.len().div_ceil(self.chunk)
    }
    fn level(&self) -> &'static str {
        "model_checking"
    }
    fn describe(&self, i: usize) -> String {
        let fs = &self.states[i * self.chunk];
        let mut files = String::new();
        for x in 0..fs.n {
            files.push_str(&format!("--- f{x}.zy ---\n{}\n", fs.content(Node::Impl(x))));
            if fs.sigs >> x & 1 == 1 {
                files.push_str(&format!("--- f{x}.zyi ---\n{}\n", fs.content(Node::Sig(x))));
            }
        }
        format!("file-system states #{}..#{} (first shown), root f0.zy, hash seeds 0..{}:\n{}", i * self.chunk, (i + 1) * self.chunk, self.seeds, files)
    }
    fn rule(&self) -> String {
        if self.label == "c09-families" {
            return format!("structured graphs on 5..8 files: a chain, a fan, a full DAG and a ladder, each alone, with every single extra import edge added (self-imports and back edges included) and with one companion signature importing each single file ({} directory states), loaded from f0.zy under hash seeds 0..{}; same oracle as the exhaustive small graphs (reference reachability / cycle DFS, provider order, reported cycle steps)", self.states.len(), self.seeds);
        }
        if self.label == "c09-graphs4" {
            format!("every import edge set on 4 implementation files including self-imports (65,536 directory states), each written to a scratch directory and loaded with CompilerSession::graph under hash seeds 0..{}; oracle = reference reachability/cycle DFS: Ok iff no cycle reachable from the root; on Ok sources = reachable files once each, imports = one edge per occurrence, provider_order lists providers first and ends with the root; on Err every reported step is a real edge, steps chain and close; case = 64 states; non-trivial = states with a reachable file other than the root", self.seeds)
        } else {
            format!("every import edge set on 3 implementation files (512) x every set of <= 2 companion .zyi files x every import edge set from those signatures to the implementations, plus a duplicated-import variant ({} directory states), loaded from f0.zy under hash seeds 0..{}; same oracle, including signature pairing and Signature-kind cycle steps", self.states.len(), self.seeds)
        }
    }
    fn run(&mut self, i: usize) -> CaseResult {
        let a = i * self.chunk;
        let b = ((i + 1) * self.chunk).min(self.states.len());
        let states: Vec<Fs> = self.states[a..b].to_vec();
        let seeds = self.seeds;
        let scratch = self.scratch.get_or_insert_with(|| Scratch::new("c09"));
        let dir = scratch.dir.clone();
        let mut result = CaseResult::ok("chunk").key(hash64(&format!("{}{}", self.label, i)));
        let mut nontrivial = false;
        for seed in 0..seeds {
            let st = states.clone();
            let d: PathBuf = dir.clone();
            let out = with_seed(seed * 7919 + i as u64, move || {
                let sc = Scratch { dir: d.clone() };
                let mut classes: BTreeMap<String, u64> = BTreeMap::new();
                let mut problems = vec![];
                for fs in &st {
                    fs.materialise(&sc);
                    let (class, problem) = judge(fs, &d);
                    *classes.entry(class).or_insert(0) += 1;
                    if let Some(p) = problem {
                        problems.push((fs.clone(), p));
                    }
                }
                std::mem::forget(sc);
                (classes, problems)
            });
            match out {
                | Ok((classes, problems)) => {
                    for (k, v) in classes {
                        result = result.count(&format!("outcome_{k}"), v);
                    }
                    result = result.count("states", (b - a) as u64).count("transitions", (b - a) as u64).count("traces", (b - a) as u64);
                    for (fs, (fp, detail)) in problems.into_iter().take(3) {
                        result = result.violation(fp, format!("hash seed {seed}; file set: impl edges {:?} sigs {:#b} sig edges {:?} dup {}\n{}", fs.impl_edges, fs.sigs, fs.sig_edges, fs.dup, detail));
                    }
                }
                | Err(e) => result = result.violation("loader exploration thread died", e),
            }
        }
        for fs in &states {
            if fs.reachable().len() > 1 {
                nontrivial = true;
            }
        }
        result.nontrivial = nontrivial;
        result
    }
}

pub fn checks(tier: Tier) -> Vec<Box<dyn Check>> {
    vec![Box::new(FileGraphs::with_signatures(tier)), Box::new(FileGraphs::four(tier)), Box::new(FileGraphs::families(tier))]
}
