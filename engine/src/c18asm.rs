//! C18, assembly level: every jump target and symbol of the assembly program is defined; product
//! layouts have positive arity not smaller than their element count; jump-table tags are unique.
use zydeco_assembly::arena::AssemblyProgram;
use zydeco_assembly::syntax::*;

pub fn validate_assembly(p: &AssemblyProgram) -> Vec<String> {
    let a = &p.arena;
    let mut problems = vec![];
    let prog_ok = |id: &ProgId| a.programs.get(id).is_some();
    if !prog_ok(&p.root) {
        problems.push("the root program id is not defined".to_string());
    }
    let layout = |what: &str, l: &ProductLayout, problems: &mut Vec<String>| {
        if l.arity == 0 || l.elements == 0 || l.elements > l.arity || l.fields.len() != l.arity {
            problems.push(format!("{what}: product layout with arity {}, {} elements, {} field classes", l.arity, l.elements, l.fields.len()));
        }
    };
    let atom = |what: &str, at: &Atom, problems: &mut Vec<String>| match at {
        | Atom::Var(v) => {
            if a.variables.get(v).is_none() {
                problems.push(format!("{what}: variable {:?} is not defined", v));
            }
        }
        | Atom::Sym(s) => match a.symbols.get(s) {
            | None => problems.push(format!("{what}: symbol {:?} is not defined", s)),
            | Some(NamedSymbol { name, inner: Symbol::Undefined(_) }) => problems.push(format!("{what}: symbol `{name}` is still undefined")),
            | Some(NamedSymbol { name, inner: Symbol::Prog(q) }) => {
                if a.programs.get(q).is_none() {
                    problems.push(format!("{what}: symbol `{name}` names a program that is not defined"));
                }
            }
            | Some(_) => {}
        },
        | Atom::Imm(_) => {}
    };
    for (pid, prog) in a.programs.iter() {
        let what = format!("program {:?}", pid);
        match prog {
            | Program::Instruction(instr, next) => {
                if !prog_ok(next) {
                    problems.push(format!("{what}: falls through to an undefined program"));
                }
                match instr {
                    | Instruction::PackProduct(Pack(l)) => layout(&what, l, &mut problems),
                    | Instruction::UnpackProduct(Unpack(l)) => layout(&what, l, &mut problems),
                    | Instruction::PushArg(Push(at)) => atom(&what, at, &mut problems),
                    | Instruction::PopArg(Pop(v)) => {
                        if a.variables.get(v).is_none() {
                            problems.push(format!("{what}: pops into an undefined variable"));
                        }
                    }
                    | Instruction::AllocContext(_) | Instruction::PushTag(_) | Instruction::Intrinsic(_) => {}
                    | Instruction::Clear(cx) => {
                        for v in cx.iter() {
                            if a.variables.get(v).is_none() {
                                problems.push(format!("{what}: clears an undefined variable"));
                            }
                        }
                    }
                }
            }
            | Program::Terminator(t) => match t {
                | Terminator::Jump(Jump(q)) => {
                    if !prog_ok(q) {
                        problems.push(format!("{what}: jumps to an undefined program"));
                    }
                }
                | Terminator::PopBranch(PopBranch(arms)) => {
                    let mut seen = std::collections::HashSet::new();
                    for (tag, q) in arms {
                        if !prog_ok(q) {
                            problems.push(format!("{what}: jump-table arm {} targets an undefined program", tag.idx));
                        }
                        if !seen.insert(tag.idx) {
                            problems.push(format!("{what}: jump table lists tag {} twice", tag.idx));
                        }
                    }
                    // an empty table is legitimate: a match on a type without constructors
                }
                | Terminator::PopJump(_) | Terminator::Abort(_) | Terminator::Extern(_) => {}
            },
        }
    }
    for (sid, sym) in a.symbols.iter() {
        match &sym.inner {
            | Symbol::Undefined(_) => problems.push(format!("symbol `{}` ({:?}) is undefined", sym.name, sid)),
            | Symbol::Prog(q) => {
                if a.programs.get(q).is_none() {
                    problems.push(format!("symbol `{}` names an undefined program", sym.name));
                }
            }
            | Symbol::StringLiteral(_) => {}
        }
    }
    // labels attach defined symbols to defined programs
    for (pid, sid) in a.labels.iter() {
        if a.programs.get(pid).is_none() || a.symbols.get(sid).is_none() {
            problems.push("a label connects an undefined program or symbol".to_string());
        }
    }
    problems
}
