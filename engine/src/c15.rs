//! C15 — incremental answers equal from-scratch answers. Stateless exploration of every history of
//! session operations up to a bound; after every observation a fresh session over the same
//! effective contents must give the same answers.
use crate::common::*;
use crate::subject::*;
use std::collections::BTreeMap;
use std::path::{Path, PathBuf};
use zydeco_session::{AnalysisOutcome, CompilerSession};

const FILES: [&str; 4] = ["root.zy", "lib.zy", "lib.zyi", "other.zy"];

fn variants(file: usize) -> Vec<&'static str> {
    match file {
        | 0 => vec![
            "let Ret = @(intrinsic(ret)) in let x = @(import(\"lib.zy\")) in ret x",
            "let Ret = @(intrinsic(ret)) in ret 1",
            "ret (",
            "let Ret = @(intrinsic(ret)) in let Int64 = @(intrinsic(i64)) in let x : Int64 = @(import(\"lib.zy\")) in ret x",
            "let Ret = @(intrinsic(ret)) in let x = @(import(\"lib.zy\")) in let y = @(import(\"other.zy\")) in ret (x, y)",
        ],
        | 1 => vec!["1", "2", "(", "\"s\"", "@(import(\"root.zy\"))"],
        | 2 => vec!["@(intrinsic(i64))", "@(intrinsic(string))"],
        | _ => vec!["7"],
    }
}

#[derive(Clone, Copy, Debug, PartialEq, Eq)]
pub enum Op {
    SetOverlay(usize, usize),
    ClearOverlay(usize),
    WriteDisk(usize, usize),
    DeleteDisk(usize),
}

pub fn alphabet() -> Vec<Op> {
    let mut ops = vec![];
    for f in 0..FILES.len() {
        for v in 0..variants(f).len() {
            ops.push(Op::SetOverlay(f, v));
            ops.push(Op::WriteDisk(f, v));
        }
        ops.push(Op::ClearOverlay(f));
        ops.push(Op::DeleteDisk(f));
    }
    ops
}

fn op_text(op: &Op) -> String {
    match op {
        | Op::SetOverlay(f, v) => format!("set_overlay({}, {:?})", FILES[*f], variants(*f)[*v]),
        | Op::ClearOverlay(f) => format!("clear_overlay({})", FILES[*f]),
        | Op::WriteDisk(f, v) => format!("write({}, {:?}) + refresh_disk", FILES[*f], variants(*f)[*v]),
        | Op::DeleteDisk(f) => format!("delete({}) + refresh_disk", FILES[*f]),
    }
}

/// What an observer sees from one session (identities masked: only paths relative to the
/// directory, messages, byte ranges and run results).
#[derive(Clone, Debug, PartialEq, Eq)]
pub struct Observation(pub Vec<String>);

fn rel(p: &Path, dir: &Path) -> String {
    p.strip_prefix(dir).map(|q| q.display().to_string()).unwrap_or_else(|_| p.display().to_string()).trim_end_matches('/').to_string()
}

pub fn observe(session: &CompilerSession, dir: &Path, root: &str, run: bool) -> Observation {
    let path = dir.join(root);
    let mut out = vec![];
    // graph
    match guarded(|| session.graph(&path)) {
        | Ok(Ok(g)) => {
            let mut files: Vec<String> = g.sources.iter().map(|(_, f)| format!("{}#{}", rel(&f.path, dir), f.source.len())).collect();
            files.sort();
            let mut edges: Vec<String> = g.imports.iter().map(|(_, e)| format!("{}->{}", rel(&g.sources[&e.importer].path, dir), rel(&g.sources[&e.imported].path, dir))).collect();
            edges.sort();
            let order: Vec<String> = g.provider_order().iter().map(|id| rel(&g.sources[id].path, dir)).collect();
            out.push(format!("graph ok files={:?} edges={:?} order={:?}", files, edges, order));
        }
        | Ok(Err(e)) => out.push(format!("graph err {}", format!("{e}").replace(&dir.display().to_string(), "DIR"))),
        | Err(p) => out.push(format!("graph PANIC {} at {}", p.msg, p.loc)),
    }
    // analysis
    let res = guarded(|| session.analyze(&path));
    match res {
        | Err(p) => out.push(format!("analyze PANIC {} at {}", p.msg, p.loc)),
        | Ok(result) => {
            let verdict = verdict_of(&result);
            out.push(format!("verdict {}", verdict.tag()));
            match &result {
                | Ok(analysis) => {
                    if let AnalysisOutcome::Rejected { reports } = analysis.outcome() {
                        for s in reports.spans.iter() {
                            match s {
                                | Some((p, r, msg)) => out.push(format!("report {}:{:?} {}", rel(p.as_path(), dir), r, msg.lines().next().unwrap_or(""))),
                                | None => out.push("report <no span>".into()),
                            }
                        }
                    }
                    // per-root queries
                    match guarded(|| session.reports(&path)) {
                        | Ok(Ok(r)) => out.push(format!("reports query: {}", r.map(|r| r.reports.len()).unwrap_or(0))),
                        | Ok(Err(e)) => out.push(format!("reports query err {}", first_word(&format!("{:?}", e)))),
                        | Err(p) => out.push(format!("reports PANIC {}", p.msg)),
                    }
                    match guarded(|| session.coverage(&path)) {
                        | Ok(Ok(c)) => out.push(format!("coverage query: {}", c.len())),
                        | Ok(Err(e)) => out.push(format!("coverage query err {}", first_word(&format!("{:?}", e)))),
                        | Err(p) => out.push(format!("coverage PANIC {}", p.msg)),
                    }
                    // the same program pushed through check_resolved (externally resolved path) must agree
                    // with analyze, however many programs this session has checked before
                    if let Ok(Ok(g)) = guarded(|| session.graph(&path)) {
                        let ext = guarded(|| -> Option<String> {
                            use zydeco_surface::bitter::{SourceDesugarOut, SourceUnitDesugarer};
                            use zydeco_surface::scoped::{ResolveSourceOut, Resolver};
                            use zydeco_utils::pass::CompilerPass;
                            let zydeco_session::source::TextualProgram { spans, arena, unit } = g.parse().ok()?;
                            let SourceDesugarOut { arena, prim, root } = SourceUnitDesugarer::new(&spans, &arena, unit).run().ok()?;
                            let ResolveSourceOut { prim, arena, root } = Resolver::new(&spans, arena, prim).run_source(root).ok()?;
                            let out = session.check_resolved(spans, prim, arena, root);
                            Some(match out.outcome.into_result() {
                                | Ok(_) => "checked".to_string(),
                                | Err(reports) => format!("rejected {}", reports.reports.len()),
                            })
                        });
                        match ext {
                            | Ok(Some(v)) => {
                                out.push(format!("check_resolved {v}"));
                                if (v == "checked") != verdict.accepted() {
                                    out.push(format!("check_resolved DISAGREES with analyze ({})", verdict.tag()));
                                }
                            }
                            | Ok(None) => {}
                            | Err(p) => out.push(format!("check_resolved PANIC {}", p.msg)),
                        }
                    }
                    if run && verdict.accepted() {
                        let s = Subject { session: session.snapshot(), result: Ok(analysis.clone()) };
                        let r = s.run(b"", &[], 2000);
                        out.push(format!("run {:?}", r.end));
                    }
                }
                | Err(e) => out.push(format!("error {}", format!("{e}").replace(&dir.display().to_string(), "DIR"))),
            }
        }
    }
    Observation(out)
}

pub struct World {
    pub dir: PathBuf,
    pub session: CompilerSession,
    pub overlays: BTreeMap<usize, usize>,
}

impl World {
    pub fn new(scratch: &Scratch) -> Self {
        scratch.clear();
        scratch.write(FILES[0], variants(0)[0]);
        scratch.write(FILES[1], variants(1)[0]);
        World { dir: scratch.dir.clone(), session: CompilerSession::default(), overlays: BTreeMap::new() }
    }
    /// apply one operation to disk + the long-lived session
    pub fn apply(&mut self, op: &Op) -> Result<(), String> {
        let r = guarded(|| match op {
            | Op::SetOverlay(f, v) => {
                self.overlays.insert(*f, *v);
                self.session.set_overlay(self.dir.join(FILES[*f]), variants(*f)[*v].to_string()).map_err(|e| format!("{e}"))
            }
            | Op::ClearOverlay(f) => {
                self.overlays.remove(f);
                self.session.clear_overlay(self.dir.join(FILES[*f])).map_err(|e| format!("{e}"))
            }
            | Op::WriteDisk(f, v) => {
                std::fs::write(self.dir.join(FILES[*f]), variants(*f)[*v]).unwrap();
                self.session.refresh_disk(self.dir.join(FILES[*f])).map_err(|e| format!("{e}"))
            }
            | Op::DeleteDisk(f) => {
                let _ = std::fs::remove_file(self.dir.join(FILES[*f]));
                self.session.refresh_disk(self.dir.join(FILES[*f])).map_err(|e| format!("{e}"))
            }
        });
        match r {
            | Ok(Ok(())) => Ok(()),
            | Ok(Err(e)) => Err(format!("operation returned an error: {}", e.replace(&self.dir.display().to_string(), "DIR"))),
            | Err(p) => Err(format!("operation panicked: {} at {}", p.msg, p.loc)),
        }
    }
    /// a fresh session over the same directory and overlays
    pub fn fresh(&self) -> CompilerSession {
        let mut s = CompilerSession::default();
        for (f, v) in &self.overlays {
            let _ = s.set_overlay(self.dir.join(FILES[*f]), variants(*f)[*v].to_string());
        }
        s
    }
}

pub struct Histories {
    prefixes: Vec<Vec<Op>>,
    ops: Vec<Op>,
    scratch: Option<Scratch>,
    depth: usize,
}

impl Histories {
    pub fn new(tier: Tier) -> Self {
        let ops = alphabet();
        let depth = if tier == Tier::Thorough { 4 } else { 3 };
        let mut prefixes: Vec<Vec<Op>> = vec![vec![]];
        let mut frontier: Vec<Vec<Op>> = vec![vec![]];
        for _ in 1..depth {
            let mut next = vec![];
            for p in &frontier {
                for o in &ops {
                    // prune syntactic no-ops: repeating the very same operation
                    if p.last() == Some(o) {
                        continue;
                    }
                    let mut q = p.clone();
                    q.push(*o);
                    next.push(q);
                }
            }
            prefixes.extend(next.iter().cloned());
            frontier = next;
        }
        Histories { prefixes, ops, scratch: None, depth }
    }

    /// Run one history; `observe_every` = observe after every operation (default) or only at the end.
    fn run_history(scratch: &Scratch, history: &[Op], observe_every: bool, second_root: bool) -> (u64, Option<(String, String)>) {
        Self::run_history_via(scratch, history, observe_every, second_root, false)
    }
    /// `via_snapshot`: every observation of the long-lived session (the warm-up included) is made on a
    /// snapshot that is dropped afterwards, as a language server does for each request
    fn run_history_via(scratch: &Scratch, history: &[Op], observe_every: bool, second_root: bool, via_snapshot: bool) -> (u64, Option<(String, String)>) {
        let mut world = World::new(scratch);
        let mut transitions = 0u64;
        let look = |session: &CompilerSession, dir: &std::path::Path, file: &str, run: bool| {
            if via_snapshot {
                let snap = session.snapshot();
                observe(&snap, dir, file, run)
            } else {
                observe(session, dir, file, run)
            }
        };
        // warm the caches
        let _ = look(&world.session, &world.dir, "root.zy", true);
        for (k, op) in history.iter().enumerate() {
            transitions += 1;
            if let Err(e) = world.apply(op) {
                // an operation on a consistent directory must not fail: compare with what a fresh session says later,
                // but report the failure itself (this is how a stale session shows up first)
                let fresh = world.fresh();
                let fresh_obs = observe(&fresh, &world.dir, "root.zy", true);
                return (
                    transitions,
                    Some((
                        format!("session operation fails on a consistent directory: {}", e.split(':').next().unwrap_or(&e)),
                        format!("step {} {}: {}\nfresh session sees: {:?}", k + 1, op_text(op), e, fresh_obs.0),
                    )),
                );
            }
            if observe_every || k + 1 == history.len() {
                if second_root {
                    // evicts the lru=1 check memo
                    let _ = look(&world.session, &world.dir, "lib.zy", false);
                }
                let got = look(&world.session, &world.dir, "root.zy", true);
                let fresh = world.fresh();
                let want = observe(&fresh, &world.dir, "root.zy", true);
                if let Some(l) = got.0.iter().find(|l| l.contains("DISAGREES") || l.contains("check_resolved PANIC")) {
                    return (transitions, Some(("check_resolved and analyze disagree on one program".to_string(), format!("after step {} {}\n{}", k + 1, op_text(op), l))));
                }
                if got != want {
                    let diff = got.0.iter().zip(want.0.iter()).find(|(a, b)| a != b).map(|(a, b)| format!("long-lived: {a}\nfresh:      {b}")).unwrap_or_else(|| format!("long-lived: {:?}\nfresh:      {:?}", got.0, want.0));
                    let kind = got.0.iter().zip(want.0.iter()).find(|(a, b)| a != b).map(|(a, _)| a.split(' ').next().unwrap_or("").to_string()).unwrap_or_else(|| "length".into());
                    return (transitions, Some((format!("long-lived session answer differs from a fresh session ({kind})"), format!("after step {} {}\n{}", k + 1, op_text(op), diff))));
                }
            }
        }
        (transitions, None)
    }
}

impl Check for Histories {
    fn property(&self) -> &'static str {
        "C15"
    }
    fn name(&self) -> String {
        "c15-histories".into()
    }
    fn len(&self) -> usize {
        self.prefixes.len()
    }
    fn level(&self) -> &'static str {
        "model_checking"
    }
    fn describe(&self, i: usize) -> String {
        format!(
            "initial disk: root.zy = {:?}, lib.zy = {:?}; prefix: [{}]; then each of {} operations as the last step",
            variants(0)[0],
            variants(1)[0],
            self.prefixes[i].iter().map(op_text).collect::<Vec<_>>().join(" ; "),
            self.ops.len()
        )
    }
    fn rule(&self) -> String {
        format!("every history of <= {} mutating operations over 4 interdependent files (root.zy, lib.zy, companion lib.zyi, other.zy) and their content variants (valid v1/v2, syntax error, type error, import added/removed, import cycle, matching/mismatching signature): set_overlay, clear_overlay, write+refresh_disk, delete+refresh_disk ({} operations); each history runs on a real long-lived CompilerSession in five schedules: observe after every step, observe only at the end, observe with an analysis of lib.zy in between (evicts the check memo), and the first two with every observation (warm-up included) made on a snapshot that is dropped afterwards; observation = graph (files, edges, provider order), verdict, report messages and spans, reports/coverage queries, the verdict of the same program pushed through check_resolved, run result; oracle = a fresh session over the same directory and overlays gives the same observation; states = histories, transitions = operations executed on the implementation; non-trivial = histories whose final observation differs from the initial one", self.depth, self.ops.len())
    }
    fn timeout(&self) -> std::time::Duration {
        std::time::Duration::from_secs(300)
    }
    fn run(&mut self, i: usize) -> CaseResult {
        let scratch = self.scratch.get_or_insert_with(|| Scratch::new("c15"));
        let prefix = self.prefixes[i].clone();
        let mut r = CaseResult::ok("prefix").key(hash64(&format!("{:?}", prefix)));
        let mut nontrivial = false;
        for op in self.ops.clone() {
            if prefix.last() == Some(&op) {
                continue;
            }
            let mut h = prefix.clone();
            h.push(op);
            for (every, second, via_snapshot) in [(true, false, false), (false, false, false), (true, true, false), (true, false, true), (false, false, true)] {
                let (t, problem) = Histories::run_history_via(scratch, &h, every, second, via_snapshot);
                r = r.count("states", 1).count("transitions", t).count("traces", 1);
                if let Some((fp, detail)) = problem {
                    r = r.violation(
                        fp,
                        format!(
                            "history (observe {}{}{}): {}\n{}",
                            if every { "after every step" } else { "only at the end" },
                            if second { ", analysing lib.zy in between" } else { "" },
                            if via_snapshot { ", every observation on a dropped snapshot" } else { "" },
                            h.iter().map(op_text).collect::<Vec<_>>().join(" ; "),
                            detail
                        ),
                    );
                    break;
                }
            }
            nontrivial = true;
        }
        r.nontrivial = nontrivial;
        r
    }
}

pub fn checks(tier: Tier) -> Vec<Box<dyn Check>> {
    vec![Box::new(Histories::new(tier))]
}
