//! Driving host operations through the interpreter's real dispatch path:
//! a `Computation::Prim` stepped once on a live `Runtime` whose stack holds the arguments.
use crate::subject::{PanicInfo, guarded};
use std::rc::Rc;
use zydeco_dynamics::{
    Eval, ProgKont, Runtime, Step,
    syntax::{Computation, DynamicsProgram, EnvThunk, Prim, SemCompu, SemValue, Value},
};
use zydeco_statics::environment::Env;
use zydeco_syntax::*;

pub fn lit_i64(k: i64) -> SemValue {
    SemValue::Literal(Literal::Integer(IntegerLiteral::Int64(k)))
}
pub fn lit_str(s: &str) -> SemValue {
    SemValue::Literal(Literal::String(Utf8String::from(s.to_string())))
}

/// A marker thunk: `{ ret <k> }`. Identified later by its body.
pub fn marker(k: i64) -> SemValue {
    let body = Computation::Ret(Return(Rc::new(Value::Lit(Literal::Integer(IntegerLiteral::Int64(
        1_000_000 + k,
    ))))));
    SemValue::Thunk(EnvThunk { body: Rc::new(body), env: Env::new() })
}

pub fn marker_id(v: &SemValue) -> Option<i64> {
    if let SemValue::Thunk(t) = v {
        if let Computation::Ret(Return(v)) = t.body.as_ref() {
            if let Value::Lit(Literal::Integer(IntegerLiteral::Int64(k))) = v.as_ref() {
                if *k >= 1_000_000 {
                    return Some(*k - 1_000_000);
                }
            }
        }
    }
    None
}

#[derive(Debug, Clone)]
pub enum Shape {
    /// `ret v`
    Ret(SemValue),
    /// `! marker_k a1 .. an`
    Call(i64, Vec<SemValue>),
    Exit(i32),
    Other(String),
}

fn value_sem(v: &Value) -> Option<SemValue> {
    match v {
        | Value::SemValue(s) => Some(s.clone()),
        | Value::Lit(l) => Some(SemValue::Literal(l.clone())),
        | Value::Triv(_) => Some(SemValue::Triv(Triv)),
        // a syntactic thunk built by the host (e.g. the tail of the argument fold): opaque
        | Value::Thunk(Thunk(body)) => Some(SemValue::Thunk(EnvThunk { body: body.clone(), env: Env::new() })),
        | _ => None,
    }
}

pub fn decode(c: &Computation) -> Shape {
    match c {
        | Computation::Ret(Return(v)) => match value_sem(v) {
            | Some(s) => Shape::Ret(s),
            | None => Shape::Other(format!("ret of non-semantic value {:?}", v)),
        },
        | Computation::Force(Force(v)) => match value_sem(v).as_ref().and_then(marker_id) {
            | Some(k) => Shape::Call(k, vec![]),
            | None => Shape::Other(format!("force of non-marker {:?}", v)),
        },
        | Computation::VApp(App(body, arg)) => match (decode(body), value_sem(arg)) {
            | (Shape::Call(k, mut args), Some(a)) => {
                args.push(a);
                Shape::Call(k, args)
            }
            | (other, _) => Shape::Other(format!("application with head {:?}", other)),
        },
        | other => Shape::Other(format!("{:?}", other)),
    }
}

pub struct PrimOutcome {
    pub shape: Result<Shape, PanicInfo>,
    pub output: Vec<u8>,
    /// stack entries left after the call (arguments not consumed)
    pub stack_left: usize,
}

/// Call `role` with `args` (in application order) plus `extra` sentinel arguments beneath them.
pub fn call_prim(role: BuiltinValueRole, args: Vec<SemValue>, extra: usize, stdin: &[u8], argv: &[String]) -> PrimOutcome {
    let mut input = std::io::Cursor::new(stdin.to_vec());
    let mut output: Vec<u8> = Vec::new();
    let (shape, stack_left) = {
        let program = DynamicsProgram {
            defs: Default::default(),
            root: Rc::new(Computation::Ret(Return(Rc::new(Value::Triv(Triv))))),
        };
        let mut rt = Runtime::new(&mut input, &mut output, argv, program);
        for k in 0..extra {
            rt.stack.push_back(SemCompu::App(lit_i64(-7000 - k as i64)));
        }
        for a in args.into_iter().rev() {
            rt.stack.push_back(SemCompu::App(a));
        }
        let c = Computation::Prim(Prim { arity: role.arity() as u64, role });
        let r = guarded(|| c.step(&mut rt));
        let left = rt.stack.len();
        let shape = r.map(|s| match s {
            | Step::Step(c) => decode(&c),
            | Step::Done(ProgKont::ExitCode(c)) => Shape::Exit(c),
            | Step::Done(other) => Shape::Other(format!("{:?}", other)),
        });
        (shape, left)
    };
    PrimOutcome { shape, output, stack_left }
}

/// A live runtime on which several host operations can be called in sequence (handles persist).
pub struct PrimSession<'rt> {
    pub rt: Runtime<'rt>,
}

impl<'rt> PrimSession<'rt> {
    pub fn new(input: &'rt mut dyn std::io::BufRead, output: &'rt mut dyn std::io::Write, argv: &'rt [String]) -> Self {
        let program = DynamicsProgram { defs: Default::default(), root: Rc::new(Computation::Ret(Return(Rc::new(Value::Triv(Triv))))) };
        PrimSession { rt: Runtime::new(input, output, argv, program) }
    }
    /// call `role` with `args` plus one sentinel below them; returns (shape, sentinel left untouched?)
    pub fn call(&mut self, role: BuiltinValueRole, args: Vec<SemValue>) -> (Result<Shape, PanicInfo>, bool) {
        let before = self.rt.stack.len();
        self.rt.stack.push_back(SemCompu::App(lit_i64(-7777)));
        for a in args.into_iter().rev() {
            self.rt.stack.push_back(SemCompu::App(a));
        }
        let c = Computation::Prim(Prim { arity: role.arity() as u64, role });
        let rt = &mut self.rt;
        let r = guarded(|| c.step(rt));
        let exact = self.rt.stack.len() == before + 1;
        while self.rt.stack.len() > before {
            self.rt.stack.pop_back();
        }
        let shape = r.map(|s| match s {
            | Step::Step(c) => decode(&c),
            | Step::Done(ProgKont::ExitCode(c)) => Shape::Exit(c),
            | Step::Done(other) => Shape::Other(format!("{:?}", other)),
        });
        (shape, exact)
    }
}
