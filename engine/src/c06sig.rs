//! C06, signature side: a Builtin signature attaching a host role to any type other than the
//! declared classifier is rejected; the declared classifier itself is accepted and runs.
use crate::common::*;
use crate::subject::*;
use zydeco_statics::{BuiltinComputationClassifier as CC, BuiltinOperationAbi, BuiltinValueAtom as Atom, BuiltinValueClassifier as VC};
use zydeco_syntax::*;

#[derive(Clone, Debug, PartialEq)]
pub enum VT {
    Atom(Atom),
    Thk(Box<CT>),
}
#[derive(Clone, Debug, PartialEq)]
pub enum CT {
    Os,
    R,
    Ret(VT),
    Arrow(VT, Box<CT>),
    Forall(Box<CT>),
}

fn vt_of(v: &VC) -> VT {
    match v {
        | VC::Atom(a) => VT::Atom(*a),
        | VC::Thunk(c) => VT::Thk(Box::new(ct_of(c))),
    }
}
fn ct_of(c: &CC) -> CT {
    match c {
        | CC::OS => CT::Os,
        | CC::Bound(_) => CT::R,
        | CC::Return(v) => CT::Ret(vt_of(v)),
        | CC::Arrow(p, r) => CT::Arrow(vt_of(p), Box::new(ct_of(r))),
        | CC::ForallCType(b) => CT::Forall(Box::new(ct_of(b))),
    }
}

pub fn declared(role: BuiltinValueRole) -> VT {
    vt_of(&BuiltinOperationAbi::for_role(role).into_classifier())
}

fn atom_name(a: Atom) -> &'static str {
    match a {
        | Atom::Integer(IntegerType::Int8) => "Int8",
        | Atom::Integer(IntegerType::Int16) => "Int16",
        | Atom::Integer(IntegerType::Int32) => "Int32",
        | Atom::Integer(IntegerType::Int64) => "Int64",
        | Atom::Integer(IntegerType::UInt8) => "UInt8",
        | Atom::Integer(IntegerType::UInt16) => "UInt16",
        | Atom::Integer(IntegerType::UInt32) => "UInt32",
        | Atom::Integer(IntegerType::UInt64) => "UInt64",
        | Atom::Float(FloatType::Float32) => "Float32",
        | Atom::Float(FloatType::Float64) => "Float64",
        | Atom::Char => "Char",
        | Atom::String => "String",
        | Atom::Bytes => "Bytes",
        | Atom::Reader => "Reader",
        | Atom::Writer => "Writer",
    }
}

pub fn all_atoms() -> Vec<Atom> {
    use IntegerType::*;
    let mut v: Vec<Atom> = [Int8, Int16, Int32, Int64, UInt8, UInt16, UInt32, UInt64].into_iter().map(Atom::Integer).collect();
    v.extend([Atom::Float(FloatType::Float32), Atom::Float(FloatType::Float64), Atom::Char, Atom::String, Atom::Bytes, Atom::Reader, Atom::Writer]);
    v
}

pub fn show_vt(v: &VT) -> String {
    match v {
        | VT::Atom(a) => atom_name(*a).to_string(),
        | VT::Thk(c) => format!("Thk ({})", show_ct(c)),
    }
}
fn show_vt_param(v: &VT) -> String {
    show_vt(v)
}
pub fn show_ct(c: &CT) -> String {
    match c {
        | CT::Os => "OS".into(),
        | CT::R => "R".into(),
        | CT::Ret(v) => match v {
            | VT::Atom(_) => format!("Ret {}", show_vt(v)),
            | VT::Thk(_) => format!("Ret ({})", show_vt(v)),
        },
        | CT::Arrow(p, r) => format!("{} -> {}", show_vt_param(p), show_ct(r)),
        | CT::Forall(b) => format!("forall (R : CType) . {}", show_ct(b)),
    }
}

/* ------------------------------------ mutations ------------------------------------ */

/// every tree obtained from `v` by one local edit, with a description
pub fn mutations_v(v: &VT, in_forall: bool) -> Vec<(String, VT)> {
    let mut out = vec![];
    match v {
        | VT::Atom(a) => {
            for b in all_atoms() {
                if b != *a {
                    out.push((format!("atom {} -> {}", atom_name(*a), atom_name(b)), VT::Atom(b)));
                }
            }
            // a value where a thunk of a returner is declared, and vice versa
            out.push((format!("atom {} -> Thk (Ret {})", atom_name(*a), atom_name(*a)), VT::Thk(Box::new(CT::Ret(VT::Atom(*a))))));
        }
        | VT::Thk(c) => {
            for (d, m) in mutations_c(c, in_forall) {
                out.push((d, VT::Thk(Box::new(m))));
            }
            // thunk of a thunk
            out.push(("Thk T -> Thk (Ret (Thk T))".into(), VT::Thk(Box::new(CT::Ret(VT::Thk(c.clone()))))));
        }
    }
    out
}

pub fn mutations_c(c: &CT, in_forall: bool) -> Vec<(String, CT)> {
    let mut out = vec![];
    let result_alternatives = |cur: &CT| -> Vec<CT> {
        let mut alts = vec![CT::Os, CT::Ret(VT::Atom(Atom::Integer(IntegerType::Int64))), CT::Ret(VT::Atom(Atom::String))];
        if in_forall {
            alts.push(CT::R);
        }
        alts.retain(|a| a != cur);
        alts
    };
    match c {
        | CT::Os | CT::R => {
            for a in result_alternatives(c) {
                out.push((format!("result {} -> {}", show_ct(c), show_ct(&a)), a));
            }
            // one more parameter in front of the result
            out.push((format!("extra trailing parameter before {}", show_ct(c)), CT::Arrow(VT::Atom(Atom::Integer(IntegerType::Int64)), Box::new(c.clone()))));
        }
        | CT::Ret(v) => {
            for (d, m) in mutations_v(v, in_forall) {
                // only atom swaps of the returned value (structural edits of a returned atom are covered by the alternatives)
                out.push((format!("returned {d}"), CT::Ret(m)));
            }
            for a in result_alternatives(c) {
                out.push((format!("result {} -> {}", show_ct(c), show_ct(&a)), a));
            }
            out.push((format!("extra trailing parameter before {}", show_ct(c)), CT::Arrow(VT::Atom(Atom::Integer(IntegerType::Int64)), Box::new(c.clone()))));
        }
        | CT::Arrow(p, r) => {
            // edit the parameter
            for (d, m) in mutations_v(p, in_forall) {
                out.push((format!("parameter: {d}"), CT::Arrow(m, r.clone())));
            }
            // drop the parameter
            out.push((format!("parameter {} dropped", show_vt(p)), (**r).clone()));
            // duplicate the parameter
            out.push((format!("parameter {} duplicated", show_vt(p)), CT::Arrow(p.clone(), Box::new(c.clone()))));
            // swap with the next parameter
            if let CT::Arrow(q, rest) = r.as_ref() {
                if q != p {
                    out.push((format!("parameters {} and {} swapped", show_vt(p), show_vt(q)), CT::Arrow(q.clone(), Box::new(CT::Arrow(p.clone(), rest.clone())))));
                }
            }
            // edit the rest
            for (d, m) in mutations_c(r, in_forall) {
                out.push((d, CT::Arrow(p.clone(), Box::new(m))));
            }
        }
        | CT::Forall(b) => {
            // instantiate the quantifier at OS instead of abstracting
            out.push(("forall removed, R := OS".into(), subst_r(b, &CT::Os)));
            out.push(("forall removed, R := Ret Int64".into(), subst_r(b, &CT::Ret(VT::Atom(Atom::Integer(IntegerType::Int64))))));
            for (d, m) in mutations_c(b, true) {
                out.push((d, CT::Forall(Box::new(m))));
            }
        }
    }
    out
}

fn subst_r(c: &CT, with: &CT) -> CT {
    match c {
        | CT::R => with.clone(),
        | CT::Os => CT::Os,
        | CT::Ret(v) => CT::Ret(subst_r_v(v, with)),
        | CT::Arrow(p, r) => CT::Arrow(subst_r_v(p, with), Box::new(subst_r(r, with))),
        | CT::Forall(b) => CT::Forall(Box::new(subst_r(b, with))),
    }
}
fn subst_r_v(v: &VT, with: &CT) -> VT {
    match v {
        | VT::Atom(a) => VT::Atom(*a),
        | VT::Thk(c) => VT::Thk(Box::new(subst_r(c, with))),
    }
}

/// top-level mutations of a declared operation type
pub fn mutations(decl: &VT) -> Vec<(String, VT)> {
    let mut out = mutations_v(decl, false);
    if let VT::Thk(c) = decl {
        // thunk removed: the label sits on a computation type
        // (rendered specially: not a value type)
        if !matches!(c.as_ref(), CT::Forall(_)) {
            // quantifier added around a monomorphic operation
            out.push(("forall added".into(), VT::Thk(Box::new(CT::Forall(c.clone())))));
        }
    }
    out.retain(|(_, m)| m != decl);
    // deduplicate by rendering
    let mut seen = std::collections::BTreeSet::new();
    out.retain(|(_, m)| seen.insert(show_vt(m)));
    out
}

/* ------------------------------------- programs ------------------------------------- */

pub const PRELUDE: &str = "begin
  let VType = @(intrinsic(vtype)) that
  let CType = @(intrinsic(ctype)) that
  let Ret = @(intrinsic(ret)) that
  let Thk = @(intrinsic(thk)) that
  let Unit = @(intrinsic(unit)) that
  let Int8 = @(intrinsic(i8)) that
  let Int16 = @(intrinsic(i16)) that
  let Int32 = @(intrinsic(i32)) that
  let Int64 = @(intrinsic(i64)) that
  let UInt8 = @(intrinsic(u8)) that
  let UInt16 = @(intrinsic(u16)) that
  let UInt32 = @(intrinsic(u32)) that
  let UInt64 = @(intrinsic(u64)) that
  let Float32 = @(intrinsic(f32)) that
  let Float64 = @(intrinsic(f64)) that
  let Char = @(intrinsic(char)) that
  let String = @(intrinsic(string)) that
  let Bytes = @(intrinsic(bytes)) that
";

/// a closed program whose Builtin signature consists of the given (role label, type) components
/// (plus `exit` unless one of the components is `exit`), and whose body exits with code 0
pub fn program(components: &[(String, String)]) -> String {
    let mut s = String::from(PRELUDE);
    s.push_str("  param (\n    (Reader, Writer, OS, /h) :\n    exists @[builtin(reader)] (Reader : VType) @[builtin(writer)] (Writer : VType) @[builtin(os)] (OS : CType) .\n      (h ::\n");
    let has_exit = components.iter().any(|(l, _)| l == "exit");
    for (i, (label, ty)) in components.iter().enumerate() {
        let name = if label == "exit" && !components[..i].iter().any(|(l, _)| l == "exit") { "exit".to_string() } else { format!("op{i}") };
        s.push_str(&format!("          (@[builtin({label})] ({name} :: {ty})) *\n"));
    }
    if !has_exit {
        s.push_str("          (@[builtin(exit)] (exit :: Thk (Int64 -> OS))) *\n");
    }
    s.push_str("          Unit)\n  ) that\n  ! (h/exit) 0\nend\n");
    s
}

#[derive(Debug, PartialEq)]
pub enum Fate {
    /// checked, planned, linked and ran to exit code 0
    Accepted,
    /// rejected by the front end / checker / package plan / linker, with a short reason
    Rejected(String),
    /// anything else (crash, wrong exit)
    Broken(String),
}

pub fn fate(scratch: &Scratch, src: &str) -> Fate {
    let path = scratch.write("sig.zydeco", src);
    let res = guarded(|| {
        let subj = Subject::analyze(&path);
        let v = subj.verdict();
        if !v.accepted() {
            return Fate::Rejected(format!("{}: {}", v.tag(), crate::front::short_msg(&format!("{:?}", v))));
        }
        let run = subj.run(b"", &[], 1000);
        match run.end {
            | RunEnd::Exit(0) => Fate::Accepted,
            | RunEnd::NotRunnable(m) | RunEnd::LinkError(m) => Fate::Rejected(format!("plan/link: {}", crate::front::short_msg(&m))),
            | other => Fate::Broken(format!("{:?}", other)),
        }
    });
    match res {
        | Ok(f) => f,
        | Err(p) => Fate::Broken(format!("panic: {} at {}", p.msg, p.loc)),
    }
}

pub struct Signatures {
    roles: Vec<BuiltinValueRole>,
    scratch: Option<Scratch>,
    relabel_span: usize,
}
impl Signatures {
    pub fn new(tier: Tier) -> Self {
        let roles: Vec<_> = BuiltinValueRole::all().collect();
        let relabel_span = if tier == Tier::Thorough { roles.len() - 1 } else { 12 };
        Signatures { roles, scratch: None, relabel_span }
    }
}
impl Check for Signatures {
    fn property(&self) -> &'static str {
        "C06"
    }
    fn name(&self) -> String {
        "c06-signatures".into()
    }
    fn len(&self) -> usize {
        self.roles.len()
    }
    fn describe(&self, i: usize) -> String {
        let r = self.roles[i];
        format!("role {} declared at {}: the declared signature, every one-position mutation of it, relabelling to {} other roles, and a duplicate", r.source_name(), show_vt(&declared(r)), self.relabel_span)
    }
    fn rule(&self) -> String {
        format!("for every host role: (a) a closed program whose Builtin signature contains just that role (plus exit) at its declared classifier, rendered to source, is accepted by analyze + executable_program + BuiltinRootLinker and runs to exit 0; (b) every one-position mutation of the declared type tree — each atom replaced by each of the 14 other atoms or by a thunk, each parameter dropped / duplicated / swapped with its neighbour, an extra trailing parameter, each result replaced (OS / R / Ret Int64 / Ret String), a returned atom replaced, forall removed with R := OS or R := Ret Int64, forall added, Thk T -> Thk (Ret (Thk T)) — at every position including inside continuation types, is rejected (by the checker, the package plan or the linker; never accepted, never a crash); (c) the declared type labelled with each of {} other roles (quick: the next 12 in table order; thorough: all) whose declared classifier differs is rejected; (d) the role listed twice is rejected; mutants that render to the declared type are skipped; non-trivial = every role", self.relabel_span)
    }
    fn run(&mut self, i: usize) -> CaseResult {
        let scratch = self.scratch.get_or_insert_with(|| Scratch::new("c06sig"));
        let role = self.roles[i];
        let label = role.source_name().to_string();
        let decl = declared(role);
        let mut r = CaseResult::ok("role").nontrivial(true).key(hash64(&label));
        // (a) positive control
        let src = program(&[(label.clone(), show_vt(&decl))]);
        match fate(scratch, &src) {
            | Fate::Accepted => {}
            | other => {
                r = r.violation(format!("the declared signature of role {label} is not accepted"), format!("{:?}\n{}", other, src));
                return r;
            }
        }
        // (b) one-position mutations
        let muts = mutations(&decl);
        let mut reasons = std::collections::BTreeMap::<String, u64>::new();
        for (desc, m) in &muts {
            let src = program(&[(label.clone(), show_vt(m))]);
            match fate(scratch, &src) {
                | Fate::Rejected(why) => *reasons.entry(crate::subject::first_word(&why)).or_default() += 1,
                | Fate::Accepted => r = r.violation(format!("a mutated signature of role {label} is accepted ({})", mutation_class(desc)), format!("{desc}: {} instead of {}\n{}", show_vt(m), show_vt(&decl), src)),
                | Fate::Broken(b) => r = r.violation(format!("a mutated signature of role {label} breaks the pipeline: {}", crate::front::short_msg(&b)), format!("{desc}: {}\n{}\n{}", show_vt(m), b, src)),
            }
        }
        r = r.count("mutants", muts.len() as u64);
        // (c) relabelling
        let n = self.roles.len();
        let mut relabels = 0u64;
        for k in 1..=self.relabel_span {
            let other = self.roles[(i + k) % n];
            if declared(other) == decl {
                continue;
            }
            relabels += 1;
            let src = program(&[(other.source_name().to_string(), show_vt(&decl))]);
            match fate(scratch, &src) {
                | Fate::Rejected(_) => {}
                | Fate::Accepted => r = r.violation(format!("role {} accepted at the type declared for role {label}", other.source_name()), src),
                | Fate::Broken(b) => r = r.violation(format!("relabelled signature breaks the pipeline: {}", crate::front::short_msg(&b)), format!("{b}\n{src}")),
            }
        }
        r = r.count("relabellings", relabels);
        // (d) duplicate
        let src = program(&[(label.clone(), show_vt(&decl)), (label.clone(), show_vt(&decl))]);
        match fate(scratch, &src) {
            | Fate::Rejected(_) => {}
            | Fate::Accepted => r = r.violation(format!("a signature listing role {label} twice is accepted"), src),
            | Fate::Broken(b) => r = r.violation(format!("a signature listing a role twice breaks the pipeline: {}", crate::front::short_msg(&b)), format!("{b}\n{src}")),
        }
        for (k, v) in reasons {
            r = r.count(&format!("rejected_by_{k}"), v);
        }
        r
    }
}

fn mutation_class(desc: &str) -> &'static str {
    if desc.contains("atom") {
        "atom replaced"
    } else if desc.contains("dropped") {
        "parameter dropped"
    } else if desc.contains("duplicated") {
        "parameter duplicated"
    } else if desc.contains("swapped") {
        "parameters swapped"
    } else if desc.contains("extra") {
        "extra parameter"
    } else if desc.contains("forall") {
        "quantifier changed"
    } else if desc.contains("result") {
        "result replaced"
    } else {
        "other"
    }
}
