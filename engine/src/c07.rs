//! C07 — lexical scoping and import hygiene.
use crate::common::*;
use crate::print::{Cfg, Naming};
use crate::subject::*;
use crate::uni::*;
use zydeco_session::{AnalysisError, CompilerSession};
use zydeco_surface::scoped::ResolveError;

/// (a) every program of the universe printed under several naming strategies.
pub struct Renaming {
    progs: Vec<Prog>,
    chunk: usize,
    scratch: Option<Scratch>,
}
impl Renaming {
    pub fn new(tier: Tier) -> Self {
        // quick tier: every third program (C02 already covers fresh and pool-2 naming on all of them)
        let progs: Vec<Prog> = if tier == Tier::Quick { universe(tier).into_iter().step_by(3).collect() } else { universe(tier) };
        Renaming { progs, chunk: 16, scratch: None }
    }
}
impl Check for Renaming {
    fn property(&self) -> &'static str {
        "C07"
    }
    fn name(&self) -> String {
        "c07-renaming".into()
    }
    fn len(&self) -> usize {
        self.progs.len().div_ceil(self.chunk)
    }
    fn describe(&self, i: usize) -> String {
        let p = &self.progs[i * self.chunk];
        format!(
            "programs #{}..#{} of the universe under naming strategies fresh / pool of 1 and 3 names / named after a type of the binder's own annotation; first program under the pool of 1:\n{}",
            i * self.chunk,
            (i + 1) * self.chunk,
            crate::print::program(&p.body, &p.root, &Cfg { naming: Naming::Pool(1), multiline: true }).0
        )
    }
    fn rule(&self) -> String {
        format!("every program of the universe ({} programs) printed under 4 naming strategies: all-fresh names, the smallest-pool strategies with 1 and 3 names where each binder reuses the first pool name that does not capture a free occurrence in its scope (maximal shadowing, including shadowing of unrelated outer binders; pool of 2 is C02's), and a strategy that names a binder after a type mentioned in its own annotation whenever that type name is not used inside the binder's scope (`fn (Int64 : Int64) => ret Int64`: an annotation lies outside the scope of the binder it annotates; the printer carries the reference scoping model: binders scope over tail/body/arm, pattern components bind left to right); oracle: all variants are accepted and each variant's run result equals the reference evaluator's (which never sees names); non-trivial = programs where at least one pool variant differs textually from the fresh variant", self.progs.len())
    }
    fn timeout(&self) -> std::time::Duration {
        std::time::Duration::from_secs(180)
    }
    fn run(&mut self, i: usize) -> CaseResult {
        let scratch = self.scratch.get_or_insert_with(|| Scratch::new("c07"));
        let a = i * self.chunk;
        let b = ((i + 1) * self.chunk).min(self.progs.len());
        let mut r = CaseResult::ok("chunk").key(hash64(&format!("r{}", i)));
        let mut nontrivial = 0;
        for prog in &self.progs[a..b] {
            let fresh_text = crate::print::program(&prog.body, &prog.root, &Cfg::default()).0;
            let mut shadowed = false;
            for naming in [Naming::Fresh, Naming::Pool(1), Naming::Pool(3), Naming::TypePun] {
                let cfg = Cfg { naming, multiline: false };
                let ev = evaluate(scratch, prog, &cfg, true);
                r = r.count("variants", 1);
                if naming != Naming::Fresh && ev.text.split_whitespace().collect::<Vec<_>>() != fresh_text.split_whitespace().collect::<Vec<_>>() {
                    shadowed = true;
                }
                if let Some(p) = &ev.front_panic {
                    r = r.violation(format!("front end panicked at {}", crate::front::short_loc(&p.loc)), format!("{:?}\n{}", p, ev.text));
                    continue;
                }
                if !ev.verdict.accepted() {
                    r = r.violation(
                        format!("a capture-avoiding renaming changes acceptance ({:?} naming: {})", naming, ev.verdict.tag()),
                        format!("verdict {:?}\nrenamed program:\n{}\nfresh-named program:\n{}", ev.verdict, ev.text, fresh_text),
                    );
                    continue;
                }
                if let Some(run) = &ev.run {
                    if let Some(d) = disagreement(run, &ev.reference) {
                        r = r.violation(
                            format!("a capture-avoiding renaming changes behaviour ({:?} naming)", naming),
                            format!("{}\ninterpreter {:?}, reference {:?}\nrenamed program:\n{}\nfresh-named program:\n{}", d, run.end, ev.reference.end, ev.text, fresh_text),
                        );
                    }
                }
            }
            if shadowed {
                nontrivial += 1;
            }
        }
        r.nontrivial = nontrivial > 0;
        r.count("programs_with_shadowing", nontrivial)
    }
}

/// (b) capture probes: an importer binds `x` around an import of a source in which `x` is free.
pub struct Probes {
    cases: Vec<(String, String, Option<(String, String)>, &'static str)>,
    scratch: Option<Scratch>,
}
impl Probes {
    pub fn new() -> Self {
        let imp = "@(import(\"free.zy\"))";
        // importer binder forms with HOLE at the import site
        let forms: Vec<(&str, &str)> = vec![
            ("let-body", "let x = 1 in HOLE"),
            ("let-bindee-under-outer-let", "let x = 1 in let y = HOLE in y"),
            ("let-annotation", "let x = 1 in let y : HOLE = 2 in y"),
            ("def-body", "def x = 1 in HOLE"),
            ("param-in-body", "param x in HOLE"),
            ("param-annotated-body", "param (x : @(intrinsic(i64))) in HOLE"),
            ("fn-body", "fn x => HOLE"),
            ("fn-annotated-body", "fn (x : @(intrinsic(i64))) => HOLE"),
            ("fn-two-params", "fn w x => HOLE"),
            ("do-tail", "do x <- ret 1; HOLE"),
            ("do-bindee-under-outer", "let x = 1 in do y <- HOLE; ret y"),
            ("match-arm", "match (1, 2) | (x, y) => HOLE end"),
            ("match-ctor-arm", "match +A(1) | +A(x) => HOLE end"),
            ("match-scrutinee-under-outer", "let x = 1 in match HOLE | y => ret y end"),
            ("fix-body", "fix x => HOLE"),
            ("comatch-copattern-argument", "comatch | .d x => HOLE end"),
            ("comatch-abstraction", "comatch x y => HOLE end"),
            ("block-that-before", "begin let x = 1 that HOLE end"),
            ("block-that-after", "begin let y = HOLE that let x = 1 that y end"),
            ("block-def-that", "begin def x = 1 that HOLE end"),
            ("block-param-that", "begin param x that HOLE end"),
            ("block-fix-that", "begin let fix x = { ret 1 } that HOLE end"),
            ("tuple-pattern", "let (x, w) = (1, 2) in HOLE"),
            ("alias-pattern", "let (x; z) = 1 in HOLE"),
            ("named-pattern", "let (a = x) = (a = 1) in HOLE"),
            ("punned-pattern", "let (= x) = (x = 1) in HOLE"),
            ("projection-pattern", "let (/x) = (x = 1) in HOLE"),
            ("genbind-params", "let ! f x = HOLE in ret 1"),
            ("fix-genbind", "let fix f (x : @(intrinsic(i64))) = (HOLE) in ret 1"),
            ("forall-binder", "forall (x : @(intrinsic(vtype))) . (HOLE)"),
            ("exists-binder", "exists (x : @(intrinsic(vtype))) . HOLE"),
            ("pi-binder", "pi (x : @(intrinsic(i64))) . (HOLE)"),
            ("type-abstraction", "fn (x : @(intrinsic(vtype))) => HOLE"),
        ];
        // nesting layers between the binder and the import (no binder of `x` of their own)
        let layers: Vec<(&str, &str)> = vec![("direct", "HOLE"), ("under-thunk", "! { HOLE }"), ("under-do", "do q <- ret 2; HOLE"), ("under-let-and-paren", "let r = 3 in (HOLE)"), ("under-inner-block", "begin let s = 4 that HOLE end")];
        let providers: Vec<(&str, &str)> = vec![("bare", "x"), ("thunked", "{ ret x }"), ("function", "fn y => ret x"), ("return", "ret x")];
        let mut cases = vec![];
        for (fname, form) in &forms {
            for (lname, layer) in &layers {
                for (pname, provider) in &providers {
                    let root = form.replace("HOLE", &layer.replace("HOLE", imp));
                    cases.push((format!("{fname}/{lname}/{pname}"), root, Some(("free.zy".to_string(), provider.to_string())), "unbound-x"));
                }
            }
        }
        // `that` must not cross a file boundary
        cases.push(("that-without-begin-in-provider".into(), format!("begin let a = {imp} that ret a end"), Some(("free.zy".into(), "let y = 1 that y".into())), "unenclosed-that"));
        cases.push(("provider-block-binding-not-visible-in-importer".into(), format!("begin let a = {imp} that ret y end"), Some(("free.zy".into(), "begin let y = 1 that 2 end".into())), "unbound-y-in-root"));
        cases.push(("importer-that-not-visible-in-provider".into(), format!("begin let x = 1 that let a = {imp} that ret a end"), Some(("free.zy".into(), "begin let z = 2 that x end".into())), "unbound-x"));
        // a companion signature that mentions an importer-bound name
        cases.push(("companion-signature-mentions-importer-name".into(), "let x = @(intrinsic(i64)) in let a = @(import(\"free.zy\")) in ret a".into(), Some(("free.zyi".into(), "x".into())), "unbound-x-sig"));
        // a `that` inside a nested block does not escape to the outer block
        cases.push(("that-does-not-escape-nested-block".into(), "begin let a = begin let x = 1 that 2 end that ret x end".into(), None, "unbound-x-in-root"));
        cases.push(("that-visible-before-its-text".into(), "let Ret = @(intrinsic(ret)) in begin let a = x that let x = 1 that ret a end".into(), None, "accepted-1"));
        cases.push(("that-shadows-outer".into(), "let Ret = @(intrinsic(ret)) in let x = 5 in begin let a = x that let x = 1 that ret a end".into(), None, "accepted-1"));
        Probes { cases, scratch: None }
    }
}
impl Check for Probes {
    fn property(&self) -> &'static str {
        "C07"
    }
    fn name(&self) -> String {
        "c07-probes".into()
    }
    fn len(&self) -> usize {
        self.cases.len()
    }
    fn describe(&self, i: usize) -> String {
        let (name, root, prov, want) = &self.cases[i];
        format!("{name}: expect {want}\n--- main.zydeco ---\n{root}\n{}", prov.as_ref().map(|(f, t)| format!("--- {f} ---\n{t}")).unwrap_or_default())
    }
    fn rule(&self) -> String {
        "capture probes: 33 importer binder forms (let/def/param/fn/do/match/fix/comatch/block contributions/pattern components/quantifiers, binding x around body, bindee and annotation positions) x 5 nesting layers x 4 providers in which x is free; oracle: analysis fails with ResolveError::UnboundVar naming x at a span inside the provider file — never Checked, never a type error, never a capture; plus file- and block-boundary probes for `that` (UnenclosedThat in a provider, no leakage in either direction, companion signatures, nested blocks) and two positive probes (a `that` name is visible before its text and shadows outer names); non-trivial = all".into()
    }
    fn run(&mut self, i: usize) -> CaseResult {
        let scratch = self.scratch.get_or_insert_with(|| Scratch::new("c07p"));
        scratch.clear();
        let (name, root, prov, want) = self.cases[i].clone();
        let path = scratch.write("main.zydeco", &root);
        if let Some((f, t)) = &prov {
            if f.ends_with(".zyi") {
                scratch.write("free.zy", "1");
            }
            scratch.write(f, t);
        }
        let mut r = CaseResult::ok("probe").nontrivial(true).key(hash64(&name));
        let form = name.split('/').next().unwrap_or(&name).to_string();
        let res = guarded(|| {
            let session = CompilerSession::default();
            let result = session.analyze(&path);
            let verdict = verdict_of(&result);
            let unbound = match &result {
                | Err(AnalysisError::Resolve { error, .. }) => match error.as_ref() {
                    | ResolveError::UnboundVar(v) => Some((v.inner.0.clone(), v.info.get_path().map(|p| p.file_name().unwrap().to_string_lossy().to_string()).unwrap_or_default())),
                    | ResolveError::UnenclosedThat(_) => Some(("<unenclosed-that>".into(), String::new())),
                    | _ => None,
                },
                | _ => None,
            };
            let run = if verdict.accepted() { Some(Subject { session, result }.run(b"", &[], 1000).end) } else { None };
            (verdict, unbound, run)
        });
        let (verdict, unbound, run) = match res {
            | Ok(x) => x,
            | Err(p) => return r.violation(format!("front end panicked at {}", crate::front::short_loc(&p.loc)), format!("{:?}\n{}", p, self.describe(i))),
        };
        let ok = match want {
            | "unbound-x" => unbound == Some(("x".into(), "free.zy".into())),
            | "unbound-x-sig" => unbound == Some(("x".into(), "free.zyi".into())),
            | "unbound-y-in-root" => unbound == Some(("y".into(), "main.zydeco".into())),
            | "unbound-x-in-root" => unbound == Some(("x".into(), "main.zydeco".into())),
            | "unenclosed-that" => matches!(&unbound, Some((n, _)) if n == "<unenclosed-that>"),
            | "accepted-1" => run == Some(RunEnd::Ret("Integer(1)".into())),
            | _ => false,
        };
        if !ok {
            let what = if verdict.accepted() || matches!(verdict, Verdict::Rejected(_)) { "a free name of an imported source is captured by (or checked against) the importer" } else { "hygiene probe gives an unexpected outcome" };
            r = r.violation(format!("{what}: importer form `{form}`, expected {want}"), format!("verdict {:?}, resolve error {:?}, run {:?}\n{}", verdict, unbound, run, self.describe(i)));
        }
        r.class = format!("probe-{}", verdict.tag());
        r
    }
}

/* ------------------------------ repeated names inside one pattern ------------------------------ */

/// (c) "pattern components bind left to right": when a name occurs more than once in one pattern, an
/// occurrence in the scope of the pattern refers to the LAST component with that name (equivalently:
/// renaming the earlier components to fresh names changes nothing). Every pattern shape of a small
/// catalogue x every assignment of names from {x, y} to its leaves x every binder construct,
/// including `that` contributions; the observation returns `x`.
#[derive(Clone, Debug)]
enum Shape {
    Leaf,
    Tuple(Vec<Shape>),
    /// `(shape; leaf)`: the leaf aliases the whole bindee
    Alias(Box<Shape>),
    Named(&'static str, Box<Shape>),
    Ctor(Vec<Shape>),
}
pub struct PatternShadowing {
    cases: Vec<(usize, Vec<usize>, usize)>,
}
fn shapes() -> Vec<Shape> {
    use Shape::*;
    vec![
        Tuple(vec![Leaf, Leaf]),
        Tuple(vec![Leaf, Leaf, Leaf]),
        Tuple(vec![Leaf, Tuple(vec![Leaf, Leaf])]),
        Tuple(vec![Tuple(vec![Leaf, Leaf]), Leaf]),
        Alias(Box::new(Tuple(vec![Leaf, Leaf]))),
        Tuple(vec![Named("a", Box::new(Leaf)), Named("b", Box::new(Leaf))]),
        Ctor(vec![Leaf, Leaf]),
        Tuple(vec![Leaf, Ctor(vec![Leaf, Leaf])]),
        Tuple(vec![Alias(Box::new(Tuple(vec![Leaf, Leaf]))), Leaf]),
    ]
}
const PS_BINDERS: [&str; 10] = ["let-in", "let-that", "do", "fn", "match", "def-that", "def-in", "comatch-arg", "genbind-param", "that-used-before"];
fn leaves(s: &Shape) -> usize {
    match s {
        | Shape::Leaf => 1,
        | Shape::Tuple(cs) | Shape::Ctor(cs) => cs.iter().map(leaves).sum(),
        | Shape::Alias(inner) => leaves(inner) + 1,
        | Shape::Named(_, inner) => leaves(inner),
    }
}
/// (pattern text, value text, rendering of the value) with leaf k named names[k] and valued 10+k
fn build(s: &Shape, names: &[&str], next: &mut usize, bound: &mut Vec<(String, String)>) -> (String, String, String) {
    match s {
        | Shape::Leaf => {
            let k = *next;
            *next += 1;
            let v = format!("{}", 10 + k);
            let shown = format!("Integer({})", 10 + k);
            bound.push((names[k].to_string(), shown.clone()));
            (names[k].to_string(), v, shown)
        }
        | Shape::Tuple(cs) | Shape::Ctor(cs) => {
            let parts: Vec<(String, String, String)> = cs.iter().map(|c| build(c, names, next, bound)).collect();
            let pats: Vec<&str> = parts.iter().map(|p| p.0.as_str()).collect();
            let vals: Vec<&str> = parts.iter().map(|p| p.1.as_str()).collect();
            // right-nested products print flat
            let mut shown: Vec<String> = parts.iter().map(|p| p.2.clone()).collect();
            if matches!(cs.last(), Some(Shape::Tuple(_))) {
                let last = shown.pop().unwrap();
                shown.push(last[1..last.len() - 1].to_string());
            }
            if matches!(s, Shape::Ctor(_)) {
                (format!("+K({})", pats.join(", ")), format!("(+K({}) : KK)", vals.join(", ")), format!("+K(({}))", shown.join(",")))
            } else {
                (format!("({})", pats.join(", ")), format!("({})", vals.join(", ")), format!("({})", shown.join(",")))
            }
        }
        | Shape::Alias(inner) => {
            let (p, v, shown) = build(inner, names, next, bound);
            let k = *next;
            *next += 1;
            bound.push((names[k].to_string(), shown.clone()));
            (format!("({p}; {})", names[k]), v, shown)
        }
        | Shape::Named(l, inner) => {
            let (p, v, shown) = build(inner, names, next, bound);
            (format!("({l} = {p})"), format!("({l} = {v})"), shown)
        }
    }
}
impl PatternShadowing {
    pub fn new() -> Self {
        let mut cases = vec![];
        for (si, s) in shapes().iter().enumerate() {
            let n = leaves(s);
            for code in 0..2usize.pow(n as u32) {
                let names: Vec<usize> = (0..n).map(|k| code >> k & 1).collect();
                // the observation returns x: some leaf must be named x
                if !names.contains(&0) {
                    continue;
                }
                for b in 0..PS_BINDERS.len() {
                    cases.push((si, names.clone(), b));
                }
            }
        }
        PatternShadowing { cases }
    }
    fn text(&self, i: usize) -> (String, String) {
        let (si, names, b) = &self.cases[i];
        let shape = &shapes()[*si];
        let names: Vec<&str> = names.iter().map(|k| ["x", "y"][*k]).collect();
        let mut bound = vec![];
        let (pat, val, _) = build(shape, &names, &mut 0, &mut bound);
        let expected = bound.iter().rev().find(|(n, _)| n == "x").map(|(_, v)| v.clone()).unwrap();
        let body = match PS_BINDERS[*b] {
            | "let-in" => format!("let {pat} = {val} in ret x"),
            | "let-that" => format!("begin let {pat} = {val} that ret x end"),
            | "do" => format!("do {pat} <- ret {val}; ret x"),
            | "fn" => format!("let f = {{ fn {pat} => ret x }} in ! f {val}"),
            | "match" => format!("match {val} | {pat} => ret x end"),
            | "def-that" => format!("begin def {pat} = {val} that ret x end"),
            | "def-in" => format!("def {pat} = {val} in ret x"),
            | "comatch-arg" => format!("let o = {{ comatch | .go {pat} => ret x end }} in ! o .go {val}"),
            | "genbind-param" => format!("let ! f {pat} = ret x in ! f {val}"),
            | _ => format!("begin let r = x that let {pat} = {val} that ret r end"),
        };
        (format!("begin\n  let Ret = @(intrinsic(ret)) that\n  let Thk = @(intrinsic(thk)) that\n  let Int64 = @(intrinsic(i64)) that\n  let KK = data | +K : Int64 * Int64 end that\n  {body}\nend\n"), expected)
    }
}
impl Check for PatternShadowing {
    fn property(&self) -> &'static str {
        "C07"
    }
    fn name(&self) -> String {
        "c07-pattern-shadowing".into()
    }
    fn len(&self) -> usize {
        self.cases.len()
    }
    fn describe(&self, i: usize) -> String {
        let (t, e) = self.text(i);
        format!("expect {e}\n{t}")
    }
    fn rule(&self) -> String {
        format!("{} programs = 9 pattern shapes (pairs, triples, nested left / right, alias of a tuple, named components, constructor arguments, constructor inside a tuple, alias inside a tuple) x every assignment of the names x / y to the leaves with at least one x x 10 binder constructs (let-in, let-that, do, fn, match arm, def-that, def-in, comatch argument, function-definition parameter, a `that` pattern used before its text); reference: components bind left to right, so x denotes the last leaf named x; oracle: the program is accepted and returns that leaf's value (binder constructs that reject the pattern shape outright are counted, not judged); non-trivial = programs where x occurs at least twice", self.cases.len())
    }
    fn run(&mut self, i: usize) -> CaseResult {
        let scratch = Scratch::new("c07ps");
        let (text, expected) = self.text(i);
        let (_, names, b) = &self.cases[i];
        let dup = names.iter().filter(|k| **k == 0).count() >= 2;
        let path = scratch.write("main.zydeco", &text);
        let mut r = CaseResult::ok("pattern").key(i as u64).nontrivial(dup);
        match guarded(|| {
            let s = Subject::analyze(&path);
            let v = s.verdict();
            let run = if v.accepted() { Some(s.run(b"", &[], 2000)) } else { None };
            (v, run)
        }) {
            | Err(_) => r = r.count("front_end_panics_counted_by_C10", 1),
            | Ok((v, None)) => r = r.count(&format!("not_accepted_{}", v.tag()), 1),
            | Ok((_, Some(run))) => match &run.end {
                | RunEnd::Ret(got) if *got == expected => r = r.count("agreements", 1),
                | other => {
                    r = r.violation(format!("a repeated name in one pattern does not refer to its last component ({} binder)", PS_BINDERS[*b]), format!("expected {expected}, got {:?}\n{text}", other));
                }
            },
        }
        r
    }
}

/* ------------------------------ binders of one clause are invisible in its siblings ------------------------------ */

/// (d) a name bound by one match arm / comatch clause scopes over that arm or clause only: in a
/// sibling it denotes the enclosing binder. An outer `x = 100`, a first arm / clause that binds x at
/// each of its binding positions, a second one that returns x free; both selected at run time.
pub struct SiblingScopes {
    cases: Vec<(usize, bool)>,
}
/// (construct with FIRST and SECOND bodies in place, call selecting the first clause, call selecting the second, what the first clause's x is)
const SIBLING_FORMS: [(&str, &str, &str, &str, &str); 8] = [
    ("match arms, constructor payload", "let v : Opt = ARG in match v | +Some(x) => ret x | +None() => ret x end", "+Some(1)", "+None()", "Integer(1)"),
    ("comatch, destructor clauses with an argument", "let o : Thk O = { comatch | .a x => ret x | .b y => ret x end } in ! o ARG", ".a 1", ".b 5", "Integer(1)"),
    ("comatch, function by cases: leading variable pattern", "let f : Thk (Int64 -> Opt -> Ret Int64) = { comatch | x +Some(y) => ret x | z +None() => ret x end } in ! f ARG", "1 +Some(2)", "1 +None()", "Integer(1)"),
    ("comatch, function by cases: leading constructor pattern", "let f : Thk (Opt -> Int64 -> Ret Int64) = { comatch | +Some(x) w => ret x | +None() w => ret x end } in ! f ARG", "+Some(1) 7", "+None() 7", "Integer(1)"),
    ("comatch, function by cases: second parameter", "let f : Thk (Opt -> Int64 -> Ret Int64) = { comatch | +Some(w) x => ret x | +None() y => ret x end } in ! f ARG", "+Some(3) 1", "+None() 7", "Integer(1)"),
    ("comatch, destructor then patterns", "let o : Thk P = { comatch | .a x +Some(y) => ret x | .a z +None() => ret x end } in ! o ARG", ".a 1 +Some(2)", ".a 1 +None()", "Integer(1)"),
    ("comatch, leading tuple pattern", "let f : Thk (Int64 * Int64 -> Opt -> Ret Int64) = { comatch | (x, w) +Some(y) => ret x | z +None() => ret x end } in ! f ARG", "(1, 2) +Some(2)", "(1, 2) +None()", "Integer(1)"),
    ("match arms, nested payload of a pair", "let v : Opt * Int64 = ARG in match v | (+Some(x), w) => ret x | (+None(), w) => ret x end", "(+Some(1), 2)", "(+None(), 2)", "Integer(1)"),
];
impl SiblingScopes {
    pub fn new() -> Self {
        let mut cases = vec![];
        for f in 0..SIBLING_FORMS.len() {
            for second in [false, true] {
                cases.push((f, second));
            }
        }
        SiblingScopes { cases }
    }
    fn text(&self, i: usize) -> (String, &'static str) {
        let (f, second) = self.cases[i];
        let (_, form, first_arg, second_arg, first_x) = SIBLING_FORMS[f];
        let body = form.replace("ARG", if second { second_arg } else { first_arg });
        (
            format!("begin\n  let Ret = @(intrinsic(ret)) that\n  let Thk = @(intrinsic(thk)) that\n  let Unit = @(intrinsic(unit)) that\n  let Int64 = @(intrinsic(i64)) that\n  let Opt = data | +None : Unit | +Some : Int64 end that\n  let O = codata | .a : Int64 -> Ret Int64 | .b : Int64 -> Ret Int64 end that\n  let P = codata | .a : Int64 -> Opt -> Ret Int64 end that\n  let x = 100 in\n  {body}\nend\n"),
            if second { "Integer(100)" } else { first_x },
        )
    }
}
impl Check for SiblingScopes {
    fn property(&self) -> &'static str {
        "C07"
    }
    fn name(&self) -> String {
        "c07-sibling-scopes".into()
    }
    fn len(&self) -> usize {
        self.cases.len()
    }
    fn describe(&self, i: usize) -> String {
        let (t, e) = self.text(i);
        format!("{} ({} clause selected), expect {e}\n{t}", SIBLING_FORMS[self.cases[i].0].0, if self.cases[i].1 { "second" } else { "first" })
    }
    fn rule(&self) -> String {
        format!("{} programs = 8 two-clause constructs (match arms binding in a constructor payload / in a nested payload of a pair; comatch clauses headed by a destructor, by a leading variable / constructor / tuple pattern, binding in the second parameter, a destructor followed by patterns) under an outer `x = 100`, the first clause binding x and returning it, the second returning x free, each selected at run time; oracle: accepted, the first clause returns its own x, the second returns 100; non-trivial = every program", self.cases.len())
    }
    fn run(&mut self, i: usize) -> CaseResult {
        let scratch = Scratch::new("c07sib");
        let (text, expected) = self.text(i);
        let path = scratch.write("main.zydeco", &text);
        let mut r = CaseResult::ok("clause").key(i as u64).nontrivial(true);
        let what = SIBLING_FORMS[self.cases[i].0].0;
        match guarded(|| {
            let s = Subject::analyze(&path);
            let v = s.verdict();
            let run = if v.accepted() { Some(s.run(b"", &[], 2000)) } else { None };
            (v, run)
        }) {
            | Err(p) => r = r.violation(format!("front end panicked at {}", crate::front::short_loc(&p.loc)), format!("{:?}\n{text}", p)),
            | Ok((v, None)) => r = r.violation(format!("a name bound in one clause changes how a sibling clause is checked ({what})"), format!("{:?}\n{text}", v)),
            | Ok((_, Some(run))) => match &run.end {
                | RunEnd::Ret(got) if got == expected => r = r.count("agreements", 1),
                | other => r = r.violation(format!("a name bound in one clause is visible in a sibling clause ({what})"), format!("expected {expected}, got {:?}\n{text}", other)),
            },
        }
        r
    }
}

pub fn checks(tier: Tier) -> Vec<Box<dyn Check>> {
    vec![Box::new(Probes::new()), Box::new(Renaming::new(tier)), Box::new(PatternShadowing::new()), Box::new(SiblingScopes::new())]
}
