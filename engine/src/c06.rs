//! C06 — every host operation honours its declared type and contract.
use crate::common::*;
use crate::prim::*;
use crate::subject::*;
use std::rc::Rc;
use zydeco_dynamics::host::{HostValue, ReaderHandle, WriterHandle};
use zydeco_dynamics::syntax::SemValue;
use zydeco_statics::{BuiltinComputationClassifier as CC, BuiltinOperationAbi, BuiltinValueAtom as Atom, BuiltinValueClassifier as VC};
use zydeco_syntax::*;

/* ------------------------------ classifier structure ----------------------------- */

#[derive(Clone, Debug, PartialEq)]
pub enum Res {
    Os,
    Bound,
    Ret(Atom),
}

#[derive(Clone, Debug, PartialEq)]
pub enum Param {
    Atom(Atom),
    /// a continuation thunk taking these parameters (atoms or nested thunks, recorded as text) and ending in OS/Bound
    Kont(Vec<Option<Atom>>, Res),
}

pub struct Sig {
    pub forall: bool,
    pub params: Vec<Param>,
    pub res: Res,
}

fn res_of(c: &CC) -> Res {
    match c {
        | CC::OS => Res::Os,
        | CC::Bound(_) => Res::Bound,
        | CC::Return(v) => match v.as_ref() {
            | VC::Atom(a) => Res::Ret(*a),
            | VC::Thunk(_) => Res::Os,
        },
        | _ => Res::Os,
    }
}

fn spine(mut c: &CC) -> (Vec<&VC>, &CC) {
    let mut ps = vec![];
    while let CC::Arrow(p, rest) = c {
        ps.push(p);
        c = rest;
    }
    (ps, c)
}

pub fn sig_of(role: BuiltinValueRole) -> Sig {
    let VC::Thunk(body) = BuiltinOperationAbi::for_role(role).into_classifier() else { panic!("operation classifier is a thunk") };
    let (forall, body) = match *body {
        | CC::ForallCType(inner) => (true, *inner),
        | other => (false, other),
    };
    let (ps, r) = spine(&body);
    let params = ps
        .into_iter()
        .map(|p| match p {
            | VC::Atom(a) => Param::Atom(*a),
            | VC::Thunk(k) => {
                let (kps, kr) = spine(k);
                Param::Kont(
                    kps.into_iter()
                        .map(|kp| match kp {
                            | VC::Atom(a) => Some(*a),
                            | VC::Thunk(_) => None,
                        })
                        .collect(),
                    res_of(kr),
                )
            }
        })
        .collect();
    Sig { forall, params, res: res_of(r) }
}

/* ------------------------------------ domains ------------------------------------ */

fn strings_upto(n: usize) -> Vec<String> {
    let alpha = ["a", "é", "€", "🙂", "\u{301}", "\n", ","];
    let mut out = vec![String::new()];
    let mut frontier = vec![String::new()];
    for _ in 0..n {
        let mut next = vec![];
        for p in &frontier {
            for a in alpha {
                next.push(format!("{p}{a}"));
            }
        }
        out.extend(next.iter().cloned());
        frontier = next;
    }
    out
}

pub fn string_domain(len: usize) -> Vec<String> {
    let mut v = strings_upto(len);
    v.extend(
        ["0", "-0", "+1", " 1", "1 ", "9223372036854775807", "9223372036854775808", "-9223372036854775808", "-9223372036854775809", "1_0", "١", "12a", "--1", "+", "-", "007"]
            .iter()
            .map(|s| s.to_string()),
    );
    v.push("x".repeat(300));
    v
}

fn int64_domain() -> Vec<i64> {
    vec![i64::MIN, -1, 0, 1, 2, 3, 4, 299, 300, 301, 0x7F, 0xD7FF, 0xD800, 0xDFFF, 0xE000, 0x10FFFF, 0x110000, i64::MAX]
}

fn bytes_domain() -> Vec<Vec<u8>> {
    let alpha = [0x00u8, 0x61, 0xC3, 0xA9, 0xFF];
    let mut out: Vec<Vec<u8>> = vec![vec![]];
    for a in alpha {
        out.push(vec![a]);
        for b in alpha {
            out.push(vec![a, b]);
        }
    }
    out.extend([vec![0xE2, 0x82], vec![0xE2, 0x82, 0xAC], vec![0xF0, 0x9F, 0x99], vec![0xF0, 0x9F, 0x99, 0x82], vec![0xC0, 0x80], vec![0xED, 0xA0, 0x80], vec![0xF4, 0x90, 0x80, 0x80], "é€🙂".as_bytes().to_vec()]);
    out
}

fn int_lit(t: IntegerType, v: i128) -> SemValue {
    SemValue::Literal(Literal::Integer(IntegerLiteral::new(v).with_type(t).expect("in range")))
}

fn atom_domain(a: Atom, strlen: usize) -> Vec<SemValue> {
    match a {
        | Atom::Integer(IntegerType::Int64) => int64_domain().into_iter().map(lit_i64).collect(),
        | Atom::Integer(t) => {
            let (lo, hi): (i128, i128) = match t {
                | IntegerType::Int8 => (-128, 127),
                | IntegerType::Int16 => (-32768, 32767),
                | IntegerType::Int32 => (i32::MIN as i128, i32::MAX as i128),
                | IntegerType::Int64 => (i64::MIN as i128, i64::MAX as i128),
                | IntegerType::UInt8 => (0, 255),
                | IntegerType::UInt16 => (0, 65535),
                | IntegerType::UInt32 => (0, u32::MAX as i128),
                | IntegerType::UInt64 => (0, u64::MAX as i128),
            };
            let mut vs = vec![lo, lo + 1, 0, 1, hi - 1, hi];
            if lo < 0 {
                vs.push(-1);
            }
            vs.sort();
            vs.dedup();
            vs.into_iter().map(|v| int_lit(t, v)).collect()
        }
        | Atom::Float(FloatType::Float32) => [0.0f32, -0.0, 1.5, f32::INFINITY, f32::NAN, f32::MAX].iter().map(|f| SemValue::Literal(Literal::Float(FloatLiteral::Float32(f.to_bits())))).collect(),
        | Atom::Float(FloatType::Float64) => [0.0f64, -0.0, 1.5, f64::INFINITY, f64::NAN, f64::MAX].iter().map(|f| SemValue::Literal(Literal::Float(FloatLiteral::Float64(f.to_bits())))).collect(),
        | Atom::Char => ['a', 'é', '€', '🙂', '\n', '\0', '\u{301}', ','].iter().map(|c| SemValue::Literal(Literal::Char(*c))).collect(),
        | Atom::String => string_domain(strlen).iter().map(|s| lit_str(s)).collect(),
        | Atom::Bytes => bytes_domain().into_iter().map(|b| SemValue::Host(HostValue::Bytes(Rc::from(b)))).collect(),
        | Atom::Reader => vec![SemValue::Host(HostValue::Reader(ReaderHandle::STDIN))],
        | Atom::Writer => vec![SemValue::Host(HostValue::Writer(WriterHandle::STDOUT)), SemValue::Host(HostValue::Writer(WriterHandle::STDERR))],
    }
}

fn has_atom(v: &SemValue, a: Atom) -> bool {
    match (v, a) {
        | (SemValue::Literal(Literal::Integer(l)), Atom::Integer(t)) => l.integer_type() == Some(t),
        | (SemValue::Literal(Literal::Float(l)), Atom::Float(t)) => l.float_type() == t,
        | (SemValue::Literal(Literal::Char(_)), Atom::Char) => true,
        | (SemValue::Literal(Literal::String(_)), Atom::String) => true,
        | (SemValue::Host(HostValue::Bytes(_)), Atom::Bytes) => true,
        | (SemValue::Host(HostValue::Reader(_)), Atom::Reader) => true,
        | (SemValue::Host(HostValue::Writer(_)), Atom::Writer) => true,
        | _ => false,
    }
}

/* ---------------------------------- table agreement --------------------------------- */

pub struct Tables;
impl Check for Tables {
    fn property(&self) -> &'static str {
        "C06"
    }
    fn name(&self) -> String {
        "c06-tables".into()
    }
    fn len(&self) -> usize {
        BuiltinValueRole::all().count()
    }
    fn describe(&self, i: usize) -> String {
        let r = BuiltinValueRole::all().nth(i).unwrap();
        format!("role {} (host name {}, arity {}), classifier {}", r.source_name(), r.host_name(), r.arity(), BuiltinOperationAbi::for_role(r).into_classifier())
    }
    fn rule(&self) -> String {
        "every one of the host roles (BuiltinValueRole::all()): arity() equals the number of arrows of its declared classifier; the source name round-trips; host names are pairwise distinct; the stack-IR builtin table has the same arity; non-trivial = all (exhaustive over roles)".into()
    }
    fn run(&mut self, i: usize) -> CaseResult {
        let role = BuiltinValueRole::all().nth(i).unwrap();
        let mut r = CaseResult::ok("role").nontrivial(true).key(hash64(&role.source_name()));
        let sig = sig_of(role);
        if sig.params.len() != role.arity() {
            r = r.violation("role arity differs from the number of parameters of its declared classifier", format!("{}: arity {} but classifier {} has {} parameters", role.source_name(), role.arity(), BuiltinOperationAbi::for_role(role).into_classifier(), sig.params.len()));
        }
        if BuiltinValueRole::from_source_name(&role.source_name()) != Some(role) {
            r = r.violation("role source name does not round-trip", role.source_name());
        }
        if BuiltinValueRole::all().filter(|o| o.host_name() == role.host_name()).count() != 1 {
            r = r.violation("host name is not unique", role.host_name());
        }
        let table = zydeco_stackir::Builtin::all();
        match table.get(&role.host_name()) {
            | Some(b) if b.arity == role.arity() => {}
            | other => r = r.violation("stack-IR builtin table disagrees with the role's arity", format!("{}: {:?}", role.host_name(), other.map(|b| b.arity))),
        }
        r
    }
}

/* ------------------------------- shape conformance --------------------------------- */

/// reference semantics of the text / bytes / char roles over Vec<char>
#[derive(Debug, PartialEq)]
enum Want {
    Ret(String),
    /// continuation index (position among the continuation parameters) and rendered arguments
    Call(usize, Vec<String>),
    Unspecified,
}

fn show(v: &SemValue) -> String {
    match v {
        | SemValue::Literal(Literal::String(s)) => format!("s:{}", s.as_str()),
        | SemValue::Literal(Literal::Integer(i)) => format!("i:{}", i.value()),
        | SemValue::Literal(Literal::Char(c)) => format!("c:{}", c),
        | SemValue::Literal(Literal::Float(f)) => format!("f:{:#x}", f.to_bits()),
        | SemValue::Host(HostValue::Bytes(b)) => format!("b:{:02x?}", b.as_ref()),
        | other => format!("{:?}", other),
    }
}

fn get_str(v: &SemValue) -> String {
    match v {
        | SemValue::Literal(Literal::String(s)) => s.as_str().to_string(),
        | _ => panic!("not a string"),
    }
}
fn get_i64(v: &SemValue) -> i64 {
    match v {
        | SemValue::Literal(Literal::Integer(IntegerLiteral::Int64(i))) => *i,
        | _ => panic!("not an int64"),
    }
}
fn get_char(v: &SemValue) -> char {
    match v {
        | SemValue::Literal(Literal::Char(c)) => *c,
        | _ => panic!("not a char"),
    }
}
fn get_bytes(v: &SemValue) -> Vec<u8> {
    match v {
        | SemValue::Host(HostValue::Bytes(b)) => b.to_vec(),
        | _ => panic!("not bytes"),
    }
}

fn reference(role: BuiltinValueRole, args: &[SemValue]) -> Want {
    use BuiltinValueRole as R;
    match role {
        | R::StrScalarLength => Want::Ret(format!("i:{}", get_str(&args[0]).chars().count())),
        | R::StrByteLength => Want::Ret(format!("i:{}", get_str(&args[0]).len())),
        | R::StrAppend => Want::Ret(format!("s:{}{}", get_str(&args[0]), get_str(&args[1]))),
        | R::StrSplitOnce => {
            let s: Vec<char> = get_str(&args[0]).chars().collect();
            let sep = get_char(&args[1]);
            match s.iter().position(|c| *c == sep) {
                | Some(i) => Want::Call(1, vec![format!("s:{}", s[..i].iter().collect::<String>()), format!("s:{}", s[i + 1..].iter().collect::<String>())]),
                | None => Want::Call(0, vec![]),
            }
        }
        | R::StrSplitAt => {
            let s: Vec<char> = get_str(&args[0]).chars().collect();
            let i = get_i64(&args[1]);
            if i >= 0 && (i as u128) <= s.len() as u128 {
                let i = i as usize;
                Want::Call(1, vec![format!("s:{}", s[..i].iter().collect::<String>()), format!("s:{}", s[i..].iter().collect::<String>())])
            } else {
                Want::Call(0, vec![])
            }
        }
        | R::StrGet => {
            let s: Vec<char> = get_str(&args[0]).chars().collect();
            let i = get_i64(&args[1]);
            if i >= 0 && (i as u128) < s.len() as u128 { Want::Call(1, vec![format!("c:{}", s[i as usize])]) } else { Want::Call(0, vec![]) }
        }
        | R::StrEq => Want::Call(if get_str(&args[0]) == get_str(&args[1]) { 0 } else { 1 }, vec![]),
        | R::CharToStr => Want::Ret(format!("s:{}", get_char(&args[0]))),
        | R::CharCodepoint => Want::Ret(format!("i:{}", get_char(&args[0]) as u32)),
        | R::CharFromCodepoint => {
            let i = get_i64(&args[0]);
            let valid = (0..=0x10FFFF).contains(&i) && !(0xD800..=0xDFFF).contains(&i);
            if valid { Want::Call(1, vec![format!("c:{}", char::from_u32(i as u32).unwrap())]) } else { Want::Call(0, vec![]) }
        }
        | R::StrParseInt => {
            // optional sign, one or more ASCII digits, value within Int64
            let s = get_str(&args[0]);
            let (neg, digits) = match s.strip_prefix('-') {
                | Some(d) => (true, d.to_string()),
                | None => (false, s.strip_prefix('+').unwrap_or(&s).to_string()),
            };
            if digits.is_empty() || !digits.chars().all(|c| c.is_ascii_digit()) {
                return Want::Call(0, vec![]);
            }
            let mut v: i128 = 0;
            for c in digits.chars() {
                v = v * 10 + (c as u8 - b'0') as i128;
                if v > (1i128 << 70) {
                    break;
                }
            }
            let v = if neg { -v } else { v };
            if v >= i64::MIN as i128 && v <= i64::MAX as i128 { Want::Call(1, vec![format!("i:{}", v)]) } else { Want::Call(0, vec![]) }
        }
        | R::BytesEmpty => Want::Ret("b:[]".into()),
        | R::BytesLength => Want::Ret(format!("i:{}", get_bytes(&args[0]).len())),
        | R::BytesAppend => {
            let mut a = get_bytes(&args[0]);
            a.extend(get_bytes(&args[1]));
            Want::Ret(format!("b:{:02x?}", a))
        }
        | R::BytesFromStr => Want::Ret(format!("b:{:02x?}", get_str(&args[0]).as_bytes())),
        | R::BytesToStr => match String::from_utf8(get_bytes(&args[0])) {
            | Ok(s) => Want::Call(1, vec![format!("s:{}", s)]),
            | Err(_) => Want::Call(0, vec![]),
        },
        | _ => Want::Unspecified,
    }
}

pub struct Shapes {
    roles: Vec<BuiltinValueRole>,
    rich: bool,
    scratch: Option<Scratch>,
}
impl Shapes {
    pub fn new(tier: Tier) -> Self {
        Shapes { roles: BuiltinValueRole::all().collect(), rich: tier == Tier::Thorough, scratch: None }
    }
}
impl Check for Shapes {
    fn property(&self) -> &'static str {
        "C06"
    }
    fn name(&self) -> String {
        "c06-shapes".into()
    }
    fn len(&self) -> usize {
        self.roles.len()
    }
    fn describe(&self, i: usize) -> String {
        let r = self.roles[i];
        format!("role {} at classifier {}: the full cross product of per-atom boundary domains, continuations = marker thunks", r.source_name(), BuiltinOperationAbi::for_role(r).into_classifier())
    }
    fn rule(&self) -> String {
        "every host role driven through Computation::Prim on a live Runtime with the full cross product of per-atom boundary domains read off its declared classifier: strings = all strings of length <= 3 (two-string roles: 2; thorough: 4 and 3) over {a, é, €, 🙂, U+0301, newline, comma} + numeric-text probes + a 300-scalar string; Int64 = {MIN, -1, 0..4, 299..301, 0x7F, surrogate and plane boundaries, 0x110000, MAX}; other integers and floats = boundaries; chars incl. NUL, combining mark, 4-byte scalar; bytes = all byte strings of length <= 2 over {00,61,C3,A9,FF} + truncated, overlong, surrogate and out-of-range encodings; reader/writer = the standard handles; continuations = marker thunks; generic oracle: the operation consumes exactly its declared arguments and either returns a value of the declared result atom or forces exactly one of the supplied continuations with arguments of that continuation's declared atoms — never unwinds (except the integer division trap); per-role oracle for the 16 text/bytes/char roles: a reference implementation over Vec<char>; non-trivial = every role".into()
    }
    fn run(&mut self, i: usize) -> CaseResult {
        let role = self.roles[i];
        let sig = sig_of(role);
        let mut r = CaseResult::ok("role").nontrivial(true).key(hash64(&role.source_name()));
        // argument lists: cross product of atom domains; continuation k gets marker k
        let mut lists: Vec<Vec<SemValue>> = vec![vec![]];
        let mut kont_params: Vec<(usize, Vec<Option<Atom>>)> = vec![];
        for (pi, p) in sig.params.iter().enumerate() {
            match p {
                | Param::Atom(a) => {
                    let two = sig.params.iter().filter(|q| matches!(q, Param::Atom(Atom::String))).count() >= 2;
                    let dom = atom_domain(*a, match (self.rich, two) {
                        | (false, false) => 3,
                        | (false, true) => 2,
                        | (true, false) => 4,
                        | (true, true) => 3,
                    });
                    let mut next = Vec::with_capacity(lists.len() * dom.len());
                    for l in &lists {
                        for d in &dom {
                            let mut m = l.clone();
                            m.push(d.clone());
                            next.push(m);
                        }
                    }
                    lists = next;
                }
                | Param::Kont(kps, _) => {
                    let k = kont_params.len();
                    kont_params.push((pi, kps.clone()));
                    for l in lists.iter_mut() {
                        l.push(marker(k as i64));
                    }
                }
            }
        }
        let mut calls = 0u64;
        // path arguments of the file-system roles are taken relative to a scratch directory
        let is_fs = role.host_name().contains("fs_") || matches!(role, BuiltinValueRole::FsOpenReader | BuiltinValueRole::FsCreateWriter | BuiltinValueRole::FsAppendWriter);
        if is_fs {
            let scratch = self.scratch.get_or_insert_with(|| Scratch::new("c06shapes"));
            scratch.clear();
            let base = scratch.path("");
            for l in lists.iter_mut() {
                if let SemValue::Literal(Literal::String(p)) = &l[0] {
                    l[0] = lit_str(&format!("{}/{}", base.display().to_string().trim_end_matches('/'), p.as_str()));
                }
            }
        }
        for args in lists {
            calls += 1;
            let stdin = b"line one\n42\nrest";
            let argv = vec!["a1".to_string(), "a2".to_string()];
            let out = call_prim(role, args.clone(), 1, stdin, &argv);
            let shown: Vec<String> = args.iter().map(show).collect();
            let shape = match out.shape {
                | Err(p) => {
                    let is_div = matches!(role, BuiltinValueRole::Integer(_, IntegerOperation::Div | IntegerOperation::Mod)) && (p.msg.contains("divide by zero") || p.msg.contains("divisor of zero"));
                    if !is_div {
                        r = r.violation(format!("host operation {} unwinds: {}", role.source_name(), crate::front::short_msg(&p.msg)), format!("{:?}\narguments {:?}", p, shown));
                    }
                    continue;
                }
                | Ok(s) => s,
            };
            if out.stack_left != 1 {
                r = r.violation(format!("host operation {} does not consume exactly its declared arguments", role.source_name()), format!("{} sentinel(s) left of 1; arguments {:?}", out.stack_left, shown));
            }
            // generic shape conformance
            let rendered = match &shape {
                | Shape::Ret(v) => match &sig.res {
                    | Res::Ret(a) if has_atom(v, *a) => Want::Ret(show(v)),
                    | other => {
                        r = r.violation(format!("host operation {} returns a value of the wrong shape", role.source_name()), format!("declared result {:?}, got ret {}; arguments {:?}", other, show(v), shown));
                        continue;
                    }
                },
                | Shape::Call(k, cargs) => {
                    let Some((_, kps)) = kont_params.get(*k as usize) else {
                        r = r.violation(format!("host operation {} forces something that is not one of its continuations", role.source_name()), format!("{:?}; arguments {:?}", shape, shown));
                        continue;
                    };
                    if matches!(sig.res, Res::Ret(_)) {
                        r = r.violation(format!("host operation {} selects a continuation although it is declared to return", role.source_name()), format!("{:?}", shape));
                        continue;
                    }
                    let ok = cargs.len() == kps.len() && cargs.iter().zip(kps).all(|(v, a)| match a {
                        | Some(a) => has_atom(v, *a),
                        | None => matches!(v, SemValue::Thunk(_)),
                    });
                    if !ok {
                        r = r.violation(format!("host operation {} calls a continuation with arguments of the wrong shape", role.source_name()), format!("continuation #{} declared {:?}, got {:?}; arguments {:?}", k, kps, cargs.iter().map(show).collect::<Vec<_>>(), shown));
                        continue;
                    }
                    Want::Call(*k as usize, cargs.iter().map(show).collect())
                }
                | Shape::Exit(_) => {
                    if role != BuiltinValueRole::Exit {
                        r = r.violation(format!("host operation {} terminates the process", role.source_name()), format!("{:?}", shape));
                    }
                    continue;
                }
                | Shape::Other(o) => {
                    r = r.violation(format!("host operation {} continues with a computation of an undeclared shape", role.source_name()), format!("{o}; arguments {:?}", shown));
                    continue;
                }
            };
            // per-role reference
            let want = reference(role, &args);
            if want != Want::Unspecified && want != rendered {
                r = r.violation(format!("host operation {} computes a wrong result", role.source_name()), format!("arguments {:?}: expected {:?}, got {:?}", shown, want, rendered));
            }
        }
        r.count("calls", calls)
    }
}

/* --------------------------------- I/O state machine -------------------------------- */

#[derive(Clone, Copy, Debug, PartialEq, Eq)]
pub enum IoOp {
    OpenExisting,
    OpenMissing,
    CreateNew,
    AppendNew,
    /// operations on a reader slot: 0 = stdin, 1/2 = first/second opened reader
    Read(usize),
    ReadLine(usize),
    ReadAll(usize),
    CloseReader(usize),
    /// operations on a writer slot: 0 = stdout, 1/2 = first/second opened writer
    Write(usize),
    Flush(usize),
    CloseWriter(usize),
}

pub fn io_alphabet() -> Vec<IoOp> {
    let mut v = vec![IoOp::OpenExisting, IoOp::OpenMissing, IoOp::CreateNew, IoOp::AppendNew];
    for s in 0..3 {
        v.extend([IoOp::Read(s), IoOp::ReadLine(s), IoOp::ReadAll(s), IoOp::CloseReader(s), IoOp::Write(s), IoOp::Flush(s), IoOp::CloseWriter(s)]);
    }
    v
}

#[derive(Clone, Debug)]
enum RSlot {
    Open { content: Vec<u8>, pos: usize },
    Closed,
}
#[derive(Clone, Debug)]
enum WSlot {
    Open,
    Closed,
}

const KIND_NOT_FOUND: i64 = 0;
const KIND_CLOSED: i64 = 6;

pub struct IoMachine {
    prefixes: Vec<Vec<IoOp>>,
    ops: Vec<IoOp>,
    scratch: Option<Scratch>,
    depth: usize,
}
impl IoMachine {
    pub fn new(tier: Tier) -> Self {
        let ops = io_alphabet();
        let depth = if tier == Tier::Thorough { 5 } else { 4 };
        let mut prefixes: Vec<Vec<IoOp>> = vec![vec![]];
        let mut frontier: Vec<Vec<IoOp>> = vec![vec![]];
        for _ in 1..depth {
            let mut next = vec![];
            for p in &frontier {
                for o in &ops {
                    let mut q = p.clone();
                    q.push(*o);
                    next.push(q);
                }
            }
            prefixes.extend(next.iter().cloned());
            frontier = next;
        }
        IoMachine { prefixes, ops, scratch: None, depth }
    }

    /// run one sequence on a live runtime and on the model; returns (transitions, problem)
    fn run_sequence(scratch: &Scratch, seq: &[IoOp]) -> (u64, Option<(String, String)>) {
        scratch.clear();
        let existing = scratch.write("exist.txt", "hi\r\nyo\r");
        let missing = scratch.path("missing.txt");
        let new = scratch.path("new.txt");
        let stdin_content = b"a\r\r\nb\r".to_vec();
        let mut input = std::io::Cursor::new(stdin_content.clone());
        let mut output: Vec<u8> = vec![];
        let argv: Vec<String> = vec![];
        let mut transitions = 0u64;
        let problem = {
            let mut sess = PrimSession::new(&mut input, &mut output, &argv);
            // model
            let mut readers: Vec<(Option<SemValue>, RSlot)> = vec![(Some(SemValue::Host(HostValue::Reader(ReaderHandle::STDIN))), RSlot::Open { content: stdin_content.clone(), pos: 0 })];
            let mut writers: Vec<(Option<SemValue>, WSlot)> = vec![(Some(SemValue::Host(HostValue::Writer(WriterHandle::STDOUT))), WSlot::Open)];
            let mut new_file: Option<Vec<u8>> = None;
            let mut stdout_model: Vec<u8> = vec![];
            let err_k = marker(0);
            let ok_k = marker(1);
            let eof_k = marker(2);
            let mut problem = None;
            'seq: for (step, op) in seq.iter().enumerate() {
                let fail = |what: &str, detail: String| Some((what.to_string(), format!("step {} {:?}: {}", step + 1, op, detail)));
                // expectations: Ok(args) on the success continuation, Err(kind) on the error continuation
                let mut call = |role: BuiltinValueRole, args: Vec<SemValue>| -> Result<Shape, String> {
                    transitions += 1;
                    let (shape, exact) = sess.call(role, args);
                    match shape {
                        | Err(p) => Err(format!("operation unwinds: {} at {}", p.msg, p.loc)),
                        | Ok(s) => {
                            if !exact {
                                return Err("operation did not consume exactly its arguments".into());
                            }
                            Ok(s)
                        }
                    }
                };
                use BuiltinValueRole as R;
                match *op {
                    | IoOp::OpenExisting | IoOp::OpenMissing => {
                        let path = if *op == IoOp::OpenExisting { &existing } else { &missing };
                        match call(R::FsOpenReader, vec![lit_str(&path.display().to_string()), err_k.clone(), ok_k.clone()]) {
                            | Err(e) => {
                                problem = fail("I/O operation unwinds or leaves arguments", e);
                                break 'seq;
                            }
                            | Ok(Shape::Call(1, a)) if *op == IoOp::OpenExisting && a.len() == 1 => {
                                readers.push((Some(a[0].clone()), RSlot::Open { content: b"hi\r\nyo\r".to_vec(), pos: 0 }));
                            }
                            | Ok(Shape::Call(0, a)) if *op == IoOp::OpenMissing && a.len() == 2 && show(&a[0]) == format!("i:{KIND_NOT_FOUND}") => {}
                            | Ok(other) => {
                                problem = fail("open_reader reports the wrong outcome", format!("{:?}", other));
                                break 'seq;
                            }
                        }
                    }
                    | IoOp::CreateNew | IoOp::AppendNew => {
                        let role = if *op == IoOp::CreateNew { R::FsCreateWriter } else { R::FsAppendWriter };
                        match call(role, vec![lit_str(&new.display().to_string()), err_k.clone(), ok_k.clone()]) {
                            | Err(e) => {
                                problem = fail("I/O operation unwinds or leaves arguments", e);
                                break 'seq;
                            }
                            | Ok(Shape::Call(1, a)) if a.len() == 1 => {
                                writers.push((Some(a[0].clone()), WSlot::Open));
                                if *op == IoOp::CreateNew || new_file.is_none() {
                                    if *op == IoOp::CreateNew {
                                        new_file = Some(vec![]);
                                    } else {
                                        new_file = Some(new_file.clone().unwrap_or_default());
                                    }
                                }
                            }
                            | Ok(other) => {
                                problem = fail("create/append_writer reports the wrong outcome", format!("{:?}", other));
                                break 'seq;
                            }
                        }
                    }
                    | IoOp::Read(s) | IoOp::ReadLine(s) | IoOp::ReadAll(s) | IoOp::CloseReader(s) => {
                        let Some((Some(h), slot)) = readers.get(s).cloned() else { continue };
                        let (role, args) = match *op {
                            | IoOp::Read(_) => (R::IoRead, vec![h.clone(), lit_i64(3), err_k.clone(), ok_k.clone()]),
                            | IoOp::ReadLine(_) => (R::IoReadLine, vec![h.clone(), err_k.clone(), eof_k.clone(), ok_k.clone()]),
                            | IoOp::ReadAll(_) => (R::IoReadAll, vec![h.clone(), err_k.clone(), ok_k.clone()]),
                            | _ => (R::IoCloseReader, vec![h.clone(), err_k.clone(), ok_k.clone()]),
                        };
                        let got = match call(role, args) {
                            | Err(e) => {
                                problem = fail("I/O operation unwinds or leaves arguments", e);
                                break 'seq;
                            }
                            | Ok(g) => g,
                        };
                        let is_std = s == 0;
                        match slot {
                            | RSlot::Closed => {
                                // a closed handle stays closed: every operation reports Closed on the error continuation
                                match &got {
                                    | Shape::Call(0, a) if a.len() == 2 && show(&a[0]) == format!("i:{KIND_CLOSED}") => {}
                                    | other => {
                                        problem = fail("an operation on a closed reader does not report Closed through the error continuation", format!("{:?}", other));
                                        break 'seq;
                                    }
                                }
                            }
                            | RSlot::Open { content, pos } => {
                                let want: (i64, String, usize) = match *op {
                                    | IoOp::Read(_) => {
                                        let end = (pos + 3).min(content.len());
                                        (1, format!("b:{:02x?}", &content[pos..end]), end)
                                    }
                                    | IoOp::ReadLine(_) => {
                                        if pos >= content.len() {
                                            (2, String::new(), pos)
                                        } else {
                                            let rest = &content[pos..];
                                            let nl = rest.iter().position(|b| *b == b'\n');
                                            // the line operation removes `\n` and an immediately preceding `\r`; a
                                            // final unterminated line is returned as it is (docs/proposals/filesystem.md)
                                            let (line, adv) = match nl {
                                                | Some(i) => (rest[..i].strip_suffix(b"\r").unwrap_or(&rest[..i]), i + 1),
                                                | None => (rest, rest.len()),
                                            };
                                            (1, format!("b:{:02x?}", line), pos + adv)
                                        }
                                    }
                                    | IoOp::ReadAll(_) => (1, format!("b:{:02x?}", &content[pos..]), content.len()),
                                    | _ => (1, String::new(), pos),
                                };
                                let ok = match (&got, want.0) {
                                    | (Shape::Call(1, a), 1) if matches!(op, IoOp::CloseReader(_)) => a.is_empty(),
                                    | (Shape::Call(1, a), 1) => a.len() == 1 && show(&a[0]) == want.1,
                                    | (Shape::Call(2, a), 2) => a.is_empty(),
                                    | _ => false,
                                };
                                if !ok {
                                    problem = fail("a read/close on an open reader gives the wrong result", format!("expected continuation {} with {:?}, got {:?}", want.0, want.1, got));
                                    break 'seq;
                                }
                                readers[s].1 = if matches!(op, IoOp::CloseReader(_)) && !is_std { RSlot::Closed } else { RSlot::Open { content, pos: want.2 } };
                            }
                        }
                    }
                    | IoOp::Write(s) | IoOp::Flush(s) | IoOp::CloseWriter(s) => {
                        let Some((Some(h), slot)) = writers.get(s).cloned() else { continue };
                        let payload = format!("w{}", step);
                        let (role, args) = match *op {
                            | IoOp::Write(_) => (R::IoWriteAll, vec![h.clone(), SemValue::Host(HostValue::Bytes(Rc::from(payload.as_bytes().to_vec()))), err_k.clone(), ok_k.clone()]),
                            | IoOp::Flush(_) => (R::IoFlush, vec![h.clone(), err_k.clone(), ok_k.clone()]),
                            | _ => (R::IoCloseWriter, vec![h.clone(), err_k.clone(), ok_k.clone()]),
                        };
                        let got = match call(role, args) {
                            | Err(e) => {
                                problem = fail("I/O operation unwinds or leaves arguments", e);
                                break 'seq;
                            }
                            | Ok(g) => g,
                        };
                        match slot {
                            | WSlot::Closed => match &got {
                                | Shape::Call(0, a) if a.len() == 2 && show(&a[0]) == format!("i:{KIND_CLOSED}") => {}
                                | other => {
                                    problem = fail("an operation on a closed writer does not report Closed through the error continuation", format!("{:?}", other));
                                    break 'seq;
                                }
                            },
                            | WSlot::Open => {
                                if !matches!(&got, Shape::Call(1, a) if a.is_empty()) {
                                    problem = fail("a write/flush/close on an open writer does not succeed", format!("{:?}", got));
                                    break 'seq;
                                }
                                if matches!(op, IoOp::Write(_)) {
                                    if s == 0 {
                                        stdout_model.extend(payload.as_bytes());
                                    } else if let Some(f) = new_file.as_mut() {
                                        f.extend(payload.as_bytes());
                                    }
                                }
                                if matches!(op, IoOp::CloseWriter(_)) && s != 0 {
                                    writers[s].1 = WSlot::Closed;
                                }
                            }
                        }
                    }
                }
            }
            if problem.is_none() {
                // final file contents equal the model's
                if let Some(want) = &new_file {
                    let got = std::fs::read(&new).unwrap_or_default();
                    // two writers on one file interleave by offset: only compare when at most one writer was opened
                    if writers.len() <= 2 && got != *want {
                        problem = Some(("file contents differ from the model after the sequence".to_string(), format!("expected {:?}, file has {:?}", String::from_utf8_lossy(want), String::from_utf8_lossy(&got))));
                    }
                }
                drop(sess);
                if problem.is_none() && output != stdout_model {
                    problem = Some(("bytes written to standard output differ from the model".to_string(), format!("expected {:?}, got {:?}", String::from_utf8_lossy(&stdout_model), String::from_utf8_lossy(&output))));
                }
            }
            problem
        };
        (transitions, problem)
    }
}
impl Check for IoMachine {
    fn property(&self) -> &'static str {
        "C06"
    }
    fn name(&self) -> String {
        "c06-io-machine".into()
    }
    fn len(&self) -> usize {
        self.prefixes.len()
    }
    fn level(&self) -> &'static str {
        "model_checking"
    }
    fn describe(&self, i: usize) -> String {
        format!("I/O operation prefix {:?} followed by each of {} operations, on one live runtime; scratch files: exist.txt = \"hi\\r\\nyo\\r\" (a CR LF line, then an unterminated line ending in CR), missing.txt absent, new.txt created on demand; stdin = \"a\\r\\r\\nb\\r\"", self.prefixes[i], self.ops.len())
    }
    fn rule(&self) -> String {
        format!("every sequence of <= {} I/O operations over the alphabet {{open_reader(existing | missing), create_writer, append_writer, and for the reader slots stdin / first / second opened reader: read 3 bytes, read_line, read_all, close_reader; for the writer slots stdout / first / second opened writer: write_all, flush, close_writer}} ({} operations) executed on ONE live Runtime (handles persist) against a reference model (handle -> open with position / closed, file contents); invariants on every transition: exactly the declared arguments are consumed; failures arrive on the error continuation with the predicted HostIoErrorKind (NotFound for a missing path, Closed for a closed handle); a closed handle never becomes usable again and closing it twice is an error; the standard handles never close; reads return exactly the model's bytes; at the end file contents and standard output equal the model's; states = sequences, transitions = operations executed on the implementation", self.depth, self.ops.len())
    }
    fn run(&mut self, i: usize) -> CaseResult {
        let scratch = self.scratch.get_or_insert_with(|| Scratch::new("c06io"));
        let prefix = self.prefixes[i].clone();
        let mut r = CaseResult::ok("prefix").nontrivial(!prefix.is_empty()).key(hash64(&format!("{:?}", prefix)));
        for op in self.ops.clone() {
            let mut seq = prefix.clone();
            seq.push(op);
            let (t, problem) = IoMachine::run_sequence(scratch, &seq);
            r = r.count("states", 1).count("transitions", t).count("traces", 1);
            if let Some((fp, detail)) = problem {
                r = r.violation(fp, format!("sequence {:?}\n{}", seq, detail));
            }
        }
        r
    }
}

pub fn checks(tier: Tier) -> Vec<Box<dyn Check>> {
    vec![Box::new(Tables), Box::new(Shapes::new(tier)), Box::new(IoMachine::new(tier)), Box::new(crate::c06sig::Signatures::new(tier)), Box::new(crate::c06call::Callers::new())]
}
