//! C03 negative side (definite-error mutants must be rejected with a type diagnostic) and C01(b)
//! (whatever the checker accepts among the mutants must still not go wrong).
use crate::common::*;
use crate::print::Cfg;
use crate::subject::*;
use crate::tyck::{Tc, mutants};
use crate::uni::*;

pub struct Mutants {
    for_c01: bool,
    progs: Vec<Prog>,
    chunk: usize,
    scratch: Option<Scratch>,
}

impl Mutants {
    pub fn new(for_c01: bool, tier: Tier) -> Self {
        let stride = if tier == Tier::Thorough { 2 } else { 20 };
        // schema instances are large (many sites): thin them further
        let progs: Vec<Prog> = universe(tier)
            .into_iter()
            .enumerate()
            .filter(|(i, p)| if p.origin.starts_with("schema-") && p.origin != "schema-records" { i % (stride * 6) == 0 } else { i % stride == 0 })
            .map(|(_, p)| p)
            .collect();
        Mutants { for_c01, progs, chunk: 4, scratch: None }
    }
}

/// Hand-written definite-error programs in which a narrower data type meets a wider one in every
/// variance position (they would go wrong at run time if accepted).
pub fn variance_negatives() -> Vec<(String, Prog)> {
    use crate::lang::*;
    let mut out = vec![];
    let arms_for = |d: usize| -> Vec<(Pat, C)> { data_decls()[d].ctors.iter().enumerate().map(|(k, _)| (Pat::Ctor(d, k, Box::new(Pat::Unit)), C::Ret(V::Int(k as i64 + 1)))).collect() };
    for (small, big) in [(BOOL, BIG3)] {
        let only_big = data_decls()[big].ctors.len() - 1; // +U
        let fty = |d: usize| func(VT::Data(d), ret(VT::Int));
        // K5: a handler over the small type passed to a higher-order function that feeds it a big-only constructor
        let hof_ty = func(thk(fty(big)), ret(VT::Int));
        let hof = V::Thunk(Box::new(C::Fn(Pat::Var(1, thk(fty(big))), Box::new(C::App(Box::new(C::Force(V::Var(1))), V::Ctor(big, only_big, Box::new(V::Unit)))))), hof_ty.clone());
        let h = V::Thunk(Box::new(C::Fn(Pat::Var(2, VT::Data(small)), Box::new(C::Match(V::Var(2), small, arms_for(small))))), fty(small));
        let body = C::Let(
            Pat::Var(0, thk(hof_ty.clone())),
            hof.clone(),
            thk(hof_ty.clone()),
            Box::new(C::Let(Pat::Var(1, thk(fty(small))), h.clone(), thk(fty(small)), Box::new(C::App(Box::new(C::Force(V::Var(0))), V::Var(1))))),
        );
        out.push(("contravariant: handler over a narrower data type passed where a handler over the wider type is expected".to_string(), Prog { origin: "variance".into(), root: ret(VT::Int), body, stdin: b"" }));
        // K1: a wide value flows into a narrow binder and is matched there
        let body = C::Let(
            Pat::Var(0, VT::Data(big)),
            V::Ctor(big, only_big, Box::new(V::Unit)),
            VT::Data(big),
            Box::new(C::Let(Pat::Var(1, VT::Data(small)), V::Var(0), VT::Data(small), Box::new(C::Match(V::Var(1), small, arms_for(small))))),
        );
        out.push(("covariant: a value of the wider data type bound at the narrower type".to_string(), Prog { origin: "variance".into(), root: ret(VT::Int), body, stdin: b"" }));
        // K3: a returner of the wide type used as a returner of the narrow type
        let rt = |d: usize| thk(ret(VT::Data(d)));
        let body = C::Let(
            Pat::Var(0, rt(big)),
            V::Thunk(Box::new(C::Ret(V::Ctor(big, only_big, Box::new(V::Unit)))), ret(VT::Data(big))),
            rt(big),
            Box::new(C::Let(Pat::Var(1, rt(small)), V::Var(0), rt(small), Box::new(C::Do(Pat::Var(2, VT::Data(small)), Box::new(C::Force(V::Var(1))), Box::new(C::Match(V::Var(2), small, arms_for(small))))))),
        );
        out.push(("covariant under Thk/Ret: a returner of the wider type used as a returner of the narrower type".to_string(), Prog { origin: "variance".into(), root: ret(VT::Int), body, stdin: b"" }));
        // K4: inside a product
        let pt = |d: usize| VT::Prod(vec![VT::Data(d), VT::Int]);
        let body = C::Let(
            Pat::Var(0, pt(big)),
            V::Tuple(vec![V::Ctor(big, only_big, Box::new(V::Unit)), V::Int(1)]),
            pt(big),
            Box::new(C::Let(
                Pat::Tuple(vec![Pat::Var(1, VT::Data(small)), Pat::Var(2, VT::Int)]),
                V::Var(0),
                pt(small),
                Box::new(C::Match(V::Var(1), small, arms_for(small))),
            )),
        );
        out.push(("covariant inside a product".to_string(), Prog { origin: "variance".into(), root: ret(VT::Int), body, stdin: b"" }));
        // K6: a function returning a handler: doubly nested arrows
        let gty = func(VT::Int, CT::Fn(Box::new(thk(fty(big))), Box::new(ret(VT::Int))));
        let g = V::Thunk(
            Box::new(C::Fn(Pat::Var(1, VT::Int), Box::new(C::Fn(Pat::Var(2, thk(fty(big))), Box::new(C::App(Box::new(C::Force(V::Var(2))), V::Ctor(big, only_big, Box::new(V::Unit)))))))),
            gty.clone(),
        );
        let body = C::Let(
            Pat::Var(0, thk(gty.clone())),
            g,
            thk(gty),
            Box::new(C::Let(Pat::Var(1, thk(fty(small))), h, thk(fty(small)), Box::new(C::App(Box::new(C::App(Box::new(C::Force(V::Var(0))), V::Int(1))), V::Var(1))))),
        );
        out.push(("contravariant below two arrows".to_string(), Prog { origin: "variance".into(), root: ret(VT::Int), body, stdin: b"" }));
    }
    out
}

impl Check for Mutants {
    fn property(&self) -> &'static str {
        if self.for_c01 { "C01" } else { "C03" }
    }
    fn name(&self) -> String {
        if self.for_c01 { "c01-mutants".into() } else { "c03-mutants".into() }
    }
    fn len(&self) -> usize {
        self.progs.len().div_ceil(self.chunk)
    }
    fn describe(&self, i: usize) -> String {
        let p = &self.progs[i * self.chunk];
        let ms = mutants(&p.body);
        format!(
            "all single-site mutants of programs #{}..#{} of the mutant slice; first program has {} mutants; its first mutant ({}):\n{}",
            i * self.chunk,
            (i + 1) * self.chunk,
            ms.len(),
            ms.first().map(|m| m.0.clone()).unwrap_or_default(),
            ms.first().map(|m| crate::print::program(&m.1, &p.root, &Cfg::default()).0).unwrap_or_default()
        )
    }
    fn rule(&self) -> String {
        let common = format!("a deterministic slice of the universe ({} programs) x every single-site mutation of a catalogue: each value position of ground type replaced by a canonical value of each other ground type (Unit, Int64, String, Bool, Big3, Opt); tuple component dropped/added; field renamed; unknown field projected; each let / parameter / thunk / fix annotation replaced by each near type (Int64<->String, Bool<->its strict superset Big3, Bool<->Opt, swapped/shortened/extended products, renamed/stripped labels, one arrow more or less, near types below Thk/->/Ret in co- and contravariant position); constructor of another data type; unknown destructor; force of a non-thunk; application of a returner. Every mutant is re-checked by the harness's reference type checker over the fully annotated AST (no inference involved)", self.progs.len());
        if self.for_c01 {
            format!("{common}; oracle (C01 b): every mutant that the real checker accepts — rightly or wrongly — is stepped on the interpreter and must not reach an undefined state; non-trivial = accepted mutants that ran >= 3 steps")
        } else {
            format!("{common}; oracle: a mutant the reference rejects (a rigid mismatch between concrete types) must be Rejected by the real checker with a type diagnostic — not accepted, not a panic, not a resolver/parse error; a mutant the reference accepts must be accepted; non-trivial = mutants with a definite error")
        }
    }
    fn timeout(&self) -> std::time::Duration {
        std::time::Duration::from_secs(300)
    }
    fn run(&mut self, i: usize) -> CaseResult {
        let scratch = self.scratch.get_or_insert_with(|| Scratch::new("c03m"));
        let a = i * self.chunk;
        let b = ((i + 1) * self.chunk).min(self.progs.len());
        let tc = Tc::new();
        let mut r = CaseResult::ok("chunk").key(hash64(&format!("mu{}", i)));
        let mut nontrivial = 0u64;
        if i == 0 {
            for (desc, mp) in variance_negatives() {
                let reference = tc.synth_c(&vec![], &mp.body);
                let text = crate::print::program(&mp.body, &mp.root, &Cfg::default()).0;
                if reference.is_ok() {
                    r = r.violation("HARNESS: reference checker accepts a hand-written negative program", format!("{desc}\n{text}"));
                    continue;
                }
                let path = scratch.write("main.zydeco", &text);
                r = r.count("mutants", 1).count("definite_errors", 1);
                match guarded(|| {
                    let s = Subject::analyze(&path);
                    let v = s.verdict();
                    let run = if v.accepted() { Some(s.run(b"", &[], SUBJECT_FUEL)) } else { None };
                    (v, run)
                }) {
                    | Err(p) => r = r.violation(format!("checker panicked on a negative program at {}", crate::front::short_loc(&p.loc)), format!("{:?}\n{}", p, text)),
                    | Ok((verdict, run)) => {
                        if self.for_c01 {
                            if let Some(run) = run {
                                if let RunEnd::Panic(p) = &run.end {
                                    if !defined_trap(p) {
                                        r = r.violation(format!("accepted ill-typed program goes wrong: {} at {} ({})", crate::front::short_msg(&p.msg), crate::front::short_loc(&p.loc), desc.split(':').next().unwrap_or("")), format!("{:?}\n{}\n{}", p, desc, text));
                                    }
                                }
                            }
                        } else if !matches!(verdict, Verdict::Rejected(_)) {
                            r = r.violation(format!("a definite type error is accepted ({})", desc.split(':').next().unwrap_or("")), format!("verdict {:?}\n{}\n{}", verdict, desc, text));
                        }
                    }
                }
            }
        }
        for prog in &self.progs[a..b] {
            // machinery self-check: the unmutated program is well typed in the reference system
            match tc.synth_c(&vec![], &prog.body) {
                | Ok(t) if tc.eq_c(&t, &prog.root) => {}
                | other => {
                    r = r.violation("HARNESS: reference checker rejects an unmutated universe program", format!("{:?}\n{}", other.map(|t| crate::print::ct(&t)), crate::print::program(&prog.body, &prog.root, &Cfg::default()).0));
                    continue;
                }
            }
            for (desc, m) in mutants(&prog.body) {
                let reference = tc.synth_c(&vec![], &m);
                let well_typed = matches!(&reference, Ok(t) if tc.eq_c(t, &prog.root));
                let mp = Prog { origin: prog.origin.clone(), root: prog.root.clone(), body: m, stdin: prog.stdin };
                let text = crate::print::program(&mp.body, &mp.root, &Cfg::default()).0;
                let path = scratch.write("main.zydeco", &text);
                r = r.count("mutants", 1);
                let res = guarded(|| {
                    let s = Subject::analyze(&path);
                    let v = s.verdict();
                    let run = if v.accepted() && self.for_c01 { Some(s.run(mp.stdin, &[], SUBJECT_FUEL)) } else { None };
                    (v, run)
                });
                let kind = desc.split(" changed to ").next().unwrap_or(&desc).split(" replaced by ").next().unwrap_or(&desc).to_string();
                let kind = kind.split(" of type ").next().unwrap_or(&kind).to_string();
                match res {
                    | Err(p) => {
                        r = r.violation(format!("checker panicked on a mutant at {}: {}", crate::front::short_loc(&p.loc), crate::front::short_msg(&p.msg)), format!("{:?}\nmutation: {}\n{}", p, desc, text));
                    }
                    | Ok((verdict, run)) => {
                        if self.for_c01 {
                            if let Some(run) = run {
                                if run.steps >= 3 {
                                    nontrivial += 1;
                                }
                                r = r.count("accepted_mutants_run", 1);
                                if let RunEnd::Panic(p) = &run.end {
                                    if !defined_trap(p) && !host_io_failure(p) {
                                        r = r.violation(
                                            format!("accepted mutant goes wrong: {} at {} (mutation: {})", crate::front::short_msg(&p.msg), crate::front::short_loc(&p.loc), kind),
                                            format!("{:?} after {} steps\nmutation: {}\nreference type checker: {:?}\n{}", p, run.steps, desc, reference.as_ref().map(crate::print::ct).map_err(|e| e.0.clone()), text),
                                        );
                                    }
                                }
                            }
                        } else if well_typed {
                            r = r.count("well_typed_mutants", 1);
                            // not judged: a well-typed mutant may still be rejected for coverage (e.g. a wider
                            // scrutinee type makes a match non-exhaustive); counted only
                            if !verdict.accepted() {
                                r = r.count("well_typed_mutants_rejected", 1);
                            }
                        } else {
                            nontrivial += 1;
                            r = r.count("definite_errors", 1);
                            match &verdict {
                                | Verdict::Rejected(_) => {}
                                | Verdict::Checked => {
                                    r = r.violation(
                                        format!("a definite type error is accepted (mutation: {kind})"),
                                        format!("mutation: {}\nreference: {}\n{}", desc, reference.as_ref().map(crate::print::ct).map_err(|e| e.0.clone()).unwrap_or_else(|e| e), text),
                                    );
                                }
                                | other => {
                                    r = r.violation(format!("a definite type error is reported as {} instead of a type diagnostic (mutation: {kind})", other.tag()), format!("{:?}\nmutation: {}\n{}", other, desc, text));
                                }
                            }
                        }
                    }
                }
            }
        }
        r.nontrivial = nontrivial > 0;
        r.count("nontrivial_mutants", nontrivial)
    }
}


/* ------------------------------------ term holes ------------------------------------ */

/// C01: "meeting an unsolved hole" is one of the undefined machine states. Programs with one `_`
/// in each term position, at a known type: whatever `check` accepts must not go wrong.
pub struct Holes {
    cases: Vec<(&'static str, String)>,
}
impl Holes {
    pub fn new() -> Self {
        let pre = "let Ret = @(intrinsic(ret)) in let Thk = @(intrinsic(thk)) in let Unit = @(intrinsic(unit)) in let Int64 = @(intrinsic(i64)) in let B = data | +T : Unit | +F : Unit end in ";
        let forms: Vec<(&'static str, &'static str)> = vec![
            ("let-bound value at an annotation", "let x : Int64 = _ in ret x"),
            ("let-bound value, unused", "let x : Int64 = _ in ret 1"),
            ("returned value", "let f : Thk (Ret Int64) = { ret _ } in ! f"),
            ("tuple component", "let p : Int64 * Int64 = (1, _) in let (a, b) = p in ret a"),
            ("tuple component, projected", "let p : Int64 * Int64 = (1, _) in let (a, b) = p in ret b"),
            ("constructor payload", "let b : B = +T(_) in match b | +T() => ret 1 | +F() => ret 2 end"),
            ("function argument", "let f : Thk (Int64 -> Ret Int64) = { fn x => ret x } in ! f _"),
            ("function argument, ignored", "let f : Thk (Int64 -> Ret Int64) = { fn x => ret 1 } in ! f _"),
            ("thunk value", "let f : Thk (Ret Int64) = _ in ! f"),
            ("scrutinee", "let b : B = _ in match b | +T() => ret 1 | +F() => ret 2 end"),
            ("computation bound by do", "do (x : Int64) <- _; ret x"),
            ("computation in a thunk body", "let f : Thk (Ret Int64) = { _ } in ! f"),
            ("computation in a thunk body, never forced", "let f : Thk (Ret Int64) = { _ } in ret 1"),
            ("function body", "let f : Thk (Int64 -> Ret Int64) = { fn x => _ } in ! f 1"),
            ("match arm", "let b : B = +T() in match b | +T() => _ | +F() => ret 2 end"),
            ("match arm not taken", "let b : B = +T() in match b | +T() => ret 1 | +F() => _ end"),
            ("continuation of do", "do (x : Int64) <- ret 1; _"),
            ("whole program at an ascription", "(_ : Ret Int64)"),
        ];
        Holes { cases: forms.into_iter().map(|(n, f)| (n, format!("{pre}{f}"))).collect() }
    }
}
impl Check for Holes {
    fn property(&self) -> &'static str {
        "C01"
    }
    fn name(&self) -> String {
        "c01-holes".into()
    }
    fn len(&self) -> usize {
        self.cases.len()
    }
    fn describe(&self, i: usize) -> String {
        format!("{}: {}", self.cases[i].0, self.cases[i].1)
    }
    fn rule(&self) -> String {
        format!("{} closed programs with one term hole `_` in each value and computation position (bound, returned, component, payload, argument, thunk, scrutinee, do-bound, thunk body, function body, match arm, continuation), each at a known type, in variants where the hole is and is not reached; oracle: if the session accepts the program, stepping it never unwinds (an unsolved hole is one of the undefined machine states of C01); non-trivial = accepted programs", self.cases.len())
    }
    fn run(&mut self, i: usize) -> CaseResult {
        let scratch = Scratch::new("c01holes");
        let (name, text) = &self.cases[i];
        let path = scratch.write("main.zydeco", text);
        let mut r = CaseResult::ok("form").key(i as u64);
        match guarded(|| {
            let s = Subject::analyze(&path);
            let v = s.verdict();
            let run = if v.accepted() { Some(s.run(b"", &[], 2000)) } else { None };
            (v, run)
        }) {
            | Err(_) => r = r.count("front_end_panics_counted_by_C10", 1),
            | Ok((v, None)) => r = r.count(&format!("rejected_{}", v.tag()), 1),
            | Ok((_, Some(run))) => {
                r = r.nontrivial(true).count("accepted", 1);
                if let RunEnd::Panic(p) = &run.end {
                    r = r.violation(format!("accepted program with a term hole goes wrong: {}", crate::front::short_msg(&p.msg)), format!("{name}: {:?}\n{}", run.end, text));
                }
            }
        }
        r
    }
}


/* ------------------------------ declaration well-formedness ------------------------------ */

/// Data and codata declarations over a small name pool, including repeated constructor /
/// destructor names: a declaration is well formed iff its names are pairwise distinct.
pub struct Declarations {
    for_c01: bool,
    cases: Vec<(bool, Vec<usize>, Vec<usize>)>,
}
impl Declarations {
    pub fn new(for_c01: bool) -> Self {
        let mut cases = vec![];
        for codata in [false, true] {
            for n in 1..=3usize {
                // names from a pool of 3, payload / result types from a pool of 2
                for names in 0..3usize.pow(n as u32) {
                    for tys in 0..2usize.pow(n as u32) {
                        let nv: Vec<usize> = (0..n).map(|i| names / 3usize.pow(i as u32) % 3).collect();
                        let tv: Vec<usize> = (0..n).map(|i| tys >> i & 1).collect();
                        cases.push((codata, nv, tv));
                    }
                }
            }
        }
        Declarations { for_c01, cases }
    }
    fn text(&self, i: usize) -> (String, bool) {
        let (codata, names, tys) = &self.cases[i];
        let pre = "let Ret = @(intrinsic(ret)) in let Thk = @(intrinsic(thk)) in let Unit = @(intrinsic(unit)) in let Int64 = @(intrinsic(i64)) in let B = data | +T : Unit | +F : Unit end in ";
        let pool = ["a", "b", "c"];
        let distinct = {
            let mut s = names.clone();
            s.sort();
            s.dedup();
            s.len() == names.len()
        };
        let body = if *codata {
            // result types: Ret Int64 / Ret B; the object answers every destructor, the program observes the first
            let arms: Vec<String> = names.iter().zip(tys).map(|(n, t)| format!("| .{} : Ret {}", pool[*n], if *t == 0 { "Int64" } else { "B" })).collect();
            let clauses: Vec<String> = names.iter().zip(tys).enumerate().map(|(k, (n, t))| format!("| .{} => ret {}", pool[*n], if *t == 0 { format!("{}", k + 1) } else { "(+T() : B)".to_string() })).collect();
            let observe = if tys[0] == 0 { format!("! o .{}", pool[names[0]]) } else { format!("do r <- ! o .{}; match r | +T() => ret 10 | +F() => ret 20 end", pool[names[0]]) };
            format!("let O = codata {} end in let o : Thk O = {{ comatch {} end }} in {}", arms.join(" "), clauses.join(" "), observe)
        } else {
            // payload types: Int64 / B; the program builds the LAST arm's constructor and matches with one arm per declared arm
            let up = ["A", "Bb", "C"];
            let arms: Vec<String> = names.iter().zip(tys).map(|(n, t)| format!("| +{} : {}", up[*n], if *t == 0 { "Int64" } else { "B" })).collect();
            let last = names.len() - 1;
            let value = format!("+{}({})", up[names[last]], if tys[last] == 0 { "5" } else { "(+F() : B)" });
            let mut seen = vec![];
            let mut marms = vec![];
            for (n, t) in names.iter().zip(tys) {
                if seen.contains(n) {
                    continue;
                }
                seen.push(*n);
                marms.push(format!("| +{}(s) => {}", up[*n], if *t == 0 { "ret s".to_string() } else { "(match s | +T() => ret 10 | +F() => ret 20 end)".to_string() }));
            }
            format!("let D = data {} end in let v : D = {} in match v {} end", arms.join(" "), value, marms.join(" "))
        };
        (format!("{pre}{body}"), distinct)
    }
}
impl Check for Declarations {
    fn property(&self) -> &'static str {
        if self.for_c01 { "C01" } else { "C03" }
    }
    fn name(&self) -> String {
        format!("{}-declarations", if self.for_c01 { "c01" } else { "c03" })
    }
    fn len(&self) -> usize {
        self.cases.len()
    }
    fn describe(&self, i: usize) -> String {
        self.text(i).0
    }
    fn rule(&self) -> String {
        format!("every data and every codata declaration with 1..3 arms whose names come from a pool of 3 (repetitions included) and whose payload / result types come from {{Int64, a two-constructor data type}} ({} declarations), used by a program that introduces a value of the last arm / observes the first destructor and eliminates it with one arm per declared name; oracle: {}; non-trivial = every declaration with a repeated name or >= 2 arms", self.cases.len(), if self.for_c01 { "whatever is accepted runs without going wrong" } else { "accepted iff the names are pairwise distinct" })
    }
    fn run(&mut self, i: usize) -> CaseResult {
        let scratch = Scratch::new("decls");
        let (text, distinct) = self.text(i);
        let path = scratch.write("main.zydeco", &text);
        let mut r = CaseResult::ok("declaration").key(i as u64).nontrivial(!distinct || self.cases[i].1.len() >= 2);
        match guarded(|| {
            let s = Subject::analyze(&path);
            let v = s.verdict();
            let run = if v.accepted() { Some(s.run(b"", &[], 2000)) } else { None };
            (v, run)
        }) {
            | Err(_) => r = r.count("front_end_panics_counted_by_C10", 1),
            | Ok((v, run)) => {
                if self.for_c01 {
                    if let Some(run) = run {
                        if let RunEnd::Panic(p) = &run.end {
                            r = r.violation(format!("accepted program over a declaration with {} goes wrong: {}", if distinct { "distinct names" } else { "a repeated name" }, crate::front::short_msg(&p.msg)), format!("{:?}\n{}", run.end, text));
                        }
                    }
                } else if v.accepted() != distinct {
                    r = r.violation(if distinct { "a well-formed declaration (or its use) is rejected".to_string() } else { format!("a {} declaration with a repeated name is accepted", if self.cases[i].0 { "codata" } else { "data" }) }, format!("{:?}\n{}", v, text));
                }
            }
        }
        r
    }
}
