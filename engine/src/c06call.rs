//! C06, end to end: every host role called from a source program through a Builtin signature
//! (checker's role registry -> package plan -> linker -> interpreter), at canonical argument
//! tuples, with the role under test first or last among the signature's components; the output
//! must be what the same call gives at the `Computation::Prim` level.
use crate::c06::{Param, Res, sig_of};
use crate::c06sig::{declared, show_vt};
use crate::common::*;
use crate::prim::*;
use crate::subject::*;
use std::rc::Rc;
use zydeco_dynamics::host::{HostValue, ReaderHandle, WriterHandle};
use zydeco_dynamics::syntax::SemValue;
use zydeco_statics::BuiltinValueAtom as Atom;
use zydeco_syntax::*;

const STDIN: &[u8] = b"line one\n42\nrest";

fn role_named(name: &str) -> BuiltinValueRole {
    BuiltinValueRole::from_source_name(name).unwrap_or_else(|| panic!("no role {name}"))
}

fn to_string_role(a: Atom) -> Option<BuiltinValueRole> {
    match a {
        | Atom::Integer(IntegerType::Int64) => None,
        | Atom::Integer(t) => Some(BuiltinValueRole::Integer(t, IntegerOperation::ToString)),
        | Atom::Float(t) => Some(BuiltinValueRole::Float(t, FloatOperation::ToString)),
        | _ => None,
    }
}

/// canonical argument of an atom: (source atom, semantic value, roles needed to build it, bindings to run first)
fn arg_for(a: Atom, variant: usize, slot: usize, path: Option<&str>) -> (String, SemValue, Vec<BuiltinValueRole>, Vec<String>) {
    match a {
        | Atom::Integer(t) => {
            let v: i128 = if variant == 0 { 3 } else { 100 };
            (format!("{v}"), SemValue::Literal(Literal::Integer(IntegerLiteral::new(v).with_type(t).unwrap())), vec![], vec![])
        }
        | Atom::Float(FloatType::Float32) => {
            let v: f32 = if variant == 0 { 1.5 } else { 0.5 };
            (format!("{v:?}"), SemValue::Literal(Literal::Float(FloatLiteral::Float32(v.to_bits()))), vec![], vec![])
        }
        | Atom::Float(FloatType::Float64) => {
            let v: f64 = if variant == 0 { 1.5 } else { 0.5 };
            (format!("{v:?}"), SemValue::Literal(Literal::Float(FloatLiteral::Float64(v.to_bits()))), vec![], vec![])
        }
        | Atom::Char => {
            let c = if variant == 0 { ',' } else { 'a' };
            (format!("'{c}'"), SemValue::Literal(Literal::Char(c)), vec![], vec![])
        }
        | Atom::String => {
            // the path argument of the file-system roles lives in the case's scratch directory
            let s = match path {
                | Some(p) => p.to_string(),
                | None => (if variant == 0 { "a,bé" } else { "12" }).to_string(),
            };
            (format!("{:?}", s), lit_str(&s), vec![], vec![])
        }
        | Atom::Bytes => {
            let s = if variant == 0 { "ab" } else { "" };
            let name = format!("bytes{slot}");
            (name.clone(), SemValue::Host(HostValue::Bytes(Rc::from(s.as_bytes().to_vec()))), vec![role_named("bytes_from_str")], vec![format!("do {name} <- ! (h/{}) {:?};", "NAME_bytes_from_str", s)])
        }
        | Atom::Reader => {
            let name = format!("reader{slot}");
            (name.clone(), SemValue::Host(HostValue::Reader(ReaderHandle::STDIN)), vec![role_named("stdin")], vec![format!("do {name} <- ! (h/NAME_stdin);")])
        }
        | Atom::Writer => {
            let name = format!("writer{slot}");
            (name.clone(), SemValue::Host(HostValue::Writer(WriterHandle::STDOUT)), vec![role_named("stdout")], vec![format!("do {name} <- ! (h/NAME_stdout);")])
        }
    }
}

/// source that shows a value of atom `a` held in variable `x`, then continues with `k`
fn show_src(a: Atom, x: &str, k: &str, needs: &mut Vec<BuiltinValueRole>) -> String {
    let sep = format!("! (h/NAME_write_str) \"|\" {{ ");
    match a {
        | Atom::Integer(IntegerType::Int64) => format!("{sep}! (h/NAME_write_int) {x} {{ {k} }} }}"),
        | Atom::Integer(_) | Atom::Float(_) => {
            let r = to_string_role(a).unwrap();
            needs.push(r);
            format!("{sep}do s_{x} <- ! (h/NAME_{}) {x}; ! (h/NAME_write_str) s_{x} {{ {k} }} }}", r.source_name())
        }
        | Atom::String => format!("{sep}! (h/NAME_write_str) {x} {{ {k} }} }}"),
        | Atom::Char => {
            needs.push(role_named("char_to_str"));
            format!("{sep}do s_{x} <- ! (h/NAME_char_to_str) {x}; ! (h/NAME_write_str) s_{x} {{ {k} }} }}")
        }
        | Atom::Bytes => {
            needs.push(role_named("bytes_to_str"));
            format!("{sep}! (h/NAME_bytes_to_str) OS {x} {{ ! (h/NAME_write_str) \"<invalid>\" {{ {k} }} }} {{ fn s_{x} => ! (h/NAME_write_str) s_{x} {{ {k} }} }} }}")
        }
        | Atom::Reader | Atom::Writer => format!("{sep}{k} }}"),
    }
}

/// what `show_src` prints for a semantic value
fn show_expected(v: &SemValue) -> String {
    let body = match v {
        | SemValue::Literal(Literal::Integer(IntegerLiteral::Int64(i))) => format!("{i}"),
        | SemValue::Literal(Literal::Integer(l)) => {
            let t = l.integer_type().unwrap();
            match call_prim(BuiltinValueRole::Integer(t, IntegerOperation::ToString), vec![v.clone()], 0, b"", &[]).shape {
                | Ok(Shape::Ret(SemValue::Literal(Literal::String(s)))) => s.as_str().to_string(),
                | other => format!("<to_string gave {:?}>", other),
            }
        }
        | SemValue::Literal(Literal::Float(l)) => match call_prim(BuiltinValueRole::Float(l.float_type(), FloatOperation::ToString), vec![v.clone()], 0, b"", &[]).shape {
            | Ok(Shape::Ret(SemValue::Literal(Literal::String(s)))) => s.as_str().to_string(),
            | other => format!("<to_string gave {:?}>", other),
        },
        | SemValue::Literal(Literal::String(s)) => s.as_str().to_string(),
        | SemValue::Literal(Literal::Char(c)) => c.to_string(),
        | SemValue::Host(HostValue::Bytes(b)) => String::from_utf8(b.to_vec()).unwrap_or_else(|_| "<invalid>".into()),
        | SemValue::Host(_) => String::new(),
        | other => format!("<{:?}>", other),
    };
    format!("|{body}")
}

const EXCLUDED: [&str; 3] = ["arg_list", "random_int", "read_till_eof"];

pub struct Callers {
    cases: Vec<(BuiltinValueRole, usize, bool)>,
}
impl Callers {
    pub fn new() -> Self {
        let mut cases = vec![];
        for r in BuiltinValueRole::all() {
            if EXCLUDED.contains(&r.source_name().as_ref()) {
                continue;
            }
            for variant in 0..2 {
                for last in [false, true] {
                    cases.push((r, variant, last));
                }
            }
        }
        Callers { cases }
    }

    /// (source program, expected stdout, expected exit code) or None if the role cannot be driven this way
    fn build(role: BuiltinValueRole, variant: usize, last: bool, dir: &std::path::Path) -> Option<(String, Vec<u8>, i32)> {
        // file-system roles: variant 0 = a path that does not exist, variant 1 = an existing file (created here)
        let is_fs = role.source_name().starts_with("fs_");
        let fs_path = if is_fs {
            let p = dir.join(if variant == 0 { "missing-dir/file.txt" } else { "present.txt" });
            if variant == 1 {
                let _ = std::fs::write(&p, "hello");
            }
            Some(p.display().to_string())
        } else {
            None
        };
        let sig = sig_of(role);
        let mut needs: Vec<BuiltinValueRole> = vec![role_named("exit"), role_named("write_int"), role_named("write_str")];
        let mut pre: Vec<String> = vec![];
        let mut arg_srcs: Vec<String> = vec![];
        let mut sem_args: Vec<SemValue> = vec![];
        let mut kont_index = 0i64;
        for (slot, p) in sig.params.iter().enumerate() {
            match p {
                | Param::Atom(a) => {
                    // vary the second string/int argument differently from the first
                    let (src, sem, n, b) = arg_for(*a, (variant + if slot > 0 { 1 } else { 0 }) % 2, slot, if slot == 0 { fs_path.as_deref() } else { None });
                    needs.extend(n);
                    pre.extend(b);
                    arg_srcs.push(src);
                    sem_args.push(sem);
                }
                | Param::Kont(kps, _) => {
                    let k = kont_index;
                    kont_index += 1;
                    let mut params = vec![];
                    let mut tail = "! (h/NAME_exit) 0".to_string();
                    for (j, kp) in kps.iter().enumerate().rev() {
                        let x = format!("k{k}p{j}");
                        params.push(x.clone());
                        tail = show_src((*kp)?, &x, &tail, &mut needs);
                    }
                    params.reverse();
                    let body = format!("! (h/NAME_write_int) {k} {{ {tail} }}");
                    let src = if params.is_empty() { format!("{{ {body} }}") } else { format!("{{ fn {} => {body} }}", params.join(" ")) };
                    arg_srcs.push(src);
                    sem_args.push(marker(k));
                }
            }
        }
        let call = format!("! (h/op){} {}", if sig.forall { " OS" } else { "" }, arg_srcs.join(" "));
        let body = match &sig.res {
            | Res::Ret(a) => {
                let shown = show_src(*a, "r", "! (h/NAME_exit) 0", &mut needs);
                format!("do r <- {call}; {shown}")
            }
            | _ => call,
        };
        // signature components: the role under test is `op`; helpers keep their role name unless they are the role under test
        needs.sort_by_key(|r| r.source_name().to_string());
        needs.dedup();
        needs.retain(|r| *r != role);
        let mut comps: Vec<(String, String, String)> = needs.iter().map(|r| (r.source_name().to_string(), format!("x_{}", r.source_name()), show_vt(&declared(*r)))).collect();
        let me = (role.source_name().to_string(), "op".to_string(), show_vt(&declared(role)));
        if last {
            comps.push(me);
        } else {
            comps.insert(0, me);
        }
        let name_of = |r: &str| -> String { if r == role.source_name().as_ref() as &str { "op".to_string() } else { format!("x_{r}") } };
        let mut text = format!("{}  param (\n    (Reader, Writer, OS, /h) :\n    exists @[builtin(reader)] (Reader : VType) @[builtin(writer)] (Writer : VType) @[builtin(os)] (OS : CType) .\n      (h ::\n", crate::c06sig::PRELUDE);
        for (label, name, ty) in &comps {
            text.push_str(&format!("          (@[builtin({label})] ({name} :: {ty})) *\n"));
        }
        text.push_str("          Unit)\n  ) that\n  ");
        let mut code = format!("{} {}", pre.join(" "), body);
        // resolve helper names
        let mut all_names: Vec<String> = BuiltinValueRole::all().map(|r| r.source_name().to_string()).collect();
        all_names.sort_by_key(|n| std::cmp::Reverse(n.len()));
        for n in all_names {
            code = code.replace(&format!("NAME_{n}"), &name_of(&n));
        }
        text.push_str(&code);
        text.push_str("\nend\n");

        // expectation from the Prim level
        let out = call_prim(role, sem_args, 0, STDIN, &[]);
        let mut expected = out.output.clone();
        let code = match out.shape {
            | Ok(Shape::Ret(v)) => {
                expected.extend(show_expected(&v).as_bytes());
                0
            }
            | Ok(Shape::Call(k, cargs)) => {
                expected.extend(format!("{k}").as_bytes());
                for a in &cargs {
                    expected.extend(show_expected(a).as_bytes());
                }
                0
            }
            | Ok(Shape::Exit(c)) => c,
            | _ => return None,
        };
        Some((text, expected, code))
    }
}

impl Check for Callers {
    fn property(&self) -> &'static str {
        "C06"
    }
    fn name(&self) -> String {
        "c06-callers".into()
    }
    fn len(&self) -> usize {
        self.cases.len()
    }
    fn level(&self) -> &'static str {
        "model_checking"
    }
    fn describe(&self, i: usize) -> String {
        let (r, v, last) = self.cases[i];
        match Self::build(r, v, last, std::path::Path::new("/dev/shm/zyv-describe")) {
            | Some((t, e, c)) => format!("role {} (argument variant {v}, {} in the signature); expected stdout {:?}, exit {c}; stdin {:?}\n{t}", r.source_name(), if last { "last" } else { "first" }, String::from_utf8_lossy(&e), String::from_utf8_lossy(STDIN)),
            | None => format!("role {}: not drivable", r.source_name()),
        }
    }
    fn rule(&self) -> String {
        format!("every host role except {:?} x 2 canonical argument tuples (literals of each atom; bytes / reader / writer arguments obtained through bytes_from_str / stdin / stdout) x the role under test first or last among the components of a minimal Builtin signature (the role + exit, write_int, write_str and the conversion roles its results need) — {} closed source programs; each continuation prints its index and its payloads, each returned value is printed; the program is analysed, planned, linked and run on the interpreter with a fixed stdin; oracle: stdout and exit status equal what the same role called at the Computation::Prim level with the same arguments produces (its own output, then the selected continuation / returned value rendered the same way); non-trivial = every program", EXCLUDED, self.cases.len())
    }
    fn run(&mut self, i: usize) -> CaseResult {
        let (role, variant, last) = self.cases[i];
        let mut r = CaseResult::ok("call").key(i as u64).nontrivial(true).count("states", 1).count("transitions", 1).count("traces", 1);
        let scratch = Scratch::new("c06call");
        let Some((text, expected, code)) = Self::build(role, variant, last, &scratch.dir) else {
            return CaseResult::ok("not-drivable");
        };
        let path = scratch.write("main.zydeco", &text);
        match guarded(|| {
            let s = Subject::analyze(&path);
            let v = s.verdict();
            let run = if v.accepted() { Some(s.run(STDIN, &[], 20_000)) } else { None };
            (v, run)
        }) {
            | Err(p) => r = r.violation(format!("a caller of host role {} breaks the pipeline: {}", role.source_name(), crate::front::short_msg(&p.msg)), format!("{:?}\n{}", p, text)),
            | Ok((v, None)) => r = r.violation(format!("a caller of host role {} at its declared type is rejected", role.source_name()), format!("{:?}\n{}", v, text)),
            | Ok((_, Some(run))) => {
                let ok = run.output == expected && matches!(run.end, RunEnd::Exit(c) if c == code);
                if !ok {
                    r = r.violation(format!("host role {} called through the package behaves differently from the primitive", role.source_name()), format!("got {:?} stdout {:?}; expected exit {code} stdout {:?}\n{}", run.end, String::from_utf8_lossy(&run.output), String::from_utf8_lossy(&expected), text));
                }
            }
        }
        r
    }
}
