mod subject;
fn main() {
    let args: Vec<String> = std::env::args().collect();
    match args.get(1).map(String::as_str) {
        | Some("probe") => {
            subject::install_quiet_panic_hook();
            let s = subject::Subject::analyze(std::path::Path::new(&args[2]));
            println!("verdict: {:?}", s.verdict());
            if s.verdict().accepted() {
                let r = s.run(b"", &[], 100000);
                println!("run: {:?}", r);
            }
        }
        | _ => eprintln!("usage"),
    }
}
