mod c02;
mod c03;
mod c03esc;
mod c04;
mod c05;
mod c06;
mod poly;
mod c06sig;
mod c06call;
mod c07;
mod schema;
mod uni;
mod c08;
mod c08lang;
mod c09;
mod c09splice;
mod seed;
mod c10;
mod c11;
mod c12;
mod c15;
mod c16;
mod c17lsp;
mod c18;
mod c18asm;
mod c20;
mod e2;
mod corpus;
mod front;
mod genr;
mod lang;
mod print;
mod reflex;
mod common;
mod prim;
mod subject;
mod tyck;

use common::*;

/// All sub-checks of a property for a tier.
fn checks_for(property: &str, tier: Tier) -> Vec<Box<dyn Check>> {
    match property {
        | "C01" => vec![Box::new(c02::Universe::new(c02::Mode::Safety, tier)), Box::new(c03::Mutants::new(true, tier)), Box::new(poly::PolyUniverse::new("C01", tier)), Box::new(c03::Holes::new()), Box::new(c03::Declarations::new(true)), Box::new(c03esc::Escapes::new("C01")), Box::new(c03esc::BinderPatterns::new("C01")), Box::new(c03esc::FixAnnotations::new("C01"))],
        | "C02" => vec![Box::new(c02::Universe::new(c02::Mode::Agreement, tier)), Box::new(poly::PolyUniverse::new("C02", tier))],
        | "C03" => vec![Box::new(c02::Universe::new(c02::Mode::Acceptance, tier)), Box::new(c03::Mutants::new(false, tier)), Box::new(poly::PolyUniverse::new("C03", tier)), Box::new(poly::PolyMatrix::new(tier)), Box::new(c03::Declarations::new(false)), Box::new(poly::KindMatrix::new(tier)), Box::new(c03esc::Escapes::new("C03")), Box::new(c03esc::BinderPatterns::new("C03")), Box::new(c03esc::FixAnnotations::new("C03")), Box::new(c03esc::OperatorNesting::new())],
        | "C04" => c04::checks(tier),
        | "C05" => c05::checks(),
        | "C06" => c06::checks(tier),
        | "C12" => vec![Box::new(c12::Fmt::new(c12::Mode::Meaning, tier))],
        | "C13" => vec![Box::new(c12::Fmt::new(c12::Mode::Text, tier))],
        | "C14" => vec![Box::new(c12::Fmt::new(c12::Mode::Idempotence, tier)), Box::new(c12::FmtCli::new(tier))],
        | "C15" => c15::checks(tier),
        | "C16" => c16::checks(tier),
        | "C18" => vec![Box::new(c18::Lowered::new(c18::Mode::Lowering, tier))],
        | "C19" => vec![Box::new(c18::Lowered::new(c18::Mode::Preservation, tier))],
        | "C07" => {
            let mut v = c07::checks(tier);
            v.push(Box::new(poly::PolyUniverse::new("C07", tier)));
            v
        }
        | "C08" => {
            let mut v = c08::checks(tier);
            v.push(Box::new(c08lang::Blocks::new(tier)));
            v.push(Box::new(c08lang::NestedSlots::new()));
            v
        }
        | "C09" => {
            let mut v = c09::checks(tier);
            v.extend(c09splice::checks(tier));
            v
        }
        | "C10" => c10::checks(tier),
        | "C11" => c11::checks(tier),
        | "C17" => vec![Box::new(c17lsp::LspProtocol::new(tier))],
        | "C20" => c20::checks(tier),
        | _ => vec![],
    }
}

fn level_for(property: &str) -> &'static str {
    match property {
        | "C06" | "C08" | "C09" | "C15" | "C17" => "model_checking",
        | "C19" => "translation_validation",
        | _ => "exploration",
    }
}

const ALL: [&str; 20] = [
    "C01", "C02", "C03", "C04", "C05", "C06", "C07", "C08", "C09", "C10", "C11", "C12", "C13", "C14", "C15", "C16", "C17", "C18",
    "C19", "C20",
];

fn find_check(name: &str, tier: Tier) -> Option<Box<dyn Check>> {
    for p in ALL {
        // check names start with the lower-cased property id
        if !name.starts_with(&p.to_lowercase()) {
            continue;
        }
        for c in checks_for(p, tier) {
            if c.name() == name {
                return Some(c);
            }
        }
    }
    None
}

fn main() {
    // run everything on a thread with a very large stack: subject values (and their drops) can nest deeply
    let h = std::thread::Builder::new().stack_size(4 << 30).spawn(real_main).expect("spawn main thread");
    match h.join() {
        | Ok(()) => {}
        | Err(_) => std::process::exit(101),
    }
}

fn real_main() {
    let args: Vec<String> = std::env::args().collect();
    subject::install_quiet_panic_hook();
    match args.get(1).map(String::as_str) {
        | Some("probe") => {
            let s = subject::Subject::analyze(std::path::Path::new(&args[2]));
            println!("verdict: {:?}", s.verdict());
            if s.verdict().accepted() {
                let r = s.run(b"", &[], 100000);
                println!("run: {:?}", r);
            }
        }
        | Some("roles") => {
            for r in zydeco_syntax::BuiltinValueRole::all() {
                println!("{} : {}", r.source_name(), zydeco_statics::BuiltinOperationAbi::for_role(r).into_classifier());
            }
        }
        | Some("fmtcount") => {
            for tier in [Tier::Quick, Tier::Thorough] {
                let t = std::time::Instant::now();
                let f = c12::Fmt::new(c12::Mode::Meaning, tier);
                let g = c12::Fmt::new(c12::Mode::Text, tier);
                println!("{:?}: meaning/idempotence cases {}, text cases {} ({:.1}s)", tier, Check::len(&f), Check::len(&g), t.elapsed().as_secs_f64());
            }
        }
        | Some("polyrun") => {
            let t = std::time::Instant::now();
            let mut c = poly::PolyUniverse::new("C03", Tier::Quick);
            eprintln!("constructed in {:.1}s", t.elapsed().as_secs_f64());
            let i: usize = args[2].parse().unwrap();
            let r = c.run(i);
            eprintln!("ran case {} in {:.1}s: {} violations, counters {:?}", i, t.elapsed().as_secs_f64(), r.violations.len(), r.counters);
            for v in r.violations.iter().take(3) {
                eprintln!("{}\n{}", v.fingerprint, v.detail);
            }
        }
        | Some("polygen") => {
            let tier = Tier::parse(args.get(2).map(|s| s.as_str()).unwrap_or("quick"));
            let t = std::time::Instant::now();
            let u = poly::universe(tier);
            println!("{} polymorphic programs ({:.1}s)", u.len(), t.elapsed().as_secs_f64());
            let t = std::time::Instant::now();
            let o = poly::universe_omega(tier);
            println!("of which {} F-omega programs ({:.1}s)", o.len(), t.elapsed().as_secs_f64());
            let t = std::time::Instant::now();
            let rc = poly::universe_rec(tier);
            println!("of which {} record programs ({:.1}s), reference rejects {}", rc.len(), t.elapsed().as_secs_f64(), rc.iter().filter(|p| poly::synth_c(&poly::Scope::default(), p).is_err()).count());
            for p in rc.iter().rev().step_by((rc.len() / 6).max(1)).take(6) {
                println!("{}", poly::program(p, false).lines().last().map(|_| poly::pc(p, false)).unwrap_or_default());
            }
            let vf = poly::universe_vfun(tier);
            println!("of which {} value-function programs ({:.1}s), reference rejects {}", vf.len(), t.elapsed().as_secs_f64(), vf.iter().filter(|p| poly::synth_c(&poly::Scope::default(), p).is_err()).count());
            for p in vf.iter().rev().step_by(vf.len().max(1) / 3 + 1).take(3) {
                println!("{}", poly::program(p, false));
            }
            let bad = o.iter().filter(|p| poly::synth_c(&poly::Scope::default(), p).is_err()).count();
            println!("reference checker rejects {} of them", bad);
            for p in o.iter().rev().step_by(o.len().max(1) / 4 + 1).take(4) {
                println!("{}", poly::program(p, false));
            }
            let muts: usize = u.iter().take(200).map(|p| poly::mutants(p).len()).sum();
            println!("mutants of the first 200: {}", muts);
            for n in 2..=7 {
                let t = std::time::Instant::now();
                println!("matrix types with {} nodes: {} ({:.1}s)", n, poly::count_types(n), t.elapsed().as_secs_f64());
                if t.elapsed().as_secs() > 5 {
                    break;
                }
            }
            for p in u.iter().rev().take(args.get(3).and_then(|s| s.parse().ok()).unwrap_or(3)) {
                println!("{}", poly::program(p, false));
            }
        }
        | Some("gen") => {
            let thorough = args.get(3).map(|s| s == "thorough").unwrap_or(false);
            for prof in genr::profiles(thorough) {
                if args.get(2).map(|p| p != prof.name && p != "all").unwrap_or(false) {
                    continue;
                }
                let g = genr::Gen::new(prof.menu.clone());
                for root in &prof.roots {
                    let t = std::time::Instant::now();
                    let progs = g.programs(root, prof.size);
                    println!("profile {} root {} size<={}: {} programs ({:.1}s)", prof.name, print::ct(root), prof.size, progs.len(), t.elapsed().as_secs_f64());
                    if args.get(4).is_some() {
                        for c in progs.iter().rev().take(3) {
                            println!("{}", print::program(c, root, &print::Cfg::default()).0);
                        }
                    }
                }
            }
        }
        | Some("dump") => {
            // dump universe programs a..b as files into a directory
            let tier = Tier::parse(&args[2]);
            let a: usize = args[3].parse().unwrap();
            let b: usize = args[4].parse().unwrap();
            let u = uni::universe(tier);
            std::fs::create_dir_all(&args[5]).unwrap();
            for i in a..b.min(u.len()) {
                let (text, _) = print::program(&u[i].body, &u[i].root, &print::Cfg::default());
                std::fs::write(format!("{}/p{}.zydeco", args[5], i), text).unwrap();
            }
        }
        | Some("uni") => {
            let tier = Tier::parse(args.get(2).map(String::as_str).unwrap_or("quick"));
            let u = uni::universe(tier);
            let mut m = std::collections::BTreeMap::new();
            for p in &u {
                *m.entry(p.origin.clone()).or_insert(0usize) += 1;
            }
            println!("{} programs: {:?}", u.len(), m);
        }
        | Some("worker") => {
            let tier = Tier::parse(&args[3]);
            let mut check = find_check(&args[2], tier).expect("unknown check");
            serve(check.as_mut());
        }
        | Some("check") => {
            let property = args[2].clone();
            let tier = Tier::parse(args.get(3).map(String::as_str).unwrap_or("quick"));
            let only = std::env::var("VERIF_ONLY").ok();
            if matches!(property.as_str(), "C11" | "C12" | "C13" | "C14") {
                if let Some(d) = c11::scanner_selfcheck() {
                    eprintln!("MACHINERY ERROR: reference scanner disagrees with the repository lexer on an unmodified source: {d}");
                    std::process::exit(4);
                }
            }
            let mut report = Report::new(&property, tier, level_for(&property));
            let checks = checks_for(&property, tier);
            if checks.is_empty() {
                eprintln!("no checks for {property}");
                std::process::exit(2);
            }
            for c in checks {
                if let Some(o) = &only {
                    if !c.name().contains(o.as_str()) {
                        continue;
                    }
                }
                report.run(c.as_ref());
            }
            std::process::exit(report.finish());
        }
        | Some("replay") => {
            let text = std::fs::read_to_string(&args[2]).expect("replay file");
            let v: serde_json::Value = serde_json::from_str(&text).expect("replay json");
            let tier = Tier::parse(v["tier"].as_str().unwrap_or("quick"));
            let mut check = find_check(v["check"].as_str().unwrap(), tier).expect("unknown check");
            let i = v["index"].as_u64().unwrap() as usize;
            println!("case {}: {}", i, check.describe(i));
            let r = check.run(i);
            println!("class: {}", r.class);
            println!("counters: {:?}", r.counters);
            for viol in &r.violations {
                println!("VIOLATION property={} fingerprint={}\n{}", check.property(), viol.fingerprint, viol.detail);
            }
            std::process::exit(if r.violations.is_empty() { 0 } else { 1 });
        }
        | _ => eprintln!("usage: zyv check <Cxx> [quick|thorough] | replay <file> | probe <file>"),
    }
}
