//! Existential-package scoping (C01 / C03): every way this harness knows to open a package
//! (positional, named-field, projection patterns with and without the witness selected), in every
//! binder construct (let, do, match arm, inline function parameter, thunk parameter), at every
//! nesting position inside a surrounding pattern (alone, first / middle / last tuple component, doubly
//! nested, under a named wrapper, under a data constructor), crossed with every channel through which
//! the hidden representation could leave its scope (the payload, the consumer, a pair of both, a thunk
//! around the payload, a function annotated with the bound witness) and one control that uses the
//! package inside its scope.
//!
//! The declarative rule: the body of an opening may not have a type that mentions the opened witness.
//! So every escape program is ill typed and must be rejected (C03); the pair channel is arranged so
//! that, if it is accepted, running it applies the consumer of a `Two` package to the payload of an
//! `Int64` package, which goes wrong (C01). The control is well typed and must be accepted and return
//! its known result.
use crate::common::*;
use crate::subject::*;

#[derive(Clone, Copy, Debug, PartialEq, Eq)]
enum Opening {
    /// `(/a = v; /b = f)`: projection pattern, witness anonymous
    ProjAnon,
    /// `(/X = W; /a = v; /b = f)`: projection pattern selecting the witness
    ProjWitness,
    /// `(/b = f; /a = v)`: projection pattern in the other order
    ProjSwapped,
    /// `(W, a = v, b = f)`: positional witness, named components
    NamedPositional,
    /// `(W, pv, pf)` on the named package: components keep their named wrappers (`pv/a`, `pf/b`)
    NamedWrapped,
    /// `(W, v, f)` on the positional package
    Positional,
}
const OPENINGS: [Opening; 6] = [Opening::ProjAnon, Opening::ProjWitness, Opening::ProjSwapped, Opening::NamedPositional, Opening::NamedWrapped, Opening::Positional];

#[derive(Clone, Copy, Debug, PartialEq, Eq)]
enum Nesting {
    Alone,
    Last,
    First,
    Middle,
    Twice,
    Named,
    Constructor,
}
const NESTINGS: [Nesting; 7] = [Nesting::Alone, Nesting::Last, Nesting::First, Nesting::Middle, Nesting::Twice, Nesting::Named, Nesting::Constructor];

#[derive(Clone, Copy, Debug, PartialEq, Eq)]
enum Binder {
    Let,
    Do,
    Match,
    InlineFn,
    Param,
    /// value-level `let .. in value` under `ret`, inside the function
    ValueLet,
    /// value-level `let` as the body of a pure value function
    ValueFn,
    /// value-level `let` bound directly by an un-annotated `let` (no function around it)
    DirectValueLet,
    /// computation-level `let` bound directly by an un-annotated `do`
    DirectLet,
}
const BINDERS: [Binder; 9] = [Binder::Let, Binder::Do, Binder::Match, Binder::InlineFn, Binder::Param, Binder::ValueLet, Binder::ValueFn, Binder::DirectValueLet, Binder::DirectLet];

#[derive(Clone, Copy, Debug, PartialEq, Eq)]
enum Channel {
    Control,
    Pair,
    Payload,
    Consumer,
    ThunkedPayload,
    AnnotatedWitness,
}
const CHANNELS: [Channel; 6] = [Channel::Control, Channel::Pair, Channel::Payload, Channel::Consumer, Channel::ThunkedPayload, Channel::AnnotatedWitness];

pub struct Escapes {
    prop: &'static str,
    cases: Vec<(Opening, Nesting, Binder, Channel)>,
}

impl Escapes {
    pub fn new(prop: &'static str) -> Self {
        let mut cases = vec![];
        for o in OPENINGS {
            for n in NESTINGS {
                for b in BINDERS {
                    // a constructor pattern is refutable syntax: only in a match arm
                    if n == Nesting::Constructor && b != Binder::Match {
                        continue;
                    }
                    // a function whose parameter pattern opens a package is a package-dependent
                    // function (its result type may mention the argument's witness, and applying it
                    // needs a manifest argument): the plain existential rule makes no claim there,
                    // so C03 leaves these binders out; C01 (accepted => runs fine) keeps them
                    if prop == "C03" && matches!(b, Binder::InlineFn | Binder::Param) {
                        continue;
                    }
                    for c in CHANNELS {
                        // the witness has no name under these openings
                        if c == Channel::AnnotatedWitness && matches!(o, Opening::ProjAnon | Opening::ProjSwapped) {
                            continue;
                        }
                        cases.push((o, n, b, c));
                    }
                }
            }
        }
        Escapes { prop, cases }
    }

    pub fn text(case: &(Opening, Nesting, Binder, Channel)) -> String {
        Self::text_and_expectation(case).0
    }
    /// (source, what the control returns)
    pub fn text_and_expectation(case: &(Opening, Nesting, Binder, Channel)) -> (String, &'static str) {
        let (o, n, b, c) = *case;
        let named = o != Opening::Positional;
        let boxty = if named { "exists (X : VType) . (a :: X) * (b :: Thk (X -> Ret Int64))" } else { "exists (X : VType) . X * Thk (X -> Ret Int64)" };
        let (ints, twos) = if named {
            ("(Int64, a = 41, b = { fn (n : Int64) => ret n })", "(Two, a = +A(), b = { fn (t : Two) => match t | +A() => ret 1 | +B() => ret 2 end })")
        } else {
            ("(Int64, 41, { fn (n : Int64) => ret n })", "(Two, +A(), { fn (t : Two) => match t | +A() => ret 1 | +B() => ret 2 end })")
        };
        let (pat, v, f) = match o {
            | Opening::ProjAnon => ("(/a = v; /b = f)", "v", "f"),
            | Opening::ProjWitness => ("(/X = W; /a = v; /b = f)", "v", "f"),
            | Opening::ProjSwapped => ("(/b = f; /a = v)", "v", "f"),
            | Opening::NamedPositional => ("(W, a = v, b = f)", "v", "f"),
            | Opening::NamedWrapped => ("(W, pv, pf)", "(pv/a)", "(pf/b)"),
            | Opening::Positional => ("(W, v, f)", "v", "f"),
        };
        // the surrounding pattern, the bindee built around `box`, and its type
        let (npat, nbindee, nty) = match n {
            | Nesting::Alone => (pat.to_string(), "box".to_string(), "Box".to_string()),
            | Nesting::Last => (format!("(n, {pat})"), "(1, box)".to_string(), "Int64 * Box".to_string()),
            | Nesting::First => (format!("({pat}, n)"), "(box, 1)".to_string(), "Box * Int64".to_string()),
            | Nesting::Middle => (format!("(n, {pat}, m)"), "(1, box, 2)".to_string(), "Int64 * Box * Int64".to_string()),
            | Nesting::Twice => (format!("(n, (m, {pat}))"), "(1, (2, box))".to_string(), "Int64 * (Int64 * Box)".to_string()),
            | Nesting::Named => (format!("(k = {pat})"), "(k = box)".to_string(), "(k :: Box)".to_string()),
            | Nesting::Constructor => (format!("+Wrap({pat})"), "(+Wrap(box) : Wr)".to_string(), "Wr".to_string()),
        };
        let value_level = matches!(b, Binder::ValueLet | Binder::ValueFn | Binder::DirectValueLet);
        let body = match c {
            | Channel::Control if value_level => "7".to_string(),
            | Channel::Control => format!("! {f} {v}"),
            | Channel::Pair if value_level => format!("({v}, {f})"),
            | Channel::Pair => format!("ret ({v}, {f})"),
            | Channel::Payload if value_level => v.to_string(),
            | Channel::Payload => format!("ret {v}"),
            | Channel::Consumer if value_level => f.to_string(),
            | Channel::Consumer => format!("ret {f}"),
            | Channel::ThunkedPayload if value_level => format!("{{ ret {v} }}"),
            | Channel::ThunkedPayload => format!("ret {{ ret {v} }}"),
            | Channel::AnnotatedWitness if value_level => "{ fn (x : W) => ret 1 }".to_string(),
            | Channel::AnnotatedWitness => "ret { fn (x : W) => ret 1 }".to_string(),
        };
        let on = |who: &str| nbindee.replace("box", who);
        let (open, arg_ints, arg_twos) = match b {
            | Binder::Let => (format!("{{ fn (box : Box) => let {npat} = {nbindee} in {body} }}"), "ints".to_string(), "twos".to_string()),
            | Binder::Do => (format!("{{ fn (box : Box) => do {npat} <- ret {nbindee}; {body} }}"), "ints".to_string(), "twos".to_string()),
            | Binder::Match => (format!("{{ fn (box : Box) => match {nbindee} | {npat} => {body} end }}"), "ints".to_string(), "twos".to_string()),
            | Binder::InlineFn => (format!("{{ fn (box : Box) => (fn ({npat} : {nty}) => {body}) {nbindee} }}"), "ints".to_string(), "twos".to_string()),
            | Binder::Param => (format!("{{ fn ({npat} : {nty}) => {body} }}"), on("ints"), on("twos")),
            | Binder::ValueLet => (format!("{{ fn (box : Box) => ret (let {npat} = {nbindee} in {body}) }}"), "ints".to_string(), "twos".to_string()),
            | Binder::ValueFn => (format!("fn (box : Box) => (let {npat} = {nbindee} in {body})"), "ints".to_string(), "twos".to_string()),
            // no function: `open` is unused
            | Binder::DirectValueLet | Binder::DirectLet => ("{ ret 0 }".to_string(), String::new(), String::new()),
        };
        let (observe, expect) = match (b, c) {
            | (Binder::DirectValueLet, Channel::Control) => (format!("let r = (let {npat} = {} in {body}) in ret r", on("ints")), "Integer(7)"),
            | (Binder::DirectValueLet, _) => (format!("let r = (let {npat} = {} in {body}) in ret 1", on("ints")), ""),
            | (Binder::DirectLet, Channel::Control) => (format!("do r <- (let {npat} = {} in {body}); ret r", on("ints")), "Integer(41)"),
            | (Binder::DirectLet, _) => (format!("do r <- (let {npat} = {} in {body}); ret 1", on("ints")), ""),
            | (Binder::ValueFn, Channel::Control) => ("ret (open ints, open twos)".to_string(), "(Integer(7),Integer(7))"),
            | (Binder::ValueFn, Channel::Pair) => ("let (_, g) = open twos in let (x, _) = open ints in ! g x".to_string(), ""),
            | (Binder::ValueFn, _) => ("let x = open ints in let y = open twos in ret 1".to_string(), ""),
            | (Binder::ValueLet, Channel::Control) => (format!("do x <- ! open {arg_ints}; do y <- ! open {arg_twos}; ret (x, y)"), "(Integer(7),Integer(7))"),
            | (_, Channel::Control) => (format!("do x <- ! open {arg_ints}; do y <- ! open {arg_twos}; ret (x, y)"), "(Integer(41),Integer(1))"),
            // the consumer of the Two package meets the payload of the Int64 package
            | (_, Channel::Pair) => (format!("do (_, g) <- ! open {arg_twos}; do (x, _) <- ! open {arg_ints}; ! g x"), ""),
            | _ => (format!("do x <- ! open {arg_ints}; do y <- ! open {arg_twos}; ret 1"), ""),
        };
        (
        format!(
            "begin\n  let VType = @(intrinsic(vtype)) that\n  let Ret = @(intrinsic(ret)) that\n  let Thk = @(intrinsic(thk)) that\n  let Unit = @(intrinsic(unit)) that\n  let Int64 = @(intrinsic(i64)) that\n  let Two = data | +A : Unit | +B : Unit end that\n  let Box = {boxty} that\n  let Wr = data | +Wrap : Box end that\n  let ints : Box = {ints} that\n  let twos : Box = {twos} that\n  let open = {open} in\n  {observe}\nend\n"
        ), expect)
    }
}

impl Check for Escapes {
    fn property(&self) -> &'static str {
        self.prop
    }
    fn name(&self) -> String {
        format!("{}-existential-escapes", self.prop.to_lowercase())
    }
    fn len(&self) -> usize {
        self.cases.len()
    }
    fn describe(&self, i: usize) -> String {
        format!("{:?}\n{}", self.cases[i], Self::text(&self.cases[i]))
    }
    fn rule(&self) -> String {
        format!(
            "{} programs = 6 ways to open an abstract data type `exists X . X * Thk (X -> Ret Int64)` (projection pattern without / with the witness selected / in swapped order, positional witness with named components, positional with wrapped components, fully positional) x 7 positions of that pattern in a surrounding pattern (alone, last / first / middle tuple component, doubly nested, under a named wrapper, under a data constructor) x the binder constructs let, do, match arm, value-level let under ret, value-level let as the body of a pure value function, value-level / computation-level let bound directly without a function (for C01 also inline function parameter and thunk parameter, which make package-dependent functions and carry no acceptance claim) x 6 bodies (control: consumer applied to payload inside the scope; escapes: pair of both, the payload, the consumer, a thunk around the payload, a function annotated with the witness), the opening being the body of an un-annotated function called on an Int64 package and a Two package; oracle for {}: {}; non-trivial = every case",
            self.cases.len(),
            self.prop,
            if self.prop == "C01" { "whatever is accepted runs without going wrong (an accepted pair escape applies the Two consumer to the Int64 payload)" } else { "the control is accepted and returns its known result; every escape is rejected" }
        )
    }
    fn run(&mut self, i: usize) -> CaseResult {
        let scratch = Scratch::new("c03esc");
        let case = self.cases[i];
        let (text, expect) = Self::text_and_expectation(&case);
        let path = scratch.write("main.zydeco", &text);
        let mut r = CaseResult::ok("form").key(i as u64).nontrivial(true);
        let control = case.3 == Channel::Control;
        let class = format!("{:?} opening, {:?} nesting, {:?} binder, {:?} body", case.0, case.1, case.2, case.3);
        match guarded(|| {
            let s = Subject::analyze(&path);
            let v = s.verdict();
            let run = if v.accepted() { Some(s.run(b"", &[], 5000)) } else { None };
            (v, run)
        }) {
            | Err(_) => r = r.count("front_end_panics_counted_by_C10", 1),
            | Ok((v, None)) => {
                r = r.count(&format!("rejected_{}", v.tag()), 1);
                if !matches!(v, Verdict::Rejected(_)) {
                    r = r.violation(format!("MACHINERY: escape-family program is not well formed ({})", v.tag()), format!("{class}\n{:?}\n{text}", v));
                } else if control && self.prop == "C03" {
                    r = r.violation(format!("well-typed use of an existential package rejected ({:?} opening, {:?} nesting, {:?} binder): {}", case.0, case.1, case.2, crate::front::short_msg(&format!("{:?}", v))), format!("{class}\n{:?}\n{text}", v));
                }
            }
            | Ok((_, Some(run))) => {
                r = r.count("accepted", 1);
                if !control && self.prop == "C03" {
                    r = r.violation(format!("existential witness escapes its opening and the program is accepted ({:?} opening, {:?} nesting, {:?} binder, {:?})", case.0, case.1, case.2, case.3), format!("{class}\n{:?}\n{text}", run.end));
                }
                match &run.end {
                    | RunEnd::Panic(p) => {
                        if self.prop == "C01" {
                            r = r.violation(format!("accepted program with an escaping existential witness goes wrong: {}", crate::front::short_msg(&p.msg)), format!("{class}\n{:?}\n{text}", run.end));
                        }
                    }
                    | RunEnd::Ret(got) => {
                        if control && self.prop == "C03" && got != expect {
                            r = r.violation("control program of the escape family returns an unexpected result".to_string(), format!("{class}\n{got}\n{text}"));
                        }
                    }
                    | _ => {}
                }
            }
        }
        r
    }
}

/* ------------------------------ binder patterns that can fail ------------------------------ */

/// Constructor patterns in binder position (C01: "a failed irrefutable pattern" is an undefined
/// machine state). Every binder construct x every nesting of a constructor pattern x every
/// constructor of the scrutinee's type as the run-time value. A pattern over a one-constructor type
/// is irrefutable and must keep working (C03 control); a pattern over a two-constructor type either
/// is rejected or, if accepted, must not fail at run time for any value of the type.
pub struct BinderPatterns {
    prop: &'static str,
    cases: Vec<(usize, usize, usize, usize)>,
}
/// (pattern, result variable or literal, scrutinee type, the values of that type: (source, does the pattern accept it, result))
fn binder_patterns() -> Vec<(&'static str, &'static str, &'static str, Vec<(&'static str, bool, &'static str)>)> {
    vec![
        ("+Only(n)", "n", "One", vec![("+Only(5)", true, "Integer(5)")]),
        ("+S(n)", "n", "Nat", vec![("+S(3)", true, "Integer(3)"), ("+Z()", false, "")]),
        ("+Z()", "0", "Nat", vec![("+Z()", true, "Integer(0)"), ("+S(3)", false, "")]),
        ("+Only(+S(n))", "n", "OneNat", vec![("+Only(+S(3))", true, "Integer(3)"), ("+Only(+Z())", false, "")]),
    ]
}
const BP_NESTINGS: [&str; 8] = ["alone", "last", "first", "named", "package", "alias", "alias-of-tuple-last", "alias-of-tuple-first"];
const BP_BINDERS: [&str; 9] = ["let", "do", "thunk-param", "inline-fn", "value-let", "value-fn", "comatch-arg", "fix-body-let", "def-param"];
impl BinderPatterns {
    pub fn new(prop: &'static str) -> Self {
        let mut cases = vec![];
        for (p, (_, _, _, vals)) in binder_patterns().iter().enumerate() {
            // C03 only claims the irrefutable control
            if prop == "C03" && p != 0 {
                continue;
            }
            for n in 0..BP_NESTINGS.len() {
                // constructor members of an alias pattern are rejected by design (docs/proposals/
                // field-projection.md: "constructor payloads are deferred"): no acceptance claim
                if prop == "C03" && BP_NESTINGS[n].starts_with("alias") {
                    continue;
                }
                for b in 0..BP_BINDERS.len() {
                    for v in 0..vals.len() {
                        cases.push((p, n, b, v));
                    }
                }
            }
        }
        BinderPatterns { prop, cases }
    }
    fn text(case: &(usize, usize, usize, usize)) -> (String, bool, &'static str) {
        let (p, n, b, v) = *case;
        let (pat, res, ty, vals) = binder_patterns().swap_remove(p);
        let (val, accepts, expect) = vals[v];
        let val = format!("({val} : {ty})");
        let (npat, nval, nty) = match BP_NESTINGS[n] {
            | "alone" => (pat.to_string(), val.clone(), ty.to_string()),
            | "last" => (format!("(k, {pat})"), format!("(1, {val})"), format!("Int64 * {ty}")),
            | "first" => (format!("({pat}, k)"), format!("({val}, 1)"), format!("{ty} * Int64")),
            | "named" => (format!("(l = {pat})"), format!("(l = {val})"), format!("(l :: {ty})")),
            | "package" => (format!("(W, {pat})"), format!("((Int64, {val}) : exists (X : VType) . {ty})"), format!("exists (X : VType) . {ty}")),
            | "alias" => (format!("({pat}; whole)"), val.clone(), ty.to_string()),
            | "alias-of-tuple-last" => (format!("(whole; (k, {pat}))"), format!("(1, {val})"), format!("Int64 * {ty}")),
            | _ => (format!("(({pat}, k); whole)"), format!("({val}, 1)"), format!("{ty} * Int64")),
        };
        let body = match BP_BINDERS[b] {
            | "let" => format!("let {npat} = {nval} in ret {res}"),
            | "do" => format!("do {npat} <- ret {nval}; ret {res}"),
            | "thunk-param" => format!("let f = {{ fn ({npat} : {nty}) => ret {res} }} in ! f {nval}"),
            | "inline-fn" => format!("(fn ({npat} : {nty}) => ret {res}) {nval}"),
            | "value-let" => format!("ret (let {npat} = {nval} in {res})"),
            | "value-fn" => format!("let f = fn ({npat} : {nty}) => {res} in ret (f {nval})"),
            | "comatch-arg" => format!("let o : Thk (codata | .go : {nty} -> Ret Int64 end) = {{ comatch | .go {npat} => ret {res} end }} in ! o .go {nval}"),
            | "fix-body-let" => format!("(fix (self : Thk ({nty} -> Ret Int64)) => fn (x : {nty}) => let {npat} = x in ret {res}) {nval}"),
            | _ => format!("def ! f ({npat} : {nty}) : Ret Int64 = ret {res} in ! f {nval}"),
        };
        (
            format!(
                "begin\n  let VType = @(intrinsic(vtype)) that\n  let Ret = @(intrinsic(ret)) that\n  let Thk = @(intrinsic(thk)) that\n  let Unit = @(intrinsic(unit)) that\n  let Int64 = @(intrinsic(i64)) that\n  let One = data | +Only : Int64 end that\n  let Nat = data | +Z : Unit | +S : Int64 end that\n  let OneNat = data | +Only : Nat end that\n  {body}\nend\n"
            ),
            accepts,
            expect,
        )
    }
}
impl Check for BinderPatterns {
    fn property(&self) -> &'static str {
        self.prop
    }
    fn name(&self) -> String {
        format!("{}-binder-patterns", self.prop.to_lowercase())
    }
    fn len(&self) -> usize {
        self.cases.len()
    }
    fn describe(&self, i: usize) -> String {
        let (p, n, b, v) = self.cases[i];
        format!("pattern #{p}, nesting {}, binder {}, value #{v}\n{}", BP_NESTINGS[n], BP_BINDERS[b], Self::text(&self.cases[i]).0)
    }
    fn rule(&self) -> String {
        format!(
            "{} programs = constructor patterns (over a one-constructor type: irrefutable; over a two-constructor type and nested under a one-constructor type: refutable) x 8 nestings (alone, last / first tuple component, under a named wrapper, as the payload of an existential package, as a member of an alias pattern, as the last / first component of a tuple that is a member of an alias pattern) x 9 binder constructs (let, do, thunk parameter, inline function parameter, value-level let, pure value function parameter, comatch argument, let under fix, def parameter) x every constructor of the type as the run-time value; oracle for {}: {}; non-trivial = accepted programs",
            self.cases.len(),
            self.prop,
            if self.prop == "C01" { "an accepted program never stops in a failed pattern (or any other undefined state)" } else { "the irrefutable pattern over the one-constructor type is accepted in every binder and nesting that accepts a variable there, and returns the payload" }
        )
    }
    fn run(&mut self, i: usize) -> CaseResult {
        let scratch = Scratch::new("c01bind");
        let case = self.cases[i];
        let (text, _accepts, expect) = Self::text(&case);
        let path = scratch.write("main.zydeco", &text);
        let mut r = CaseResult::ok("form").key(i as u64);
        let class = format!("{} binder, {} nesting", BP_BINDERS[case.2], BP_NESTINGS[case.1]);
        match guarded(|| {
            let s = Subject::analyze(&path);
            let v = s.verdict();
            let run = if v.accepted() { Some(s.run(b"", &[], 5000)) } else { None };
            (v, run)
        }) {
            | Err(_) => r = r.count("front_end_panics_counted_by_C10", 1),
            | Ok((v, None)) => {
                r = r.count(&format!("rejected_{}", v.tag()), 1);
                if !matches!(v, Verdict::Rejected(_)) {
                    r = r.violation(format!("MACHINERY: binder-pattern program is not well formed ({})", v.tag()), format!("{class}\n{:?}\n{text}", v));
                } else if self.prop == "C03" {
                    // the control: is the same program with a variable in place of the constructor pattern accepted?
                    let plain = text.replace("+Only(n)", "nn").replace("ret n\n", "ret 5\n").replace("in n)", "in 5)").replace("=> n in", "=> 5 in").replace("ret n end", "ret 5 end").replace("ret n }", "ret 5 }").replace("ret n)", "ret 5)").replace("ret n in", "ret 5 in");
                    let ppath = scratch.write("plain.zydeco", &plain);
                    let plain_ok = guarded(|| Subject::analyze(&ppath).verdict().accepted()).unwrap_or(false);
                    if plain_ok {
                        r = r.violation(format!("irrefutable constructor pattern rejected in a binder ({class}): {}", crate::front::short_msg(&format!("{:?}", v))), format!("{class}\n{:?}\n{text}", v));
                    } else {
                        r = r.count("binder_form_not_available_even_with_a_variable", 1);
                    }
                }
            }
            | Ok((_, Some(run))) => {
                r = r.nontrivial(true).count("accepted", 1);
                match &run.end {
                    | RunEnd::Panic(p) => {
                        if self.prop == "C01" {
                            r = r.violation(format!("accepted program fails in a binder pattern ({}): {}", BP_BINDERS[case.2], crate::front::short_msg(&p.msg)), format!("{class}\n{:?}\n{text}", run.end));
                        }
                    }
                    | RunEnd::Ret(got) => {
                        if self.prop == "C03" && got != expect {
                            r = r.violation("irrefutable constructor pattern binds the wrong payload".to_string(), format!("{class}\n{got} instead of {expect}\n{text}"));
                        }
                    }
                    | _ => {}
                }
            }
        }
        r
    }
}

/* ------------------------------ the annotation of a fix binder ------------------------------ */

/// `fix (x : T) => body`: the rule demands T = Thk B (up to transparent aliases) and body : B.
/// Every annotation of a small catalogue (thunk types written directly, through aliases and alias
/// operators, with a hole; data types, applications of sealed / abstract / data type operators to a
/// computation type, sealed aliases of a thunk type, Ret, Int64, products) x bodies that ignore the
/// binder, force it, or match on it x two contexts.
pub struct FixAnnotations {
    prop: &'static str,
    cases: Vec<(usize, usize, usize)>,
}
/// (annotation, is it a thunk type of `Ret Int64`?)
const FIX_ANNS: [(&str, bool); 14] = [
    ("Thk (Ret Int64)", true),
    ("TI", true),
    ("Th (Ret Int64)", true),
    ("Thk _", true),
    ("Bx (Ret Int64)", false),
    ("Al (Ret Int64)", false),
    ("Ret Int64", false),
    ("Sealed", false),
    ("SealedOp (Ret Int64)", false),
    ("F (Ret Int64)", false),
    ("Int64", false),
    ("Int64 * Int64", false),
    ("Co (Ret Int64)", false),
    ("Bx2 Int64 (Ret Int64)", false),
];
/// (body, well typed at Ret Int64 when x : Thk (Ret Int64)?)
const FIX_BODIES: [(&str, bool); 4] = [("ret 1", true), ("! x", true), ("match x | +Box(t) => ! t end", false), ("match x | +Mk(t) => ! t end", false)];
impl FixAnnotations {
    pub fn new(prop: &'static str) -> Self {
        let mut cases = vec![];
        for a in 0..FIX_ANNS.len() {
            for b in 0..FIX_BODIES.len() {
                for c in 0..3 {
                    cases.push((a, b, c));
                }
            }
        }
        FixAnnotations { prop, cases }
    }
    fn text(case: &(usize, usize, usize)) -> (String, bool) {
        let (a, b, c) = *case;
        let (ann, thunk) = FIX_ANNS[a];
        let (body, body_ok) = FIX_BODIES[b];
        let fix = format!("fix (x : {ann}) => {body}");
        let abstract_f = ann.starts_with("F ");
        let root = match (c, abstract_f) {
            | (0, false) => fix,
            | (1, false) => format!("do y <- ({fix}); ret y"),
            | (_, false) => format!("let t = {{ {fix} }} in ! t"),
            // the annotation mentions a type operator variable: abstract over it and instantiate with a data operator
            | (0, true) => format!("let f = {{ fn (F : CType -> VType) => {fix} }} in ! f Bx"),
            | (1, true) => format!("let f = {{ fn (F : CType -> VType) => do y <- ({fix}); ret y }} in ! f Bx"),
            | (_, true) => format!("let f = {{ fn (F : CType -> VType) => {fix} }} in ! f Al"),
        };
        (
            format!(
                "begin\n  let VType = @(intrinsic(vtype)) that\n  let CType = @(intrinsic(ctype)) that\n  let Ret = @(intrinsic(ret)) that\n  let Thk = @(intrinsic(thk)) that\n  let Unit = @(intrinsic(unit)) that\n  let Int64 = @(intrinsic(i64)) that\n  def Bx (T : CType) : VType = data | +Box : Thk T end that\n  def Bx2 (A : VType) (T : CType) : VType = data | +Box : Thk T end that\n  let Al (T : CType) = data | +Mk : Thk T end that\n  def Co (T : CType) : CType = codata | .run : T end that\n  let TI = Thk (Ret Int64) that\n  let Th (B : CType) = Thk B that\n  def Sealed : VType = Thk (Ret Int64) that\n  def SealedOp (B : CType) : VType = Thk B that\n  {root}\nend\n"
            ),
            thunk && body_ok,
        )
    }
}
impl Check for FixAnnotations {
    fn property(&self) -> &'static str {
        self.prop
    }
    fn name(&self) -> String {
        format!("{}-fix-annotations", self.prop.to_lowercase())
    }
    fn len(&self) -> usize {
        self.cases.len()
    }
    fn describe(&self, i: usize) -> String {
        format!("{:?}\n{}", self.cases[i], Self::text(&self.cases[i]).0)
    }
    fn rule(&self) -> String {
        format!(
            "{} programs = 14 annotations of a fix binder (thunk types: direct, through an alias, through an alias operator, with a hole; non-thunk types: applications of a sealed data operator, of a transparent data operator, of a two-parameter sealed operator, of a sealed thunk operator, of an abstract operator variable instantiated with a data operator, of a codata operator, Ret, a sealed alias of a thunk type, Int64, a product) x 4 bodies (ignore the binder, force it, match on it with either constructor) x 3 contexts (root, bound by do, inside a forced thunk); reference: well typed iff the annotation is transparently `Thk (Ret Int64)` and the body uses the binder as that thunk; oracle for {}: {}; non-trivial = every case",
            self.cases.len(),
            self.prop,
            if self.prop == "C01" { "whatever is accepted runs without going wrong" } else { "accepted iff well typed" }
        )
    }
    fn run(&mut self, i: usize) -> CaseResult {
        let scratch = Scratch::new("c03fix");
        let case = self.cases[i];
        let (text, well_typed) = Self::text(&case);
        let path = scratch.write("main.zydeco", &text);
        let mut r = CaseResult::ok("form").key(i as u64).nontrivial(true);
        let class = format!("annotation `{}`, body `{}`", FIX_ANNS[case.0].0, FIX_BODIES[case.1].0);
        match guarded(|| {
            let s = Subject::analyze(&path);
            let v = s.verdict();
            let run = if v.accepted() { Some(s.run(b"", &[], 3000)) } else { None };
            (v, run)
        }) {
            | Err(_) => r = r.count("front_end_panics_counted_by_C10", 1),
            | Ok((v, None)) => {
                r = r.count(&format!("rejected_{}", v.tag()), 1);
                if !matches!(v, Verdict::Rejected(_)) {
                    r = r.violation(format!("MACHINERY: fix-annotation program is not well formed ({})", v.tag()), format!("{class}\n{:?}\n{text}", v));
                } else if well_typed && self.prop == "C03" {
                    r = r.violation(format!("well-typed fix rejected (annotation `{}`)", FIX_ANNS[case.0].0), format!("{class}\n{:?}\n{text}", v));
                }
            }
            | Ok((_, Some(run))) => {
                r = r.count("accepted", 1);
                if !well_typed && self.prop == "C03" {
                    r = r.violation(format!("fix with a binder that is not used at a thunk type is accepted (annotation `{}`)", FIX_ANNS[case.0].0), format!("{class}\n{:?}\n{text}", run.end));
                }
                if let RunEnd::Panic(p) = &run.end {
                    if self.prop == "C01" {
                        r = r.violation(format!("accepted fix goes wrong (annotation `{}`): {}", FIX_ANNS[case.0].0, crate::front::short_msg(&p.msg)), format!("{class}\n{:?}\n{text}", run.end));
                    }
                }
            }
        }
        r
    }
}

/* ------------------------------ a quantified type operator applied inside itself ------------------------------ */

/// `let Cont (A : VType) = forall (R : CType) . Thk (A -> R) -> R` used as `Cont (Thk (Cont Int64))`:
/// type-level substitution does not rename binders, so the same binder sits at two depths of the
/// instantiated type. Comparing it with a hand-written expansion exercises binder bookkeeping under
/// shadowing: equal to the expansion with distinct binder names and to the one that reuses one name,
/// different from an expansion whose inner occurrences refer to the outer binder.
pub struct OperatorNesting {
    cases: Vec<(usize, usize, usize, bool)>,
}
const ON_OPERATORS: [&str; 3] = ["Cont", "Pack", "Poly"];
const ON_EXPANSIONS: [&str; 4] = ["distinct binder names", "one binder name", "inner occurrences refer to the outer binder", "outer occurrences refer to a deeper binder name"];
impl OperatorNesting {
    pub fn new() -> Self {
        let mut cases = vec![];
        for op in 0..ON_OPERATORS.len() {
            for depth in 1..=3usize {
                for exp in 0..ON_EXPANSIONS.len() {
                    if exp >= 2 && depth < 2 {
                        continue;
                    }
                    for flip in [false, true] {
                        cases.push((op, depth, exp, flip));
                    }
                }
            }
        }
        OperatorNesting { cases }
    }
    /// the operator application nested `depth` times around Int64
    fn applied(op: usize, depth: usize) -> String {
        let name = ON_OPERATORS[op];
        let mut t = "Int64".to_string();
        for k in 0..depth {
            t = match (op, k) {
                | (0, 0) => format!("{name} {t}"),
                | (0, _) => format!("{name} (Thk ({t}))"),
                | (_, 0) => format!("{name} {t}"),
                | _ => format!("{name} ({t})"),
            };
        }
        t
    }
    /// the hand-written expansion; level 1 is the innermost application
    fn expanded(op: usize, depth: usize, exp: usize) -> String {
        let name_at = |level: usize| -> String {
            match exp {
                | 1 => "B".to_string(),
                | _ => format!("B{level}"),
            }
        };
        let mut t = "Int64".to_string();
        for level in 1..=depth {
            // which name the occurrences of this level's bound variable are written with
            let binder = name_at(level);
            let occ = match exp {
                // the innermost level's occurrences are written with the next outer binder's name
                | 2 if level == 1 && depth >= 2 => name_at(2),
                // the outermost level's occurrences are written with the next inner binder's name (out of scope there)
                | 3 if level == depth && depth >= 2 => name_at(depth - 1),
                | _ => binder.clone(),
            };
            let arg = if op == 0 && level > 1 { format!("Thk ({t})") } else { t.clone() };
            let arg_atom = if arg.contains(' ') { format!("({arg})") } else { arg.clone() };
            t = match op {
                | 0 => format!("forall ({binder} : CType) . Thk ({arg_atom} -> {occ}) -> {occ}"),
                | 1 => format!("exists ({binder} : VType) . {occ} * Thk ({occ} -> Ret {arg_atom})"),
                | _ => format!("forall ({binder} : VType) . {occ} -> {arg_atom}"),
            };
        }
        t
    }
    fn text(case: &(usize, usize, usize, bool)) -> (String, bool) {
        let (op, depth, exp, flip) = *case;
        let a = Self::applied(op, depth);
        let e = Self::expanded(op, depth, exp);
        // Cont is computation-typed: compare under Thk
        let (ta, te) = if op == 0 { (format!("Thk ({a})"), format!("Thk ({e})")) } else { (format!("({a})"), format!("({e})")) };
        let (from, to) = if flip { (te, ta) } else { (ta, te) };
        (
            format!(
                "begin\n  let VType = @(intrinsic(vtype)) that\n  let CType = @(intrinsic(ctype)) that\n  let Ret = @(intrinsic(ret)) that\n  let Thk = @(intrinsic(thk)) that\n  let Int64 = @(intrinsic(i64)) that\n  let Cont (A : VType) = forall (R : CType) . Thk (A -> R) -> R that\n  let Pack (A : VType) = exists (X : VType) . X * Thk (X -> Ret A) that\n  let Poly (A : VType) = forall (X : VType) . X -> A that\n  let f : Thk ({from} -> Ret Int64) = {{ fn (a : {from}) => let b : {to} = a in ret 0 }} in\n  ret 0\nend\n"
            ),
            exp < 2,
        )
    }
}
impl Check for OperatorNesting {
    fn property(&self) -> &'static str {
        "C03"
    }
    fn name(&self) -> String {
        "c03-operator-nesting".into()
    }
    fn len(&self) -> usize {
        self.cases.len()
    }
    fn describe(&self, i: usize) -> String {
        let c = &self.cases[i];
        format!("{} nested {} time(s) against its expansion with {}{}\n{}", ON_OPERATORS[c.0], c.1, ON_EXPANSIONS[c.2], if c.3 { " (expansion first)" } else { "" }, Self::text(c).0)
    }
    fn rule(&self) -> String {
        format!("{} programs = 3 type operators whose body binds a variable (`Cont A = forall (R : CType) . Thk (A -> R) -> R`, `Pack A = exists X . X * Thk (X -> Ret A)`, `Poly A = forall X . X -> A`) applied 1..3 times inside themselves, compared in both directions (`fn (a : T) => let b : U = a in ..`) with hand-written expansions: distinct binder names, one name for every binder (legal shadowing), inner occurrences written with the outer binder's name, outer occurrences written with an inner binder's name; oracle: the first two are accepted (alpha-equivalent to the instantiated operator, whose binders coincide at all depths because substitution does not rename them), the last two are rejected; non-trivial = depth >= 2", self.cases.len())
    }
    fn run(&mut self, i: usize) -> CaseResult {
        let scratch = Scratch::new("c03opn");
        let case = self.cases[i];
        let (text, equal) = Self::text(&case);
        let path = scratch.write("main.zydeco", &text);
        let mut r = CaseResult::ok("pair").key(i as u64).nontrivial(case.1 >= 2);
        let class = format!("{} nested {} time(s), expansion with {}", ON_OPERATORS[case.0], case.1, ON_EXPANSIONS[case.2]);
        match guarded(|| Subject::analyze(&path).verdict()) {
            | Err(p) => r = r.violation(format!("type checker panics on a nested operator application: {}", crate::front::short_msg(&p.msg)), format!("{:?}\n{text}", p)),
            | Ok(v) => {
                // a name written out of its binder's scope is an unbound variable for the resolver: a rejection too
                if !matches!(v, Verdict::Checked | Verdict::Rejected(_)) && !(case.2 == 3 && matches!(v, Verdict::Resolve(_))) {
                    r = r.violation(format!("MACHINERY: operator-nesting program is not well formed ({})", v.tag()), format!("{class}\n{:?}\n{text}", v));
                } else if v.accepted() != equal {
                    let fp = if equal { format!("an operator applied inside itself is not equal to its expansion ({})", ON_EXPANSIONS[case.2]) } else { format!("an operator applied inside itself is accepted as equal to a wrong expansion ({})", ON_EXPANSIONS[case.2]) };
                    r = r.violation(fp, format!("{class}\n{:?}\n{text}", v));
                }
            }
        }
        r
    }
}
