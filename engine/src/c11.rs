//! C11 — a source is parsed in full or rejected: no silent truncation.
use crate::common::*;
use crate::corpus::*;
use crate::reflex::{self, K};
use crate::subject::*;
use std::sync::Arc;
use zydeco_surface::textual::{Lexer, SourceUnitParser, syntax::{EntityId, Parser}};
use zydeco_utils::span::{FileInfo, LocationCtx};

pub const IRREGULARITIES: &[&str] = &[
    "-/", "/-", "/- x", "-/ -/", "/- /- x -/", "\u{1}", "$", "\"", "'", "'ab'", "1.", "1e", "--| t", "\r", "-", "<", "\"\\", "x-/", "/- -- -/\n",
    "/- \"-/\" ", "\u{feff}",
];
pub const FOLLOWERS: &[&str] = &["", " junk (", " ret 1", "\nret 1\n"];

pub enum ParseOutcome {
    /// root span
    Ok(usize, usize),
    Err,
    Panic(PanicInfo),
}

pub fn parse_root_span(text: &str) -> ParseOutcome {
    let r = guarded(|| {
        let file_info = FileInfo::new(text, Some(Arc::new(std::path::PathBuf::from("c11.zydeco"))));
        let location = LocationCtx::File(file_info);
        let mut parser = Parser::new();
        match SourceUnitParser::new().parse(text, &location, &mut parser, Lexer::new(text)) {
            | Ok(unit) => {
                let (l, r) = parser.spans[&EntityId::Term(unit.root)].get_cursor1();
                Some((l, r))
            }
            | Err(_) => None,
        }
    });
    match r {
        | Ok(Some((l, r))) => ParseOutcome::Ok(l, r),
        | Ok(None) => ParseOutcome::Err,
        | Err(p) => ParseOutcome::Panic(p),
    }
}

/// The oracle: if the parser accepts `text`, every code token found by the reference scanner
/// (everything outside comments, including stray `-/` and unknown characters) lies inside the root span.
pub fn truncation_problem(text: &str) -> Option<(String, String)> {
    match parse_root_span(text) {
        | ParseOutcome::Err => None,
        | ParseOutcome::Panic(p) => Some((format!("parser panicked at {}", crate::front::short_loc(&p.loc)), format!("{:?}", p))),
        | ParseOutcome::Ok(l, r) => {
            let toks = reflex::code_tokens(text);
            let outside: Vec<&reflex::Tok> = toks.iter().filter(|t| t.start < l || t.end > r).collect();
            if outside.is_empty() {
                // nothing lies outside the root: the tokens the parser was given must also be the tokens of
                // the text (a token that swallows neighbouring text hides it from the grammar just as well)
                let mine: Vec<(usize, usize)> = toks.iter().map(|t| (t.start, t.end)).collect();
                let theirs: Vec<(usize, usize)> = match guarded(|| Lexer::new(text).map(|(l, _, r)| (l, r)).collect::<Vec<_>>()) {
                    | Ok(v) => v,
                    | Err(_) => return None,
                };
                if mine != theirs && !toks.iter().any(|t| t.kind == K::StrayClose) {
                    let k = mine.iter().zip(theirs.iter()).position(|(a, b)| a != b).unwrap_or(mine.len().min(theirs.len()));
                    let (a, b) = (mine.get(k).copied().unwrap_or((text.len(), text.len())), theirs.get(k).copied().unwrap_or((text.len(), text.len())));
                    let kind = toks.get(k).map(|t| format!("{:?}", t.kind)).unwrap_or_else(|| "end".into());
                    return Some((
                        format!("accepted source: the lexer's token swallows text that the grammar never sees (at a token of kind {kind})"),
                        format!("token #{k}: the text has {:?} at {}..{}, the lexer produced one token {:?} at {}..{}", &text[a.0..a.1.min(text.len())], a.0, a.1, &text[b.0..b.1.min(text.len())], b.0, b.1),
                    ));
                }
                None
            } else {
                let t = outside[0];
                let what = match t.kind {
                    | K::StrayClose => "a stray comment terminator `-/`",
                    | K::Unknown => "an unknown character",
                    | _ => "a lexical irregularity",
                };
                // fingerprint by what precedes the first ignored token
                let before = toks.iter().filter(|u| u.end <= t.start).last();
                let trigger = if t.kind == K::StrayClose || t.kind == K::Unknown {
                    what.to_string()
                } else {
                    match before {
                        | Some(b) if b.kind == K::StrayClose => "a stray comment terminator `-/`".to_string(),
                        | Some(b) if b.kind == K::Unknown => "an unknown character".to_string(),
                        | _ => format!("token of kind {:?}", t.kind),
                    }
                };
                Some((
                    format!("accepted source silently ignores text after {}", trigger),
                    format!(
                        "parser accepted the text with root span {}..{} but {} code token(s) lie outside it, first {:?} {:?} at {}..{}",
                        l,
                        r,
                        outside.len(),
                        t.kind,
                        &text[t.start..t.end],
                        t.start,
                        t.end
                    ),
                ))
            }
        }
    }
}

/// Machinery self-check: on unmodified sources the reference scanner and the repository lexer see
/// the same code-token ranges. Returns a description of the first disagreement.
pub fn scanner_selfcheck() -> Option<String> {
    let mut texts: Vec<(String, String)> = MINIS.iter().enumerate().map(|(i, m)| (format!("mini{i}"), m.to_string())).collect();
    for p in repo_sources() {
        if let Ok(t) = std::fs::read_to_string(&p) {
            texts.push((p.display().to_string(), t));
        }
    }
    for (name, text) in texts {
        let mine: Vec<(usize, usize)> = reflex::code_tokens(&text).iter().map(|t| (t.start, t.end)).collect();
        if reflex::code_tokens(&text).iter().any(|t| t.kind == K::StrayClose) {
            continue;
        }
        let theirs: Vec<(usize, usize)> = Lexer::new(&text).map(|(l, _, r)| (l, r)).collect();
        if mine != theirs {
            let k = mine.iter().zip(theirs.iter()).position(|(a, b)| a != b).unwrap_or(mine.len().min(theirs.len()));
            return Some(format!("{}: token #{} differs: reference {:?} vs lexer {:?}", name, k, mine.get(k), theirs.get(k)));
        }
    }
    None
}

pub struct Truncation {
    files: Vec<(String, String, Vec<usize>)>,
    sites: Vec<(usize, usize)>,
}
impl Truncation {
    pub fn new(tier: Tier) -> Self {
        let mut files = vec![];
        let mut add = |name: String, text: String| {
            // token gaps: before the first token, between tokens (at the start of each token), after the last
            let toks = reflex::scan(&text);
            let mut gaps: Vec<usize> = toks.iter().map(|t| t.start).collect();
            gaps.push(text.len());
            gaps.dedup();
            files.push((name, text, gaps));
        };
        for (i, m) in MINIS.iter().enumerate() {
            add(format!("mini{i}"), m.to_string());
        }
        let limit = if tier == Tier::Thorough { usize::MAX } else { 900 };
        for p in repo_sources() {
            if let Ok(t) = std::fs::read_to_string(&p) {
                if t.len() <= limit {
                    add(p.display().to_string(), t);
                }
            }
        }
        let mut sites = vec![];
        for (fi, f) in files.iter().enumerate() {
            for gi in 0..f.2.len() {
                sites.push((fi, gi));
            }
        }
        Truncation { files, sites }
    }
}
impl Check for Truncation {
    fn property(&self) -> &'static str {
        "C11"
    }
    fn name(&self) -> String {
        "c11-truncation".into()
    }
    fn len(&self) -> usize {
        self.sites.len()
    }
    fn describe(&self, i: usize) -> String {
        let (fi, gi) = self.sites[i];
        let f = &self.files[fi];
        let at = f.2[gi];
        let ctx_start = f.1[..at].char_indices().rev().nth(30).map(|(i, _)| i).unwrap_or(0);
        format!(
            "source {} ({} bytes), insertion at byte {} (after {:?}): each of {} irregularities x {} followers",
            f.0,
            f.1.len(),
            at,
            &f.1[ctx_start..at],
            IRREGULARITIES.len(),
            FOLLOWERS.len()
        )
    }
    fn rule(&self) -> String {
        format!("for every base source (mini corpus + repository sources up to the tier's size limit: {} files) and every token gap (before the first, between any two, after the last token or comment: {} gaps), each of {} lexical irregularities (stray/unterminated/nested comment markers, unknown characters, lone quotes, malformed literals, CR, BOM, markers glued to identifiers or hidden in strings/line comments) followed by nothing, by junk, or by a second well-formed term; oracle: if SourceUnitParser accepts, every code token the independent scanner finds outside comments lies inside the root term's span; non-trivial = gaps where at least one variant is accepted by the parser", self.files.len(), self.sites.len(), IRREGULARITIES.len())
    }
    fn run(&mut self, i: usize) -> CaseResult {
        let (fi, gi) = self.sites[i];
        let (name, text, gaps) = &self.files[fi];
        let at = gaps[gi];
        let mut r = CaseResult::ok("gap").key(hash64(&format!("{}@{}", name, at)));
        let mut accepted = 0u64;
        let mut n = 0u64;
        for irr in IRREGULARITIES {
            for fol in FOLLOWERS {
                n += 1;
                let edited = format!("{} {}{} {}", &text[..at], irr, fol, &text[at..]);
                if matches!(parse_root_span(&edited), ParseOutcome::Ok(..)) {
                    accepted += 1;
                }
                if let Some((fp, detail)) = truncation_problem(&edited) {
                    r.violations.push(Violation {
                        fingerprint: fp,
                        detail: format!("base {} with {:?} + {:?} inserted at byte {}:\n{}\n{}", name, irr, fol, at, edited, detail),
                    });
                }
            }
        }
        r.nontrivial = accepted > 0;
        r.count("inputs", n).count("inputs_accepted", accepted)
    }
}

/// End-to-end variant on accepted closed programs: `S ++ " " ++ X` must not be accepted by the full
/// front end unless X is empty or a comment.
pub struct Suffix {
    scratch: Option<Scratch>,
}
const SUFFIXES: &[(&str, bool)] = &[
    ("", true),
    ("-- c", true),
    ("/- c -/", true),
    ("/- unterminated", true),
    ("--| t", true),
    ("-/", false),
    ("-/ garbage (", false),
    ("-/ ret 1", false),
    ("$", false),
    ("\u{1}", false),
    ("\"", false),
    (")", false),
    ("ret 1", false),
    ("/- c -/ -/ x", false),
    ("\r", false),
];
impl Check for Suffix {
    fn property(&self) -> &'static str {
        "C11"
    }
    fn name(&self) -> String {
        "c11-suffix".into()
    }
    fn len(&self) -> usize {
        MINIS.len()
    }
    fn describe(&self, i: usize) -> String {
        format!("accepted program {:?} followed by each of {} suffixes", MINIS[i], SUFFIXES.len())
    }
    fn rule(&self) -> String {
        "every mini-corpus program that the full front end accepts, followed by each of 15 suffixes; oracle: CompilerSession::analyze accepts S ++ X only if X is empty or a comment (and does accept it then); non-trivial = every accepted base".into()
    }
    fn run(&mut self, i: usize) -> CaseResult {
        let scratch = self.scratch.get_or_insert_with(|| Scratch::new("c11s"));
        let base = MINIS[i];
        let p = scratch.write("main.zydeco", base);
        let v = guarded(|| Subject::analyze(&p).verdict());
        if !matches!(v, Ok(Verdict::Checked)) {
            return CaseResult::ok("base-not-accepted");
        }
        let mut r = CaseResult::ok("base-accepted").nontrivial(true).key(hash64(base));
        for (suffix, harmless) in SUFFIXES {
            let text = format!("{} {}", base, suffix);
            let p = scratch.write("main.zydeco", &text);
            let v = guarded(|| Subject::analyze(&p).verdict());
            match v {
                | Ok(Verdict::Checked) if !*harmless => {
                    r.violations.push(Violation {
                        fingerprint: format!("accepted program with trailing non-comment text still accepted (suffix {:?})", suffix.split(' ').next().unwrap_or("")),
                        detail: format!("{:?} is accepted by check although {:?} follows the term", text, suffix),
                    });
                }
                | Ok(Verdict::Checked) => {}
                | Ok(other) if *harmless => {
                    r.violations.push(Violation {
                        fingerprint: "accepted program followed by a comment is rejected".into(),
                        detail: format!("{:?}: {:?}", text, other),
                    });
                }
                | Ok(_) => {}
                | Err(p) => r.violations.push(Violation { fingerprint: format!("front end panicked at {}", crate::front::short_loc(&p.loc)), detail: format!("{:?} on {:?}", p, text) }),
            }
        }
        r
    }
}

pub fn checks(tier: Tier) -> Vec<Box<dyn Check>> {
    vec![Box::new(Truncation::new(tier)), Box::new(Suffix { scratch: None })]
}
