// The repository's own CLI entry point, compiled from the current working tree into the
// harness's target directory so that process-level checks run the real `zydeco` binary.
include!("/repo/cli/src/main.rs");
