//! C16 — tool output is a deterministic function of the sources. Process level: the real `zydeco`
//! binary, one fresh process per (file, command, hash seed, ASLR setting); outputs compared bytewise.
use crate::common::*;
use crate::corpus::repo_sources;
use crate::subject::Scratch;
use std::path::PathBuf;
use std::process::{Command, Stdio};
use std::time::Duration;

#[derive(Clone, Debug)]
struct Case {
    file: PathBuf,
    /// extra files to place next to a generated source (name, text)
    inline: Option<String>,
    cmd: Vec<&'static str>,
}

pub struct Determinism {
    cases: Vec<Case>,
    seeds: u64,
    scratch: Option<Scratch>,
}

fn zydeco_bin() -> PathBuf {
    std::env::current_exe().unwrap().parent().unwrap().join("zydeco")
}

const MULTI_ERROR: &[&str] = &[
    // several independent type errors in independent block contributions
    "begin let Ret = @(intrinsic(ret)) that let Int64 = @(intrinsic(i64)) that let String = @(intrinsic(string)) that def a : Int64 = \"s\" that def b : String = 1 that def c : Int64 = 'c' that def d : String = 2.5 that ret (a, b, c, d) end",
    "begin let Ret = @(intrinsic(ret)) that let Int64 = @(intrinsic(i64)) that def a : Int64 = 1 that def b : Int64 = 2 that def c : Int64 = 3 that def d : Int64 = a that def e : Int64 = b that ret (e, d, c) end",
    "begin let Ret = @(intrinsic(ret)) that let Int64 = @(intrinsic(i64)) that let Unit = @(intrinsic(unit)) that let B = data | +T : Unit | +F : Unit end that let f = { fn (x : B) (y : B) => match x | +T() => match y | +T() => ret 1 end end } that ret 0 end",
    "begin let Ret = @(intrinsic(ret)) that let Int64 = @(intrinsic(i64)) that let x : Int64 = _ that let y : Int64 = _ that let z : Int64 = _ that ret (x, y, z) end",
    "begin let Ret = @(intrinsic(ret)) that def x = nosuch1 that def y = nosuch2 that ret (x, y) end",
    "begin let Ret = @(intrinsic(ret)) that let x = 1 that let y = 2 that let (x, y) = (3, 4) that ret 0 end",
    "begin let Ret = @(intrinsic(ret)) that let a = 1 that let b = 2 that let c = 3 that let (c, b, a) = (3, 4, 5) that ret 0 end",
];

impl Determinism {
    pub fn new(tier: Tier) -> Self {
        let mut cases = vec![];
        let all = repo_sources();
        let pick = |dir: &str| -> Vec<PathBuf> { all.iter().filter(|p| p.to_string_lossy().contains(dir)).cloned().collect() };
        let compile = pick("/lib/tests/compile/");
        let fail = pick("/lib/tests/fail/");
        let mut exec = pick("/lib/tests/exec/");
        if tier == Tier::Quick {
            exec.truncate(12);
        }
        let builtin = pick("/lib/tests/builtin/");
        for f in compile.iter().chain(builtin.iter()) {
            let name = f.to_string_lossy().to_string();
            for cmd in [vec!["check"], vec!["build", "-t", "zir"], vec!["build", "-t", "zasm"], vec!["build", "-t", "asm"], vec!["build", "-t", "llvm"]] {
                cases.push(Case { file: f.clone(), inline: None, cmd });
            }
            if !name.contains("loop") && !name.contains("echo") && !name.contains("host-") {
                cases.push(Case { file: f.clone(), inline: None, cmd: vec!["run"] });
            }
        }
        for f in fail.iter().chain(exec.iter()) {
            cases.push(Case { file: f.clone(), inline: None, cmd: vec!["check"] });
            cases.push(Case { file: f.clone(), inline: None, cmd: vec!["fmt"] });
        }
        for (i, text) in MULTI_ERROR.iter().enumerate() {
            cases.push(Case { file: PathBuf::from(format!("multi{i}.zydeco")), inline: Some(text.to_string()), cmd: vec!["check"] });
        }
        Determinism { cases, seeds: if tier == Tier::Thorough { 16 } else { 4 }, scratch: None }
    }
}

fn run_once(bin: &PathBuf, args: &[String], seed: u64, no_aslr: bool, cwd: &std::path::Path) -> Option<(Vec<u8>, Vec<u8>, Option<i32>)> {
    let so = verif_root().join("build/libzyv_getrandom.so");
    let mut cmd = if no_aslr {
        let mut c = Command::new("setarch");
        c.arg("x86_64").arg("-R").arg(bin);
        c
    } else {
        Command::new(bin)
    };
    cmd.args(args).current_dir(cwd).env("LD_PRELOAD", &so).env("VERIF_HASH_SEED", seed.to_string()).env("RUST_BACKTRACE", "0").env("NO_COLOR", "1");
    // outputs go to files: a piped child would block once the pipe buffer fills
    let out_path = cwd.join("stdout.txt");
    let err_path = cwd.join("stderr.txt");
    let out_file = std::fs::File::create(&out_path).ok()?;
    let err_file = std::fs::File::create(&err_path).ok()?;
    cmd.stdin(Stdio::null()).stdout(Stdio::from(out_file)).stderr(Stdio::from(err_file));
    let mut child = cmd.spawn().ok()?;
    // watchdog
    let start = std::time::Instant::now();
    let status = loop {
        match child.try_wait() {
            | Ok(Some(st)) => break st,
            | Ok(None) => {
                if start.elapsed() > Duration::from_secs(60) {
                    let _ = child.kill();
                    let _ = child.wait();
                    return None;
                }
                std::thread::sleep(Duration::from_millis(3));
            }
            | Err(_) => return None,
        }
    };
    Some((std::fs::read(&out_path).unwrap_or_default(), std::fs::read(&err_path).unwrap_or_default(), status.code()))
}

impl Check for Determinism {
    fn property(&self) -> &'static str {
        "C16"
    }
    fn name(&self) -> String {
        "c16-processes".into()
    }
    fn len(&self) -> usize {
        self.cases.len()
    }
    fn describe(&self, i: usize) -> String {
        let c = &self.cases[i];
        format!("zydeco {} {}{} under hash seeds 0..{} (LD_PRELOAD getrandom interposer) plus one run with ASLR disabled (setarch -R)", c.cmd.join(" "), c.file.display(), c.inline.as_ref().map(|t| format!(" [generated source: {}]", t)).unwrap_or_default(), self.seeds)
    }
    fn rule(&self) -> String {
        format!("the real zydeco binary built from the current tree, one fresh process per (file, command, instance): the compile and builtin fixtures x {{check, run, build -t zir|zasm|asm|llvm}}, the fail and exec fixtures x {{check, fmt (on a copy)}}, 5 multi-error / multi-contribution programs x check ({} cases); instances = hash seeds 0..{} owned through the getrandom interposer + one run with ASLR disabled; oracle: stdout, stderr and exit status byte-identical across instances (outputs are compared with each other, never with a golden file); non-trivial = cases whose output is non-empty; a bounded enumeration of the seed space, not of all iteration orders", self.cases.len(), self.seeds)
    }
    fn exhaustive(&self) -> bool {
        false
    }
    fn timeout(&self) -> Duration {
        Duration::from_secs(600)
    }
    fn run(&mut self, i: usize) -> CaseResult {
        let scratch = self.scratch.get_or_insert_with(|| Scratch::new("c16"));
        let c = self.cases[i].clone();
        let bin = zydeco_bin();
        let mut r = CaseResult::ok(format!("{}", c.cmd.join("-"))).key(hash64(&format!("{:?}", c)));
        let mut outs: Vec<(String, (Vec<u8>, Vec<u8>, Option<i32>))> = vec![];
        let instances: Vec<(u64, bool)> = (0..self.seeds).map(|s| (s, false)).chain([(0, true)]).collect();
        for (seed, no_aslr) in instances {
            // fmt rewrites its file: always work on a fresh copy
            let target: PathBuf = if let Some(text) = &c.inline {
                scratch.write(c.file.to_str().unwrap(), text)
            } else if c.cmd[0] == "fmt" {
                let text = std::fs::read_to_string(&c.file).unwrap_or_default();
                scratch.write(&format!("copy.{}", c.file.extension().and_then(|e| e.to_str()).unwrap_or("zy")), &text)
            } else {
                c.file.clone()
            };
            let mut args: Vec<String> = c.cmd.iter().map(|s| s.to_string()).collect();
            args.push(target.to_string_lossy().to_string());
            let Some(mut out) = run_once(&bin, &args, seed, no_aslr, &scratch.dir) else {
                r = r.violation("zydeco process did not finish within 60 s", format!("{:?}", args));
                return r;
            };
            if c.cmd[0] == "fmt" {
                // the formatted file content is part of the output
                out.0.extend(std::fs::read(&target).unwrap_or_default());
            }
            outs.push((format!("seed {seed}{}", if no_aslr { " no-aslr" } else { "" }), out));
        }
        // a panicking process prints its OS thread id: mask it (the panic itself is C10's business)
        for o in outs.iter_mut() {
            let text = String::from_utf8_lossy(&o.1.1).to_string();
            if text.contains("panicked at") {
                let mut masked = String::new();
                let mut rest = text.as_str();
                while let Some(i) = rest.find("' (") {
                    let (a, b) = rest.split_at(i + 3);
                    masked.push_str(a);
                    let digits = b.chars().take_while(|c| c.is_ascii_digit()).count();
                    masked.push_str("TID");
                    rest = &b[digits..];
                }
                masked.push_str(rest);
                o.1.1 = masked.into_bytes();
            }
        }
        r = r.count("processes", outs.len() as u64);
        let first = &outs[0];
        r.nontrivial = !(first.1.0.is_empty() && first.1.1.is_empty());
        if let Some(other) = outs.iter().find(|o| o.1 != first.1) {
            let what = if other.1.2 != first.1.2 {
                "exit status"
            } else if other.1.0 != first.1.0 {
                "stdout"
            } else {
                "stderr"
            };
            let a = String::from_utf8_lossy(if what == "stderr" { &first.1.1 } else { &first.1.0 }).to_string();
            let b = String::from_utf8_lossy(if what == "stderr" { &other.1.1 } else { &other.1.0 }).to_string();
            let diff_line = a.lines().zip(b.lines()).position(|(x, y)| x != y).unwrap_or(0);
            r = r.violation(
                format!("`zydeco {}` {} differs between process instances", c.cmd.join(" "), what),
                format!(
                    "{} vs {}: first differing line {}:\n  {:?}\n  {:?}\nfile {}",
                    first.0,
                    other.0,
                    diff_line + 1,
                    a.lines().nth(diff_line).unwrap_or(""),
                    b.lines().nth(diff_line).unwrap_or(""),
                    c.file.display()
                ),
            );
        }
        r
    }
}

/// In-process variant: blocks with an error injected into every contribution (all shapes of three
/// contributions that contain a recursive group of sealed types), analysed under several hash seeds on
/// fresh threads; the rendered diagnostics must be identical.
pub struct Diagnostics {
    shapes: Vec<crate::c08lang::Shape>,
    seeds: u64,
}
impl Diagnostics {
    pub fn new(tier: Tier) -> Self {
        use crate::c08lang::{Kind, shapes};
        let mut sh: Vec<crate::c08lang::Shape> = shapes(3).into_iter().filter(|s| s.cyclic_nodes().len() >= 2 && s.cyclic_nodes().iter().all(|k| s.kinds[*k] == Kind::Sealed)).collect();
        if tier == Tier::Quick {
            sh = sh.into_iter().step_by(3).collect();
        }
        Diagnostics { shapes: sh, seeds: if tier == Tier::Thorough { 16 } else { 6 } }
    }
}
impl Check for Diagnostics {
    fn property(&self) -> &'static str {
        "C16"
    }
    fn name(&self) -> String {
        "c16-diagnostics".into()
    }
    fn len(&self) -> usize {
        self.shapes.len()
    }
    fn describe(&self, i: usize) -> String {
        let sh = &self.shapes[i];
        format!("every permutation of this block (an error injected into every contribution), analysed under hash seeds 0..{}:\n{}", self.seeds, sh.program_with_errors(&(0..sh.kinds.len()).collect::<Vec<_>>()))
    }
    fn rule(&self) -> String {
        format!("all blocks of 3 contributions (C08's shape enumeration) that contain a recursive group of >= 2 sealed types ({} shapes), with a type error injected into every contribution, in every permutation; each analysed in-process on a fresh thread under hash seeds 0..{} (getrandom interposer); oracle: verdict and rendered diagnostics (messages and spans, in order) identical across seeds; non-trivial = every shape", self.shapes.len(), self.seeds)
    }
    fn run(&mut self, i: usize) -> CaseResult {
        let sh = self.shapes[i].clone();
        let mut r = CaseResult::ok("shape").nontrivial(true).key(hash64(&format!("{:?}", sh)));
        for order in crate::c08lang::permutations(sh.kinds.len()) {
            let text = sh.program_with_errors(&order);
            let mut first: Option<String> = None;
            for seed in 0..self.seeds {
                let t = text.clone();
                let out = crate::seed::with_seed(seed * 31 + 5, move || {
                    let scratch = Scratch::new(&format!("c16d{}", seed));
                    let path = scratch.write("main.zydeco", &t);
                    let session = zydeco_session::CompilerSession::default();
                    let o = crate::front::front_end(&session, &path);
                    format!("{:?}\n{}", o.verdict.map(|v| v.tag().to_string()), o.rendered.replace(&scratch.dir.display().to_string(), "DIR"))
                });
                r = r.count("analyses", 1);
                match out {
                    | Ok(o) => match &first {
                        | None => first = Some(o),
                        | Some(f) if *f != o => {
                            let line = f.lines().zip(o.lines()).position(|(a, b)| a != b).unwrap_or(0);
                            r = r.violation(
                                "diagnostics of a multi-error block differ between hash seeds",
                                format!("seed 0 vs seed {}: first differing line {}:\n  {:?}\n  {:?}\n{}", seed, line + 1, f.lines().nth(line), o.lines().nth(line), text),
                            );
                            break;
                        }
                        | _ => {}
                    },
                    | Err(e) => {
                        r = r.violation("analysis thread died", e);
                        break;
                    }
                }
            }
        }
        r
    }
}

/// Process level: ill-typed programs of many different error kinds (the single-site mutants of the
/// System-F / F-omega universe that the reference checker rejects), each checked by the real binary under several hash
/// seeds; exit status and output must be identical. (An in-process variant was a false alarm: identifiers
/// derived from the process-wide key-space counter, and the order of reports keyed by them, depend on how many
/// analyses the process has run before — which differs between successive analyses in one worker, not
/// between process instances.)
/// programs rejected by the coverage pass whose diagnostic lists SEVERAL things: a comatch missing
/// two or more destructors / repeating two or more, a match missing two or more constructors, nested
/// gaps, and two such eliminations in one program
fn coverage_rejections() -> Vec<String> {
    let pre = "begin\n  let Ret = @(intrinsic(ret)) that\n  let Thk = @(intrinsic(thk)) that\n  let Unit = @(intrinsic(unit)) that\n  let Int64 = @(intrinsic(i64)) that\n  let Obj = codata | .open : Ret Int64 | .close : Ret Int64 | .quit : Ret Int64 | .sync : Ret Int64 end that\n  let Col = data | +Red : Unit | +Green : Unit | +Blue : Unit | +Cyan : Unit | +Pink : Unit end that\n  let Two = data | +L : Col | +R : Col end that\n";
    let dtors = ["open", "close", "quit", "sync"];
    let ctors = ["Red", "Green", "Blue", "Cyan", "Pink"];
    let mut out = vec![];
    // comatches supplying every subset of at most two destructors (two or more missing), in both orders
    for mask in 0u32..16 {
        if mask.count_ones() > 2 {
            continue;
        }
        let chosen: Vec<&str> = (0..4).filter(|i| mask >> i & 1 == 1).map(|i| dtors[i]).collect();
        for rev in [false, true] {
            if rev && chosen.len() < 2 {
                continue;
            }
            let mut c = chosen.clone();
            if rev {
                c.reverse();
            }
            let arms: String = c.iter().map(|d| format!(" | .{d} => ret 1")).collect();
            out.push(format!("{pre}  let o : Thk Obj = {{ comatch{arms} end }} in\n  ! o .open\nend\n"));
        }
    }
    // comatches repeating two or three destructors
    for dup in [vec!["open", "close"], vec!["quit", "open", "sync"], vec!["sync", "quit"]] {
        let mut arms: String = dtors.iter().map(|d| format!(" | .{d} => ret 1")).collect();
        for d in &dup {
            arms.push_str(&format!(" | .{d} => ret 2"));
        }
        out.push(format!("{pre}  let o : Thk Obj = {{ comatch{arms} end }} in\n  ! o .open\nend\n"));
    }
    // matches covering every subset of at most three of five constructors
    for mask in 0u32..32 {
        if mask.count_ones() > 3 {
            continue;
        }
        let arms: String = (0..5).filter(|i| mask >> i & 1 == 1).map(|i| format!(" | +{}() => ret {}", ctors[i], i)).collect();
        out.push(format!("{pre}  let c : Col = +Red() in\n  match c{arms} end\nend\n"));
    }
    // nested gaps and two eliminations with gaps in one program
    out.push(format!("{pre}  let t : Two = +L(+Red()) in\n  match t | +L(+Red()) => ret 1 | +R(+Blue()) => ret 2 end\nend\n"));
    out.push(format!("{pre}  let c : Col = +Red() in\n  let o : Thk Obj = {{ comatch | .open => match c | +Red() => ret 1 end end }} in\n  do x <- match c | +Blue() => ret 2 | +Pink() => ret 3 end;\n  ! o .open\nend\n"));
    out
}

pub struct RejectedPrograms {
    texts: Vec<String>,
    seeds: u64,
    chunk: usize,
}
impl RejectedPrograms {
    pub fn new(tier: Tier) -> Self {
        let stride = if tier == Tier::Thorough { 8 } else { 40 };
        let mut texts = coverage_rejections();
        let mut k = 0usize;
        // thorough: the universe is several times larger; keep the number of fresh processes bounded
        // (every program-th program, then every 8th rejected mutant)
        let uni = crate::poly::universe(tier);
        let every = if tier == Tier::Thorough { (uni.len() / 12_000).max(1) } else { 1 };
        for p in uni.into_iter().step_by(every) {
            for (_, m) in crate::poly::mutants(&p) {
                if crate::poly::synth_c(&crate::poly::Scope::default(), &m).is_err() {
                    if k % stride == 0 {
                        texts.push(crate::poly::program(&m, false));
                    }
                    k += 1;
                }
            }
        }
        RejectedPrograms { texts, seeds: if tier == Tier::Thorough { 6 } else { 3 }, chunk: 8 }
    }
}
impl Check for RejectedPrograms {
    fn property(&self) -> &'static str {
        "C16"
    }
    fn name(&self) -> String {
        "c16-rejected-programs".into()
    }
    fn len(&self) -> usize {
        self.texts.len().div_ceil(self.chunk)
    }
    fn describe(&self, i: usize) -> String {
        format!("ill-typed programs #{}.. analysed under hash seeds 0..{}; first:\n{}", i * self.chunk, self.seeds, self.texts[i * self.chunk])
    }
    fn rule(&self) -> String {
        format!("every {}th single-site mutant of the System-F / F-omega universe that the reference checker rejects ({} programs: wrong variable, wrong type argument, wrong annotation, wrong package witness, escaping abstract type) plus 53 programs the coverage pass rejects with a diagnostic that lists several things (comatches missing or repeating two or more of four destructors, matches missing two or more of five constructors, nested gaps, two gaps in one program), each checked by the real zydeco binary, one fresh process per (program, hash seed 0..{}) under the getrandom interposer; oracle: exit status, stdout and stderr byte-identical across instances; non-trivial = every chunk", if self.seeds > 3 { 8 } else { 40 }, self.texts.len(), self.seeds)
    }
    fn run(&mut self, i: usize) -> CaseResult {
        let a = i * self.chunk;
        let b = (a + self.chunk).min(self.texts.len());
        let mut r = CaseResult::ok("chunk").nontrivial(true).key(i as u64);
        let bin = zydeco_bin();
        let scratch = Scratch::new("c16r");
        for text in &self.texts[a..b] {
            let _ = scratch.write("main.zydeco", text);
            let args = vec!["check".to_string(), "main.zydeco".to_string()];
            let mut first: Option<(Vec<u8>, Vec<u8>, Option<i32>)> = None;
            for seed in 0..self.seeds {
                r = r.count("processes", 1);
                match run_once(&bin, &args, seed * 17 + 3, false, &scratch.dir) {
                    | None => {
                        r = r.violation("MACHINERY: the zydeco process could not be run".to_string(), text.clone());
                        break;
                    }
                    | Some(o) => match &first {
                        | None => first = Some(o),
                        | Some(f) if *f != o => {
                            let fa = String::from_utf8_lossy(&f.1).to_string();
                            let fb = String::from_utf8_lossy(&o.1).to_string();
                            let line = fa.lines().zip(fb.lines()).position(|(x, y)| x != y).unwrap_or(0);
                            r = r.violation("diagnostics of an ill-typed program differ between process instances", format!("seed 0 vs seed {}: exit {:?} vs {:?}; first differing stderr line {}:\n  {:?}\n  {:?}\n{}", seed, f.2, o.2, line + 1, fa.lines().nth(line), fb.lines().nth(line), text));
                            break;
                        }
                        | _ => {}
                    },
                }
            }
        }
        r
    }
}

/// Process level: a value of one transparent data (codata) type used at another one that shares
/// its constructor (destructor) names but disagrees in one, two or three arms: which disagreement is
/// reported, and everything else printed, must not depend on the process instance.
pub struct StructuralMismatches {
    texts: Vec<String>,
    seeds: u64,
    chunk: usize,
}
impl StructuralMismatches {
    pub fn new(tier: Tier) -> Self {
        let tys = ["Unit", "Int64", "String"];
        let mut texts = vec![];
        // all pairs of three-arm types over three payload / result types that differ in at least one arm
        for a in 0..27usize {
            for b in 0..27usize {
                if a == b {
                    continue;
                }
                let pa: Vec<&str> = (0..3).map(|i| tys[a / 3usize.pow(i) % 3]).collect();
                let pb: Vec<&str> = (0..3).map(|i| tys[b / 3usize.pow(i) % 3]).collect();
                let pre = "let Ret = @(intrinsic(ret)) in let Thk = @(intrinsic(thk)) in let Unit = @(intrinsic(unit)) in let Int64 = @(intrinsic(i64)) in let String = @(intrinsic(string)) in ";
                texts.push(format!(
                    "{pre}let Shape = data | +Circle : {} | +Square : {} | +Empty : {} end in let Figure = data | +Circle : {} | +Square : {} | +Empty : {} end in let f : Thk (Shape -> Ret Int64) = {{ fn s => ret 0 }} in let g : Thk (Figure -> Ret Int64) = f in ret 0",
                    pa[0], pa[1], pa[2], pb[0], pb[1], pb[2]
                ));
                texts.push(format!(
                    "{pre}let Obj = codata | .area : Ret {} | .side : Ret {} | .name : Ret {} end in let Thing = codata | .area : Ret {} | .side : Ret {} | .name : Ret {} end in let f : Thk (Thk Obj -> Ret Int64) = {{ fn o => ret 0 }} in let g : Thk (Thk Thing -> Ret Int64) = f in ret 0",
                    pa[0], pa[1], pa[2], pb[0], pb[1], pb[2]
                ));
            }
        }
        if tier == Tier::Quick {
            texts = texts.into_iter().step_by(2).collect();
        }
        StructuralMismatches { texts, seeds: if tier == Tier::Thorough { 8 } else { 5 }, chunk: 8 }
    }
}
impl Check for StructuralMismatches {
    fn property(&self) -> &'static str {
        "C16"
    }
    fn name(&self) -> String {
        "c16-structural-mismatches".into()
    }
    fn len(&self) -> usize {
        self.texts.len().div_ceil(self.chunk)
    }
    fn describe(&self, i: usize) -> String {
        format!("programs #{}.. under hash seeds 0..{}; first:\n{}", i * self.chunk, self.seeds, self.texts[i * self.chunk])
    }
    fn rule(&self) -> String {
        format!("all ordered pairs of distinct three-arm transparent data types (and of three-destructor codata types) with the same constructor / destructor names and payload / result types from {{Unit, Int64, String}}, a function over one used at the other (every second pair in the quick tier: {} programs, disagreeing in 1..3 arms), each checked by the real zydeco binary in a fresh process per hash seed 0..{}; oracle: exit status, stdout and stderr byte-identical across instances; non-trivial = every chunk", self.texts.len(), self.seeds)
    }
    fn run(&mut self, i: usize) -> CaseResult {
        let a = i * self.chunk;
        let b = (a + self.chunk).min(self.texts.len());
        let mut r = CaseResult::ok("chunk").nontrivial(true).key(i as u64);
        let bin = zydeco_bin();
        let scratch = Scratch::new("c16s");
        for text in &self.texts[a..b] {
            let _ = scratch.write("main.zydeco", text);
            let args = vec!["check".to_string(), "main.zydeco".to_string()];
            let mut first: Option<(Vec<u8>, Vec<u8>, Option<i32>)> = None;
            for seed in 0..self.seeds {
                r = r.count("processes", 1);
                match run_once(&bin, &args, seed * 13 + 1, false, &scratch.dir) {
                    | None => {
                        r = r.violation("MACHINERY: the zydeco process could not be run".to_string(), text.clone());
                        break;
                    }
                    | Some(o) => match &first {
                        | None => first = Some(o),
                        | Some(f) if *f != o => {
                            let fa = String::from_utf8_lossy(&f.1).to_string();
                            let fb = String::from_utf8_lossy(&o.1).to_string();
                            let line = fa.lines().zip(fb.lines()).position(|(x, y)| x != y).unwrap_or(0);
                            r = r.violation("the type error reported for structurally compared types differs between process instances", format!("seed 0 vs seed {}: exit {:?} vs {:?}; first differing stderr line {}:\n  {:?}\n  {:?}\n{}", seed, f.2, o.2, line + 1, fa.lines().nth(line), fb.lines().nth(line), text));
                            break;
                        }
                        | _ => {}
                    },
                }
            }
        }
        r
    }
}

pub fn checks(tier: Tier) -> Vec<Box<dyn Check>> {
    vec![Box::new(Determinism::new(tier)), Box::new(Diagnostics::new(tier)), Box::new(RejectedPrograms::new(tier)), Box::new(StructuralMismatches::new(tier))]
}
