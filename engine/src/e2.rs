//! E2 — reference machine for the first-order stack-passing IR (`SpsLowProgram`), written in the
//! harness from the IR's documented meaning. Products are flat arrays laid out per the
//! `ProductLayout` carried by each `VCons` value and pattern; blocks run with an environment that
//! contains only their own label; host operations are the repository's own (`BuiltinRuntime::invoke`
//! reached through a `Computation::Prim` step).
use crate::prim::{Shape, decode, marker};
use crate::subject::guarded;
use std::collections::HashMap;
use std::rc::Rc;
use zydeco_dynamics::{
    Eval, ProgKont, Runtime, Step,
    syntax::{Computation as DynCompu, DynamicsProgram, Prim, SemCompu, SemValue, Value as DynValue},
};
use zydeco_stackir::sps_low::syntax::*;
use zydeco_stackir::SpsLowProgram;

#[derive(Clone, Debug)]
pub enum MV {
    Unit,
    Lit(Literal),
    Ctor(usize, String, Rc<MV>),
    Tuple(Rc<Vec<MV>>),
    Code(DefId, CompuId),
    Closure(Rc<MV>, Rc<MV>),
    /// the code of the program's outermost continuation
    TopCode,
}

#[derive(Clone, Debug)]
pub enum MStack {
    Top,
    Arg(MV, Rc<MStack>),
    Tag(usize, String, Rc<MStack>),
    Kont(MV, Rc<MStack>),
}

#[derive(Clone, Debug, PartialEq)]
pub enum MEnd {
    Ret(String),
    Exit(i32),
    Trap(String),
    OutOfFuel,
    Stuck(String),
    /// a construct this machine does not model (never a verdict)
    Unsupported(String),
}

pub struct MResult {
    pub end: MEnd,
    pub output: Vec<u8>,
    pub steps: u64,
}

pub fn show_mv(v: &MV) -> String {
    match v {
        | MV::Unit => "()".into(),
        | MV::Lit(l) => format!("{:?}", l),
        | MV::Ctor(_, name, payload) => format!("{}({})", name, show_mv(payload)),
        | MV::Tuple(items) => {
            let mut parts: Vec<String> = vec![];
            for (i, it) in items.iter().enumerate() {
                let s = show_mv(it);
                if i + 1 == items.len() && matches!(it, MV::Tuple(_)) {
                    parts.push(s[1..s.len() - 1].to_string());
                } else {
                    parts.push(s);
                }
            }
            format!("({})", parts.join(","))
        }
        | MV::Code(..) | MV::Closure(..) | MV::TopCode => "<thunk>".into(),
    }
}

type Env = im::HashMap<DefId, MV>;

pub struct Machine<'p> {
    prog: &'p SpsLowProgram,
    roles: HashMap<String, BuiltinValueRole>,
    closures: Vec<MV>,
    pub fuel: u64,
}

enum Halt {
    End(MEnd),
}

fn stuck<T>(s: impl Into<String>) -> Result<T, Halt> {
    Err(Halt::End(MEnd::Stuck(s.into())))
}

impl<'p> Machine<'p> {
    pub fn new(prog: &'p SpsLowProgram, fuel: u64) -> Self {
        let roles = BuiltinValueRole::all().map(|r| (r.host_name(), r)).collect();
        Machine { prog, roles, closures: vec![], fuel }
    }

    fn value(&self, id: ValueId, env: &Env) -> Result<MV, Halt> {
        let arena = &self.prog.arena().inner;
        Ok(match &arena.values[&id] {
            | Value::Hole(_) => return stuck("hole value"),
            | Value::Var(d) => match env.get(d) {
                | Some(v) => v.clone(),
                | None => return stuck(format!("unbound variable {:?} (a block that captures implicitly?)", d)),
            },
            | Value::Block(Block { label, body }) => MV::Code(*label, *body),
            | Value::ClosurePackage(ClosurePackage { environment, code }) => {
                MV::Closure(Rc::new(self.value(*environment, env)?), Rc::new(self.value(*code, env)?))
            }
            | Value::Ctor(Ctor(CtorIdx { idx, name }, body)) => MV::Ctor(*idx, name.0.clone(), Rc::new(self.value(*body, env)?)),
            | Value::Triv(_) => MV::Unit,
            | Value::VCons(VCons { items: ConsN(items, tail), layout }) => {
                let mut fields: Vec<MV> = vec![];
                for it in items {
                    fields.push(self.value(*it, env)?);
                }
                let last = self.value(*tail, env)?;
                let logical = items.len() + 1;
                if logical == layout.arity {
                    fields.push(last);
                } else if logical < layout.arity {
                    // the last logical item contributes the remaining physical fields
                    match last {
                        | MV::Tuple(rest) if fields.len() + rest.len() == layout.arity => fields.extend(rest.iter().cloned()),
                        | other => {
                            return stuck(format!(
                                "product layout mismatch: constructor with {} items and arity {} whose last item is {}",
                                logical,
                                layout.arity,
                                show_mv(&other)
                            ));
                        }
                    }
                } else {
                    return stuck("product constructor with more items than its arity");
                }
                MV::Tuple(Rc::new(fields))
            }
            | Value::Literal(l) => MV::Lit(l.clone()),
            | Value::Complex(c) => return Err(Halt::End(MEnd::Unsupported(format!("complex operator {}", c.operator)))),
        })
    }

    fn stack(&self, id: StackId, env: &Env, ambient: &Rc<MStack>) -> Result<Rc<MStack>, Halt> {
        let arena = &self.prog.arena().inner;
        Ok(match &arena.stacks[&id] {
            | Stack::Var(_) => ambient.clone(),
            | Stack::Arg(Cons(v, s)) => Rc::new(MStack::Arg(self.value(*v, env)?, self.stack(*s, env, ambient)?)),
            | Stack::Tag(Cons(DtorIdx { idx, name }, s)) => Rc::new(MStack::Tag(*idx, name.0.clone(), self.stack(*s, env, ambient)?)),
            | Stack::ContinuationPackage(ContinuationPackage { code, residual }) => {
                Rc::new(MStack::Kont(self.value(*code, env)?, self.stack(*residual, env, ambient)?))
            }
        })
    }

    /// Bind a pattern. Ok(None) = refutable mismatch (only constructors can mismatch).
    fn bind(&self, id: VPatId, v: &MV, env: &mut Env) -> Result<bool, Halt> {
        let arena = &self.prog.arena().inner;
        match &arena.vpats[&id] {
            | ValuePattern::Hole(_) => Ok(true),
            | ValuePattern::Var(d) => {
                env.insert(*d, v.clone());
                Ok(true)
            }
            | ValuePattern::Ctor(Ctor(CtorIdx { idx, .. }, body)) => match v {
                | MV::Ctor(i, _, payload) => {
                    if i == idx {
                        self.bind(*body, payload, env)
                    } else {
                        Ok(false)
                    }
                }
                | other => stuck(format!("constructor pattern against {}", show_mv(other))),
            },
            | ValuePattern::Alias(Alias(ConsN(items, tail))) => {
                for p in items.iter().chain([tail]) {
                    if !self.bind(*p, v, env)? {
                        return Ok(false);
                    }
                }
                Ok(true)
            }
            | ValuePattern::Triv(_) => match v {
                | MV::Unit => Ok(true),
                | other => stuck(format!("unit pattern against {}", show_mv(other))),
            },
            | ValuePattern::VCons(VCons { items: ConsN(items, tail), layout }) => {
                let MV::Tuple(fields) = v else { return stuck(format!("product pattern against {}", show_mv(v))) };
                if fields.len() != layout.arity {
                    return stuck(format!("product layout mismatch: pattern arity {} against a value with {} fields", layout.arity, fields.len()));
                }
                let logical = items.len() + 1;
                if logical > layout.arity {
                    return stuck("product pattern with more items than its arity");
                }
                for (k, p) in items.iter().enumerate() {
                    if !self.bind(*p, &fields[k], env)? {
                        return Ok(false);
                    }
                }
                let rest = if logical == layout.arity { fields[items.len()].clone() } else { MV::Tuple(Rc::new(fields[items.len()..].to_vec())) };
                self.bind(*tail, &rest, env)
            }
        }
    }

    fn to_sem(&mut self, v: &MV) -> Result<SemValue, Halt> {
        Ok(match v {
            | MV::Unit => SemValue::Triv(Triv),
            | MV::Lit(l) => SemValue::Literal(l.clone()),
            | MV::Closure(..) => {
                self.closures.push(v.clone());
                marker(self.closures.len() as i64 - 1)
            }
            | MV::Ctor(_, name, payload) => SemValue::Ctor(Ctor(CtorName(name.clone()), Box::new(self.to_sem(payload)?))),
            | MV::Tuple(items) => {
                let mut sems = vec![];
                for it in items.iter() {
                    sems.push(self.to_sem(it)?);
                }
                let last = sems.pop().unwrap();
                SemValue::VCons(ConsN(sems, Box::new(last)))
            }
            | MV::Code(..) | MV::TopCode => return stuck("bare code value passed to a host operation"),
        })
    }

    fn of_sem(&self, v: &SemValue) -> Result<MV, Halt> {
        Ok(match v {
            | SemValue::Triv(_) => MV::Unit,
            | SemValue::Literal(l) => MV::Lit(l.clone()),
            | SemValue::Ctor(Ctor(name, payload)) => return Err(Halt::End(MEnd::Unsupported(format!("host returned constructor {} ({:?})", name.0, payload)))),
            | SemValue::VCons(ConsN(items, tail)) => {
                let mut out = vec![];
                for it in items {
                    out.push(self.of_sem(it)?);
                }
                out.push(self.of_sem(tail)?);
                MV::Tuple(Rc::new(out))
            }
            | SemValue::Thunk(_) => match crate::prim::marker_id(v) {
                | Some(k) => self.closures[k as usize].clone(),
                | None => return stuck("host returned an unknown thunk"),
            },
            | other => return Err(Halt::End(MEnd::Unsupported(format!("host value {:?}", other)))),
        })
    }

    pub fn run(mut self, stdin: &[u8], argv: &[String]) -> MResult {
        let mut input = std::io::Cursor::new(stdin.to_vec());
        let mut output: Vec<u8> = Vec::new();
        let mut steps = 0u64;
        let end = {
            let dummy = DynamicsProgram { defs: Default::default(), root: Rc::new(DynCompu::Ret(Return(Rc::new(DynValue::Triv(Triv))))) };
            let mut rt = Runtime::new(&mut input, &mut output, argv, dummy);
            match self.exec(&mut rt, &mut steps) {
                | Ok(end) => end,
                | Err(Halt::End(end)) => end,
            }
        };
        MResult { end, output, steps }
    }

    fn force(&self, closure: &MV, stack: Rc<MStack>) -> Result<(CompuId, Env, Rc<MStack>), Halt> {
        let MV::Closure(envv, code) = closure else { return stuck(format!("force of non-closure {}", show_mv(closure))) };
        let stack = Rc::new(MStack::Arg((**envv).clone(), stack));
        self.jump(code, stack)
    }

    fn jump(&self, code: &MV, stack: Rc<MStack>) -> Result<(CompuId, Env, Rc<MStack>), Halt> {
        match code {
            | MV::Code(label, body) => {
                let mut env = Env::new();
                env.insert(*label, code.clone());
                Ok((*body, env, stack))
            }
            | other => stuck(format!("jump to non-code {}", show_mv(other))),
        }
    }

    fn exec(&mut self, rt: &mut Runtime<'_>, steps: &mut u64) -> Result<MEnd, Halt> {
        let arena = &self.prog.arena().inner;
        let mut cur = self.prog.root();
        let mut env = Env::new();
        let mut ambient: Rc<MStack> = Rc::new(MStack::Top);
        loop {
            if *steps >= self.fuel {
                return Ok(MEnd::OutOfFuel);
            }
            *steps += 1;
            match arena.compus[&cur].clone() {
                | Computation::Hole(_) => return stuck("hole computation"),
                | Computation::Jump(Jump { target, stack }) => {
                    let t = self.value(target, &env)?;
                    let s = self.stack(stack, &env, &ambient)?;
                    if matches!(t, MV::TopCode) {
                        // returning to the outermost continuation: the stack is `Arg(v) :: Top`
                        return match s.as_ref() {
                            | MStack::Arg(v, rest) if matches!(rest.as_ref(), MStack::Top) => Ok(MEnd::Ret(show_mv(v))),
                            | _ => stuck("return to the top-level continuation with a malformed stack"),
                        };
                    }
                    let (c, e, s) = self.jump(&t, s)?;
                    cur = c;
                    env = e;
                    ambient = s;
                }
                | Computation::ProductMatch(SProductMatch { scrut, binder, body }) => {
                    let v = self.value(scrut, &env)?;
                    if !self.bind(binder, &v, &mut env)? {
                        return stuck("irrefutable product match failed");
                    }
                    cur = body;
                }
                | Computation::CoprodMatch(SCoprodMatch { scrut, arms }) => {
                    let v = self.value(scrut, &env)?;
                    let mut taken = None;
                    for Matcher { binder, tail } in &arms {
                        let mut e2 = env.clone();
                        if self.bind(*binder, &v, &mut e2)? {
                            taken = Some((e2, *tail));
                            break;
                        }
                    }
                    match taken {
                        | Some((e2, tail)) => {
                            env = e2;
                            cur = tail;
                        }
                        | None => return stuck(format!("no coproduct arm matches {}", show_mv(&v))),
                    }
                }
                | Computation::LetValue(LetValue { binder, bindee, body }) => {
                    let v = self.value(bindee, &env)?;
                    if !self.bind(binder, &v, &mut env)? {
                        return stuck("irrefutable value let failed");
                    }
                    cur = body;
                }
                | Computation::LetStack(LetStack { bindee, body }) => {
                    ambient = self.stack(bindee, &env, &ambient)?;
                    cur = body;
                }
                | Computation::LetArg(LetArg { binder, bindee, body }) => {
                    let s = self.stack(bindee, &env, &ambient)?;
                    match s.as_ref() {
                        | MStack::Arg(v, rest) => {
                            if !self.bind(binder, v, &mut env)? {
                                return stuck("irrefutable argument pattern failed");
                            }
                            ambient = rest.clone();
                            cur = body;
                        }
                        | other => return stuck(format!("let-arg on a stack without an argument on top: {:?}", std::mem::discriminant(other))),
                    }
                }
                | Computation::CoCase(SCoMatch { scrut, arms }) => {
                    let s = self.stack(scrut, &env, &ambient)?;
                    match s.as_ref() {
                        | MStack::Tag(idx, name, rest) => {
                            let arm = arms.iter().find(|a| a.dtor.0.idx == *idx);
                            match arm {
                                | Some(a) => {
                                    if a.dtor.0.name.0 != *name {
                                        return stuck(format!("destructor tag {} selects arm named {} but the observation is {}", idx, a.dtor.0.name.0, name));
                                    }
                                    ambient = rest.clone();
                                    cur = a.tail;
                                }
                                | None => return stuck(format!("no comatch arm for tag {} ({})", idx, name)),
                            }
                        }
                        | _ => return stuck("cocase on a stack without a destructor tag on top"),
                    }
                }
                | Computation::OpenClosure(OpenClosure { package, environment, code, body }) => {
                    let v = self.value(package, &env)?;
                    let MV::Closure(envv, codev) = &v else { return stuck(format!("open-closure of {}", show_mv(&v))) };
                    if !self.bind(environment, envv, &mut env)? || !self.bind(code, codev, &mut env)? {
                        return stuck("open-closure patterns failed");
                    }
                    cur = body;
                }
                | Computation::OpenContinuation(OpenContinuation { package, code, body }) => {
                    let s = self.stack(package, &env, &ambient)?;
                    match s.as_ref() {
                        | MStack::Kont(codev, residual) => {
                            if !self.bind(code, codev, &mut env)? {
                                return stuck("open-continuation pattern failed");
                            }
                            ambient = residual.clone();
                            cur = body;
                        }
                        | MStack::Top => {
                            if !self.bind(code, &MV::TopCode, &mut env)? {
                                return stuck("open-continuation pattern failed");
                            }
                            ambient = Rc::new(MStack::Top);
                            cur = body;
                        }
                        | _ => return stuck("return to a stack whose top is not a continuation"),
                    }
                }
                | Computation::ExternCall(ExternCall { function, stack }) => {
                    let Some(role) = self.roles.get(&function).copied() else { return stuck(format!("extern `{function}` is not a builtin")) };
                    let mut s = self.stack(stack, &env, &ambient)?;
                    let mut args: Vec<SemValue> = vec![];
                    for _ in 0..role.arity() {
                        match s.clone().as_ref() {
                            | MStack::Arg(v, rest) => {
                                args.push(self.to_sem(v)?);
                                s = rest.clone();
                            }
                            | _ => return stuck(format!("extern `{function}` needs {} arguments", role.arity())),
                        }
                    }
                    // run the repository's host implementation through the interpreter's Prim step
                    let before = rt.stack.len();
                    for a in args.into_iter().rev() {
                        rt.stack.push_back(SemCompu::App(a));
                    }
                    let c = DynCompu::Prim(Prim { arity: role.arity() as u64, role });
                    let r = guarded(|| c.step(rt));
                    while rt.stack.len() > before {
                        rt.stack.pop_back();
                    }
                    let shape = match r {
                        | Ok(Step::Step(c)) => decode(&c),
                        | Ok(Step::Done(ProgKont::ExitCode(code))) => Shape::Exit(code),
                        | Ok(Step::Done(other)) => Shape::Other(format!("{:?}", other)),
                        | Err(p) => return Ok(MEnd::Trap(p.msg)),
                    };
                    match shape {
                        | Shape::Exit(code) => return Ok(MEnd::Exit(code)),
                        | Shape::Ret(v) => {
                            let v = self.of_sem(&v)?;
                            match s.as_ref() {
                                | MStack::Kont(codev, residual) => {
                                    let st = Rc::new(MStack::Arg(v, residual.clone()));
                                    let (c, e, st) = self.jump(codev, st)?;
                                    cur = c;
                                    env = e;
                                    ambient = st;
                                }
                                | MStack::Top => return Ok(MEnd::Ret(show_mv(&v))),
                                | _ => return stuck("host operation returns to a stack whose top is not a continuation"),
                            }
                        }
                        | Shape::Call(k, cargs) => {
                            let Some(closure) = self.closures.get(k as usize).cloned() else { return stuck("host selected an unknown closure") };
                            let mut st = s;
                            for a in cargs.iter().rev() {
                                st = Rc::new(MStack::Arg(self.of_sem(a)?, st));
                            }
                            let (c, e, st) = self.force(&closure, st)?;
                            cur = c;
                            env = e;
                            ambient = st;
                        }
                        | Shape::Other(o) => return Err(Halt::End(MEnd::Unsupported(format!("host result shape {o}")))),
                    }
                }
            }
        }
    }
}
