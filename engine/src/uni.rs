//! The program universe U(n): enumerated profiles + schema instances, and the shared case driver.
use crate::common::Tier;
use crate::genr::*;
use crate::lang::*;
use crate::print::{self, Cfg};
use crate::subject::*;

#[derive(Clone)]
pub struct Prog {
    pub origin: String,
    pub root: CT,
    pub body: C,
    pub stdin: &'static [u8],
}

pub fn universe(tier: Tier) -> Vec<Prog> {
    let mut out = vec![];
    for prof in profiles(tier == Tier::Thorough) {
        let g = Gen::new(prof.menu.clone());
        for root in &prof.roots {
            for body in g.programs(root, prof.size) {
                out.push(Prog { origin: prof.name.to_string(), root: root.clone(), body, stdin: b"" });
            }
        }
    }
    out.extend(crate::schema::instances(tier));
    // Ret-rooted programs that use host operations have no public lowering path (the executable
    // contract wants an OS result): give them an OS root that prints the result and exits.
    for p in out.iter_mut() {
        if p.root == ret(VT::Int) && uses_exec(&p.body) {
            let x: Var = 9_999;
            let body = std::mem::replace(&mut p.body, C::Exit(V::Int(0)));
            p.body = C::Do(Pat::Var(x, VT::Int), Box::new(body), Box::new(C::WriteInt(V::Var(x), Box::new(C::Exit(V::Int(0))))));
            p.root = CT::Os;
        }
    }
    out
}

pub struct Evaluated {
    pub text: String,
    pub verdict: Verdict,
    pub run: Option<RunResult>,
    pub reference: RResult,
    pub front_panic: Option<PanicInfo>,
}

pub const REF_FUEL: u64 = 8_000;
pub const SUBJECT_FUEL: u64 = 60_000;

pub fn evaluate(scratch: &Scratch, prog: &Prog, cfg: &Cfg, run: bool) -> Evaluated {
    let (text, _) = print::program(&prog.body, &prog.root, cfg);
    evaluate_text(scratch, prog, text, run)
}

pub fn evaluate_text(scratch: &Scratch, prog: &Prog, text: String, run: bool) -> Evaluated {
    let path = scratch.write("main.zydeco", &text);
    let reference = Machine::new(REF_FUEL, prog.stdin).run(&prog.body);
    let res = guarded(|| {
        let s = Subject::analyze(&path);
        let v = s.verdict();
        let r = if v.accepted() && run { Some(s.run(prog.stdin, &[], SUBJECT_FUEL)) } else { None };
        (v, r)
    });
    match res {
        | Ok((verdict, run)) => Evaluated { text, verdict, run, reference, front_panic: None },
        | Err(p) => Evaluated { text, verdict: Verdict::Source("panic".into()), run: None, reference, front_panic: Some(p) },
    }
}

/// Is this unwind one of the interpreter's *defined* outcomes?
pub fn defined_trap(p: &PanicInfo) -> bool {
    p.msg == "attempt to divide by zero" || p.msg == "attempt to calculate the remainder with a divisor of zero"
}

/// A host I/O failure surfaced by the legacy standard-stream operations (they have no error
/// continuation): a defined way to stop, about which the reference semantics says nothing.
pub fn host_io_failure(p: &PanicInfo) -> bool {
    p.msg.starts_with("legacy standard-") && p.loc.contains("dynamics/src/impls.rs")
}

/// Compare subject run with reference; None = agree.
pub fn disagreement(run: &RunResult, reference: &RResult) -> Option<String> {
    match (&run.end, &reference.end) {
        | (RunEnd::Panic(p), _) if host_io_failure(p) => None,
        | (_, REnd::Stuck(s)) => Some(format!("HARNESS: reference evaluator stuck: {s}")),
        | (_, REnd::OutOfFuel) => {
            // compare the output prefix only
            let n = reference.output.len().min(run.output.len());
            if matches!(run.end, RunEnd::OutOfFuel) || run.output.len() >= reference.output.len() {
                if run.output[..n] != reference.output[..n] { Some("output prefixes differ on a long-running program".into()) } else { None }
            } else if reference.output.starts_with(&run.output) {
                None
            } else {
                Some("output prefixes differ on a long-running program".into())
            }
        }
        | (RunEnd::OutOfFuel, _) => Some("interpreter still running after 400000 steps where the reference finished".into()),
        | (RunEnd::Ret(a), REnd::Ret(b)) => {
            if a != b {
                Some(format!("returned value differs: interpreter {a}, reference {b}"))
            } else if run.output != reference.output {
                Some("output differs".into())
            } else {
                None
            }
        }
        | (RunEnd::Exit(a), REnd::Exit(b)) => {
            if a != b {
                Some(format!("exit code differs: interpreter {a}, reference {b}"))
            } else if run.output != reference.output {
                Some(format!("output differs: interpreter {:?}, reference {:?}", String::from_utf8_lossy(&run.output), String::from_utf8_lossy(&reference.output)))
            } else {
                None
            }
        }
        | (RunEnd::Panic(p), REnd::TrapDiv) if defined_trap(p) => {
            if run.output != reference.output { Some("output before the arithmetic trap differs".into()) } else { None }
        }
        | (a, b) => Some(format!("outcome differs: interpreter {:?}, reference {:?}", a, b)),
    }
}
