//! Printer: harness AST -> Zydeco source. Precedence follows the LALRPOP grammar (not the
//! repository's pretty printer). Naming strategies implement the reference scoping model:
//! a binder may reuse a name unless that would capture a free occurrence in its scope.
use crate::lang::*;
use std::collections::BTreeSet;

#[derive(Clone, Copy, Debug, PartialEq, Eq)]
pub enum Naming {
    /// every binder gets its own name
    Fresh,
    /// reuse the smallest pool of names that does not capture (maximal shadowing)
    Pool(usize),
    /// name a binder after a type mentioned in its *own annotation* whenever that name is not used
    /// in the binder's scope (an annotation is outside the scope of the binder it annotates)
    TypePun,
}

#[derive(Clone, Debug)]
pub struct Cfg {
    pub naming: Naming,
    /// print nested do/let chains with line breaks
    pub multiline: bool,
}
impl Default for Cfg {
    fn default() -> Self {
        Cfg { naming: Naming::Fresh, multiline: true }
    }
}

const POOL: [&str; 6] = ["x", "y", "z", "w", "u", "t"];

/* ------------------------------- free variables ------------------------------- */

pub fn fv_v(v: &V, out: &mut BTreeSet<Var>) {
    match v {
        | V::Var(x) => {
            out.insert(*x);
        }
        | V::Unit | V::Int(_) | V::Str(_) => {}
        | V::Tuple(vs) => vs.iter().for_each(|v| fv_v(v, out)),
        | V::Named(_, v) | V::Proj(v, _, _) | V::Ctor(_, _, v) => fv_v(v, out),
        | V::Thunk(c, _) => fv_c(c, out),
    }
}
fn without(p: &Pat, body: BTreeSet<Var>) -> BTreeSet<Var> {
    let mut bs = vec![];
    p.binders(&mut bs);
    let mut body = body;
    for (x, _) in bs {
        body.remove(&x);
    }
    body
}
pub fn fv_c(c: &C, out: &mut BTreeSet<Var>) {
    match c {
        | C::Ret(v) | C::Force(v) | C::Exit(v) => fv_v(v, out),
        | C::Do(p, a, b) => {
            fv_c(a, out);
            let mut s = BTreeSet::new();
            fv_c(b, &mut s);
            out.extend(without(p, s));
        }
        | C::Let(p, v, _, b) => {
            fv_v(v, out);
            let mut s = BTreeSet::new();
            fv_c(b, &mut s);
            out.extend(without(p, s));
        }
        | C::Fn(p, b) => {
            let mut s = BTreeSet::new();
            fv_c(b, &mut s);
            out.extend(without(p, s));
        }
        | C::Fix(f, _, b) => {
            let mut s = BTreeSet::new();
            fv_c(b, &mut s);
            s.remove(f);
            out.extend(s);
        }
        | C::Ann(b, _) | C::Dtor(b, _, _) => fv_c(b, out),
        | C::App(f, v) => {
            fv_c(f, out);
            fv_v(v, out);
        }
        | C::Match(v, _, arms) => {
            fv_v(v, out);
            for (p, b) in arms {
                let mut s = BTreeSet::new();
                fv_c(b, &mut s);
                out.extend(without(p, s));
            }
        }
        | C::Comatch(_, arms) => arms.iter().for_each(|a| fv_c(a, out)),
        | C::WriteInt(v, k) | C::WriteLine(v, k) => {
            fv_v(v, out);
            fv_c(k, out);
        }
        | C::Arith(_, a, b) => {
            fv_v(a, out);
            fv_v(b, out);
        }
        | C::IfLt(a, b, _, t, e) | C::IfEq(a, b, _, t, e) => {
            fv_v(a, out);
            fv_v(b, out);
            fv_c(t, out);
            fv_c(e, out);
        }
        | C::ReadLine(x, k) => {
            let mut s = BTreeSet::new();
            fv_c(k, &mut s);
            s.remove(x);
            out.extend(s);
        }
    }
}

/// every identifier that printing `c` would emit in a type position or as a host/declaration name
pub fn type_words_c(c: &C, out: &mut BTreeSet<String>) {
    fn words(s: &str, out: &mut BTreeSet<String>) {
        for w in s.split(|c: char| !c.is_alphanumeric()) {
            if !w.is_empty() {
                out.insert(w.to_string());
            }
        }
    }
    fn pat(p: &Pat, out: &mut BTreeSet<String>) {
        words(&vt(&pat_type(p)), out);
    }
    fn val(v: &V, out: &mut BTreeSet<String>) {
        match v {
            | V::Tuple(vs) => vs.iter().for_each(|v| val(v, out)),
            | V::Named(_, v) | V::Proj(v, _, _) => val(v, out),
            | V::Thunk(c, t) => {
                words(&ct(t), out);
                out.insert("Thk".into());
                type_words_c(c, out);
            }
            | V::Ctor(d, _, v) => {
                out.insert(data_decls()[*d].name.to_string());
                val(v, out);
            }
            | _ => {}
        }
    }
    match c {
        | C::Ret(v) | C::Force(v) | C::Exit(v) => val(v, out),
        | C::Do(p, a, b) => {
            pat(p, out);
            type_words_c(a, out);
            type_words_c(b, out);
        }
        | C::Let(p, v, t, b) => {
            pat(p, out);
            words(&vt(t), out);
            val(v, out);
            type_words_c(b, out);
        }
        | C::Fn(p, b) => {
            pat(p, out);
            type_words_c(b, out);
        }
        | C::Fix(_, t, b) => {
            words(&ct(t), out);
            out.insert("Thk".into());
            type_words_c(b, out);
        }
        | C::Ann(b, t) => {
            words(&ct(t), out);
            type_words_c(b, out);
        }
        | C::Dtor(b, _, _) => type_words_c(b, out),
        | C::App(f, v) => {
            type_words_c(f, out);
            val(v, out);
        }
        | C::Match(v, _, arms) => {
            val(v, out);
            arms.iter().for_each(|(_, b)| type_words_c(b, out));
        }
        | C::Comatch(d, arms) => {
            out.insert(codata_decls()[*d].name.to_string());
            arms.iter().for_each(|a| type_words_c(a, out));
        }
        | C::WriteInt(v, k) | C::WriteLine(v, k) => {
            val(v, out);
            type_words_c(k, out);
        }
        | C::Arith(_, a, b) => {
            val(a, out);
            val(b, out);
        }
        | C::IfLt(a, b, t, x, y) | C::IfEq(a, b, t, x, y) => {
            val(a, out);
            val(b, out);
            words(&ct(t), out);
            type_words_c(x, out);
            type_words_c(y, out);
        }
        | C::ReadLine(_, k) => {
            out.insert("String".into());
            type_words_c(k, out);
        }
    }
}

/* ------------------------------------ types ----------------------------------- */

pub fn vt(t: &VT) -> String {
    match t {
        | VT::Unit => "Unit".into(),
        | VT::Int => "Int64".into(),
        | VT::Str => "String".into(),
        | VT::Data(d) => data_decls()[*d].name.into(),
        | VT::Prod(cs) => cs.iter().map(|c| if matches!(c, VT::Prod(_)) { format!("({})", vt(c)) } else { vt_atom_or_app(c) }).collect::<Vec<_>>().join(" * "),
        | VT::Named(l, t) => format!("({} :: {})", l, vt(t)),
        | VT::Thk(c) => format!("Thk {}", ct_atom(c)),
    }
}
fn vt_atom_or_app(t: &VT) -> String {
    vt(t)
}
pub fn vt_atom(t: &VT) -> String {
    match t {
        | VT::Unit | VT::Int | VT::Str | VT::Data(_) | VT::Named(..) => vt(t),
        | _ => format!("({})", vt(t)),
    }
}
pub fn ct(t: &CT) -> String {
    match t {
        | CT::Ret(v) => format!("Ret {}", vt_atom(v)),
        | CT::Fn(a, b) => format!("{} -> {}", if matches!(**a, VT::Prod(_)) { format!("({})", vt(a)) } else { vt(a) }, ct(b)),
        | CT::Codata(d) => codata_decls()[*d].name.into(),
        | CT::Os => "OS".into(),
    }
}
pub fn ct_atom(t: &CT) -> String {
    match t {
        | CT::Codata(_) | CT::Os => ct(t),
        | _ => format!("({})", ct(t)),
    }
}

pub fn pat_type(p: &Pat) -> VT {
    match p {
        | Pat::Wild(t) | Pat::Var(_, t) => t.clone(),
        | Pat::Unit => VT::Unit,
        | Pat::Tuple(ps) => VT::Prod(ps.iter().map(pat_type).collect()),
        | Pat::Named(l, q) => VT::Named(l.clone(), Box::new(pat_type(q))),
        | Pat::Ctor(d, _, _) => VT::Data(*d),
        | Pat::Alias(a, _) => pat_type(a),
        | Pat::Project(_, _, whole, _) => whole.clone(),
    }
}

/* ------------------------------------ terms ----------------------------------- */

pub struct Printer {
    pub cfg: Cfg,
    scope: Vec<(Var, String)>,
    /// (binder var -> printed name) for every binder, in print order (for the scoping oracle)
    pub binder_names: Vec<(Var, String)>,
    host: String,
    /// type names printed anywhere inside the scope currently being bound (TypePun naming)
    scope_types: BTreeSet<String>,
}

#[derive(Clone, Copy, PartialEq)]
enum Ctx {
    Tail,
    /// application head / do bindee / dtor head: binder forms need parentheses
    Tight,
}

impl Printer {
    pub fn new(cfg: Cfg) -> Self {
        Printer { cfg, scope: vec![], binder_names: vec![], host: "h".into(), scope_types: BTreeSet::new() }
    }

    fn name_of(&self, x: Var) -> String {
        self.scope.iter().rev().find(|(y, _)| *y == x).map(|(_, n)| n.clone()).unwrap_or_else(|| format!("unbound{}", x))
    }

    /// Choose a name for binder `x` whose scope has free variables `fv` (excluding pattern siblings).
    fn choose(&self, x: Var, fv: &BTreeSet<Var>, taken: &[String]) -> String {
        match self.cfg.naming {
            | Naming::Fresh => format!("v{}", x),
            | Naming::TypePun => format!("v{}", x),
            | Naming::Pool(k) => {
                for cand in POOL.iter().take(k.max(1)) {
                    if taken.iter().any(|t| t == cand) {
                        continue;
                    }
                    // would `cand` capture a free occurrence of an outer variable currently named `cand`?
                    let outer = self.scope.iter().rev().find(|(_, n)| n == cand).map(|(y, _)| *y);
                    let captures = match outer {
                        | Some(y) => y != x && fv.contains(&y),
                        | None => false,
                    };
                    if !captures {
                        return cand.to_string();
                    }
                }
                format!("v{}", x)
            }
        }
    }

    /// Push names for all binders of `p` (scope free variables `fv`), returning how many were pushed.
    fn bind_pat(&mut self, p: &Pat, fv: &BTreeSet<Var>) -> usize {
        let mut bs = vec![];
        p.binders(&mut bs);
        let mut taken: Vec<String> = vec![];
        for (bi, (x, t)) in bs.iter().enumerate() {
            let mut n = self.choose(*x, fv, &taken);
            if self.cfg.naming == Naming::TypePun {
                // pattern components bind left to right: the annotations of later components lie in
                // this binder's scope
                let mut later: BTreeSet<String> = BTreeSet::new();
                for (_, lt) in &bs[bi + 1..] {
                    for w in vt(lt).split(|c: char| !c.is_alphanumeric()) {
                        later.insert(w.to_string());
                    }
                }
                // candidate: a type name from the binder's own annotation, unused in its scope
                let words: Vec<String> = vt(t).split(|c: char| !c.is_alphanumeric()).filter(|w| !w.is_empty() && w.chars().next().unwrap().is_uppercase()).map(|w| w.to_string()).collect();
                for w in words {
                    let outer = self.scope.iter().rev().find(|(_, name)| *name == w).map(|(y, _)| *y);
                    let captures_term = matches!(outer, Some(y) if y != *x && fv.contains(&y));
                    if !self.scope_types.contains(&w) && !later.contains(&w) && !taken.contains(&w) && !captures_term {
                        n = w;
                        break;
                    }
                }
            }
            taken.push(n.clone());
            self.binder_names.push((*x, n.clone()));
            self.scope.push((*x, n));
        }
        bs.len()
    }
    /// bind `p` with scope `body`
    fn bind_in(&mut self, p: &Pat, body: &C) -> usize {
        let mut fv = BTreeSet::new();
        fv_c(body, &mut fv);
        let mut types = BTreeSet::new();
        if self.cfg.naming == Naming::TypePun {
            type_words_c(body, &mut types);
            // the host package and declaration names are always in scope-relevant positions
            types.insert("h".into());
        }
        self.scope_types = types;
        self.bind_pat(p, &fv)
    }
    fn unbind(&mut self, n: usize) {
        for _ in 0..n {
            self.scope.pop();
        }
    }

    pub fn pat(&self, p: &Pat, annotate: bool) -> String {
        match p {
            | Pat::Wild(t) => {
                if annotate {
                    format!("(_ : {})", vt(t))
                } else {
                    "_".into()
                }
            }
            | Pat::Var(x, t) => {
                if annotate {
                    format!("({} : {})", self.name_of(*x), vt(t))
                } else {
                    self.name_of(*x)
                }
            }
            | Pat::Unit => "()".into(),
            | Pat::Tuple(ps) => format!("({})", ps.iter().map(|p| self.pat_item(p, annotate)).collect::<Vec<_>>().join(", ")),
            | Pat::Named(l, p) => format!("({} = {})", l, self.pat_item(p, annotate)),
            | Pat::Ctor(d, k, p) => {
                let inner = self.pat(p, annotate);
                let inner = if inner.starts_with('(') { inner } else { format!("({})", inner) };
                format!("{}{}", data_decls()[*d].ctors[*k].0, inner)
            }
            | Pat::Alias(a, b) => {
                // an alias is annotated as a whole: its members are not synthesising positions
                let inner = format!("({}; {})", self.pat_item(a, false), self.pat_item(b, false));
                if annotate { format!("({} : {})", inner, vt(&pat_type(p))) } else { inner }
            }
            | Pat::Project(l, _, whole, q) => {
                let inner = format!("(/{} = {})", l, self.pat_item(q, false));
                if annotate { format!("({} : {})", inner, vt(whole)) } else { inner }
            }
        }
    }
    /// pattern inside a parenthesised list (annotations without their own parentheses)
    fn pat_item(&self, p: &Pat, annotate: bool) -> String {
        match p {
            | Pat::Var(x, t) if annotate => format!("{} : {}", self.name_of(*x), vt(t)),
            | Pat::Wild(t) if annotate => format!("_ : {}", vt(t)),
            | Pat::Named(l, q) => format!("{} = {}", l, self.pat_item(q, annotate)),
            | Pat::Alias(a, b) if annotate => {
                format!("({}; {}) : {}", self.pat_item(a, false), self.pat_item(b, false), vt(&pat_type(p)))
            }
            | Pat::Project(l, _, whole, q) => {
                if annotate { format!("(/{} = {}) : {}", l, self.pat_item(q, false), vt(whole)) } else { format!("/{} = {}", l, self.pat_item(q, false)) }
            }
            | _ => self.pat(p, annotate),
        }
    }

    pub fn value(&mut self, v: &V) -> String {
        match v {
            | V::Var(x) => self.name_of(*x),
            | V::Unit => "()".into(),
            | V::Int(n) => format!("{}", n),
            | V::Str(s) => format!("{:?}", s),
            | V::Tuple(vs) => {
                let items: Vec<String> = vs.iter().map(|v| self.value_item(v)).collect();
                format!("({})", items.join(", "))
            }
            | V::Named(l, v) => format!("({} = {})", l, self.value_item(v)),
            | V::Proj(v, l, _) => {
                let inner = self.value(v);
                format!("({}/{})", inner, l)
            }
            | V::Thunk(c, t) => {
                let body = self.comp(c, Ctx::Tail);
                format!("({{ {} }} : Thk {})", body, ct_atom(t))
            }
            | V::Ctor(d, k, p) => {
                let inner = self.ctor_payload(p);
                format!("({}{} : {})", data_decls()[*d].ctors[*k].0, inner, data_decls()[*d].name)
            }
        }
    }
    fn ctor_payload(&mut self, p: &V) -> String {
        // nested constructors inside a checked constructor need no further ascription
        let inner = match p {
            | V::Ctor(d, k, q) => {
                let i = self.ctor_payload(q);
                format!("{}{}", data_decls()[*d].ctors[*k].0, i)
            }
            | other => self.value(other),
        };
        if inner.starts_with('(') && !inner.contains(" : ") { inner } else { format!("({})", inner) }
    }
    fn value_item(&mut self, v: &V) -> String {
        match v {
            | V::Named(l, w) => format!("{} = {}", l, self.value_item(w)),
            | _ => self.value(v),
        }
    }

    fn sep(&self) -> &'static str {
        if self.cfg.multiline { "\n" } else { " " }
    }

    fn comp(&mut self, c: &C, ctx: Ctx) -> String {
        let s = self.comp_raw(c);
        let binder_form = matches!(c, C::Do(..) | C::Let(..) | C::Fn(..) | C::Fix(..) | C::ReadLine(..));
        if ctx == Ctx::Tight && binder_form { format!("({})", s) } else { s }
    }

    fn host_op(&self, name: &str) -> String {
        format!("! ({}/{})", self.host, name)
    }

    fn comp_raw(&mut self, c: &C) -> String {
        match c {
            | C::Ret(v) => format!("ret {}", self.value(v)),
            | C::Force(v) => format!("! {}", self.value(v)),
            | C::Do(p, a, b) => {
                let a_s = self.comp(a, Ctx::Tight);
                let n = self.bind_in(p, b);
                let p_s = self.pat(p, true);
                let b_s = self.comp(b, Ctx::Tail);
                self.unbind(n);
                format!("do {} <- {};{}{}", p_s, a_s, self.sep(), b_s)
            }
            | C::Let(p, v, t, b) => {
                let v_s = self.value(v);
                let n = self.bind_in(p, b);
                let p_s = self.pat(p, false);
                let b_s = self.comp(b, Ctx::Tail);
                self.unbind(n);
                format!("let {} : {} = {} in{}{}", p_s, vt(t), v_s, self.sep(), b_s)
            }
            | C::Fn(p, b) => {
                let n = self.bind_in(p, b);
                let p_s = self.pat(p, true);
                let b_s = self.comp(b, Ctx::Tail);
                self.unbind(n);
                format!("fn {} => {}", p_s, b_s)
            }
            | C::Fix(f, t, b) => {
                let p = Pat::Var(*f, thk(t.clone()));
                let n = self.bind_in(&p, b);
                let p_s = self.pat(&p, true);
                let b_s = self.comp(b, Ctx::Tail);
                self.unbind(n);
                format!("fix {} => {}", p_s, b_s)
            }
            | C::App(f, v) => {
                let f_s = self.comp(f, Ctx::Tight);
                let v_s = self.value(v);
                format!("{} {}", f_s, v_s)
            }
            | C::Dtor(b, d, k) => {
                let b_s = self.comp(b, Ctx::Tight);
                format!("{} {}", b_s, codata_decls()[*d].dtors[*k].0)
            }
            | C::Match(v, _, arms) => {
                let v_s = self.value(v);
                let mut out = format!("match {}", v_s);
                for (p, b) in arms {
                    let n = self.bind_in(p, b);
                    let p_s = self.pat(p, false);
                    let b_s = self.comp(b, Ctx::Tail);
                    self.unbind(n);
                    out.push_str(&format!("{}| {} => {}", self.sep(), p_s, b_s));
                }
                out.push_str(&format!("{}end", self.sep()));
                out
            }
            | C::Comatch(d, arms) => {
                let mut out = "(comatch".to_string();
                for (k, b) in arms.iter().enumerate() {
                    let b_s = self.comp(b, Ctx::Tail);
                    out.push_str(&format!("{}| {} => {}", self.sep(), codata_decls()[*d].dtors[k].0, b_s));
                }
                out.push_str(&format!("{}end : {})", self.sep(), codata_decls()[*d].name));
                out
            }
            | C::Ann(b, t) => {
                let b_s = self.comp(b, Ctx::Tail);
                format!("({} : {})", b_s, ct(t))
            }
            | C::WriteInt(v, k) => {
                let v_s = self.value(v);
                let k_s = self.comp(k, Ctx::Tail);
                format!("{} {} {{{}{}{}}}", self.host_op("write_int"), v_s, self.sep(), k_s, self.sep())
            }
            | C::WriteLine(v, k) => {
                let v_s = self.value(v);
                let k_s = self.comp(k, Ctx::Tail);
                format!("{} {} {{{}{}{}}}", self.host_op("write_line"), v_s, self.sep(), k_s, self.sep())
            }
            | C::Arith(op, a, b) => {
                let name = match op {
                    | Op::Add => "add",
                    | Op::Sub => "sub",
                    | Op::Mul => "mul",
                    | Op::Div => "div",
                };
                let a_s = self.value(a);
                let b_s = self.value(b);
                format!("{} {} {}", self.host_op(name), a_s, b_s)
            }
            | C::IfLt(a, b, t, th, el) | C::IfEq(a, b, t, th, el) => {
                let name = if matches!(c, C::IfLt(..)) { "lt" } else { "eq" };
                let a_s = self.value(a);
                let b_s = self.value(b);
                let th_s = self.comp(th, Ctx::Tail);
                let el_s = self.comp(el, Ctx::Tail);
                format!("{} {} {} {} {{ {} }} {{ {} }}", self.host_op(name), ct_atom(t), a_s, b_s, th_s, el_s)
            }
            | C::Exit(v) => {
                let v_s = self.value(v);
                format!("{} {}", self.host_op("exit"), v_s)
            }
            | C::ReadLine(x, k) => {
                let p = Pat::Var(*x, VT::Str);
                let n = self.bind_in(&p, k);
                let p_s = self.pat(&p, true);
                let k_s = self.comp(k, Ctx::Tail);
                self.unbind(n);
                format!("{} {{ fn {} => {} }}", self.host_op("read_line"), p_s, k_s)
            }
        }
    }
}

/* ---------------------------------- programs ---------------------------------- */

pub fn preamble_intrinsics() -> Vec<(&'static str, &'static str)> {
    vec![("VType", "vtype"), ("CType", "ctype"), ("Ret", "ret"), ("Thk", "thk"), ("Unit", "unit"), ("Int64", "i64"), ("String", "string")]
}

pub fn decl_lines() -> Vec<String> {
    let mut out = vec![];
    for (n, r) in preamble_intrinsics() {
        out.push(format!("let {} = @(intrinsic({}))", n, r));
    }
    for d in data_decls() {
        let arms: Vec<String> = d.ctors.iter().map(|(c, t)| format!("| {} : {}", c, vt(t))).collect();
        if d.recursive {
            out.push(format!("def {} : VType = data {} end", d.name, arms.join(" ")));
        } else {
            out.push(format!("let {} = data {} end", d.name, arms.join(" ")));
        }
    }
    for d in codata_decls() {
        let arms: Vec<String> = d.dtors.iter().map(|(c, t)| format!("| {} : {}", c, ct(t))).collect();
        if d.recursive {
            out.push(format!("def {} : CType = codata {} end", d.name, arms.join(" ")));
        } else {
            out.push(format!("let {} = codata {} end", d.name, arms.join(" ")));
        }
    }
    out
}

pub const HOST_SIG: &str = "param (
    (OS, /h) :
    exists @[builtin(os)] (OS : CType) .
      (h ::
          (@[builtin(write_int)] (write_int :: Thk (Int64 -> Thk OS -> OS)))
        * (@[builtin(write_line)] (write_line :: Thk (String -> Thk OS -> OS)))
        * (@[builtin(int64_add)] (add :: Thk (Int64 -> Int64 -> Ret Int64)))
        * (@[builtin(int64_sub)] (sub :: Thk (Int64 -> Int64 -> Ret Int64)))
        * (@[builtin(int64_mul)] (mul :: Thk (Int64 -> Int64 -> Ret Int64)))
        * (@[builtin(int64_div)] (div :: Thk (Int64 -> Int64 -> Ret Int64)))
        * (@[builtin(int64_lt)] (lt :: Thk (forall (R : CType) . Int64 -> Int64 -> Thk R -> Thk R -> R)))
        * (@[builtin(int64_eq)] (eq :: Thk (forall (R : CType) . Int64 -> Int64 -> Thk R -> Thk R -> R)))
        * (@[builtin(read_line)] (read_line :: Thk (Thk (String -> OS) -> OS)))
        * (@[builtin(exit)] (exit :: Thk (Int64 -> OS)))
        * Unit)
  )";

/// Print a whole closed program of type `root_ty`. Executable-slice programs get the host signature.
pub fn program(c: &C, root_ty: &CT, cfg: &Cfg) -> (String, Vec<(Var, String)>) {
    let mut pr = Printer::new(cfg.clone());
    let body = pr.comp(c, Ctx::Tail);
    let mut s = String::from("begin\n");
    for l in decl_lines() {
        s.push_str("  ");
        s.push_str(&l);
        s.push_str(" that\n");
    }
    if *root_ty == CT::Os || uses_exec(c) {
        s.push_str("  ");
        s.push_str(HOST_SIG);
        s.push_str(" that\n");
    }
    if *root_ty == CT::Os {
        s.push_str(&body);
    } else {
        s.push_str(&format!("({}\n : {})", body, ct(root_ty)));
    }
    s.push_str("\nend\n");
    (s, pr.binder_names)
}

/// Print only the body of a computation (no declarations, no root ascription).
pub fn body_only(c: &C, cfg: &Cfg) -> String {
    let mut pr = Printer::new(cfg.clone());
    pr.comp(c, Ctx::Tail)
}
