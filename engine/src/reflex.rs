//! E4 — independent reference scanner for Zydeco sources (hand-written maximal munch; does not call
//! the repository's lexer). Produces code tokens and comments with byte ranges.
#[derive(Clone, Copy, Debug, PartialEq, Eq, Hash)]
pub enum K {
    Upper,
    Lower,
    Ctor,
    Dtor,
    Keyword,
    Float,
    Int,
    Str,
    Char,
    Punct,
    Hole,
    /// `--| ...` documentation / text line (trivia)
    TextLine,
    /// `-- ...` line comment (trivia)
    LineComment,
    /// whole (possibly nested) block comment `/- ... -/` (trivia); unterminated extends to EOF
    BlockComment,
    /// `-/` outside any comment
    StrayClose,
    Unknown,
}

#[derive(Clone, Debug, PartialEq, Eq)]
pub struct Tok {
    pub kind: K,
    pub start: usize,
    pub end: usize,
}

impl K {
    pub fn is_trivia(self) -> bool {
        matches!(self, K::TextLine | K::LineComment | K::BlockComment)
    }
}

const KEYWORDS: [&str; 21] = [
    "end", "begin", "data", "codata", "as", "def", "define", "let", "param", "in", "that", "do", "ret", "fn", "pi", "fix", "match",
    "comatch", "forall", "sigma", "exists",
];

fn is_ident_char(c: u8) -> bool {
    c.is_ascii_alphanumeric() || matches!(c, b'_' | b'\'' | b'?' | b'+' | b'*' | b'-' | b'=' | b'~')
}
fn ident_run(b: &[u8], mut p: usize) -> usize {
    while p < b.len() && is_ident_char(b[p]) {
        p += 1;
    }
    p
}
fn digits(b: &[u8], mut p: usize) -> usize {
    while p < b.len() && b[p].is_ascii_digit() {
        p += 1;
    }
    p
}

/// Longest numeric literal starting at p (after optional sign): returns (end, is_float) or None.
fn number(b: &[u8], p: usize) -> Option<(usize, bool)> {
    let mut q = p;
    if q < b.len() && (b[q] == b'+' || b[q] == b'-') {
        q += 1;
    }
    let d = digits(b, q);
    if d == q {
        return None;
    }
    let mut best = (d, false);
    // d+ . d+ (e[+-]?d+)?
    if d < b.len() && b[d] == b'.' {
        let f = digits(b, d + 1);
        if f > d + 1 {
            best = (f, true);
            if f < b.len() && (b[f] == b'e' || b[f] == b'E') {
                let mut g = f + 1;
                if g < b.len() && (b[g] == b'+' || b[g] == b'-') {
                    g += 1;
                }
                let h = digits(b, g);
                if h > g {
                    best = (h, true);
                }
            }
        }
    }
    // d+ e [+-]? d+
    if d < b.len() && (b[d] == b'e' || b[d] == b'E') {
        let mut g = d + 1;
        if g < b.len() && (b[g] == b'+' || b[g] == b'-') {
            g += 1;
        }
        let h = digits(b, g);
        if h > g && h > best.0 {
            best = (h, true);
        }
    }
    Some(best)
}

fn string_lit(b: &[u8], p: usize) -> Option<usize> {
    // "[^"\\]*(\\.[^"\\]*)*"   where `.` is any char except newline
    debug_assert_eq!(b[p], b'"');
    let mut q = p + 1;
    loop {
        if q >= b.len() {
            return None;
        }
        match b[q] {
            | b'"' => return Some(q + 1),
            | b'\\' => {
                if q + 1 >= b.len() || b[q + 1] == b'\n' {
                    return None;
                }
                // skip one whole character after the backslash
                q += 1;
                q += utf8_len(b[q]);
            }
            | _ => q += 1,
        }
    }
}

fn utf8_len(first: u8) -> usize {
    if first < 0x80 {
        1
    } else if first >> 5 == 0b110 {
        2
    } else if first >> 4 == 0b1110 {
        3
    } else {
        4
    }
}

fn char_lit(b: &[u8], p: usize) -> Option<usize> {
    // '([ -~]|\\[nrt'|(\\)])'
    if p + 2 < b.len() && b[p + 1] != b'\\' && (b' '..=b'~').contains(&b[p + 1]) && b[p + 2] == b'\'' {
        return Some(p + 3);
    }
    if p + 3 < b.len()
        && b[p + 1] == b'\\'
        && matches!(b[p + 2], b'n' | b'r' | b't' | b'\'' | b'|' | b'(' | b'\\' | b')')
        && b[p + 3] == b'\''
    {
        return Some(p + 4);
    }
    // `'\'` : the first alternative also matches a lone backslash as the printable char
    if p + 2 < b.len() && b[p + 1] == b'\\' && b[p + 2] == b'\'' {
        // both alternatives could apply to `'\''`; longest match picks the 4-byte form when present
        if p + 3 < b.len() && b[p + 3] == b'\'' {
            return Some(p + 4);
        }
        return Some(p + 3);
    }
    None
}

/// One raw token at `p` (not whitespace): (kind, end). Comments are reported as openers/closers here.
#[derive(Clone, Copy, PartialEq, Eq, Debug)]
enum Raw {
    Tok(K),
    Open,
    Close,
}

fn raw_token(src: &str, p: usize) -> (Raw, usize) {
    let b = src.as_bytes();
    let c = b[p];
    let mut cands: Vec<(usize, Raw)> = Vec::new();
    // identifiers / keywords
    if c.is_ascii_uppercase() {
        cands.push((ident_run(b, p + 1), Raw::Tok(K::Upper)));
    }
    if c.is_ascii_lowercase() {
        let e = ident_run(b, p + 1);
        let word = &src[p..e];
        let kind = if KEYWORDS.contains(&word) { K::Keyword } else { K::Lower };
        cands.push((e, Raw::Tok(kind)));
    }
    if c == b'_' {
        let e = ident_run(b, p + 1);
        if e > p + 1 {
            cands.push((e, Raw::Tok(K::Lower)));
        } else {
            cands.push((p + 1, Raw::Tok(K::Hole)));
        }
    }
    if c == b'+' && p + 1 < b.len() && b[p + 1].is_ascii_uppercase() {
        cands.push((ident_run(b, p + 2), Raw::Tok(K::Ctor)));
    }
    if c == b'.' && p + 1 < b.len() && b[p + 1].is_ascii_lowercase() {
        cands.push((ident_run(b, p + 2), Raw::Tok(K::Dtor)));
    }
    if let Some((e, is_float)) = number(b, p) {
        cands.push((e, Raw::Tok(if is_float { K::Float } else { K::Int })));
    }
    if c == b'"' {
        if let Some(e) = string_lit(b, p) {
            cands.push((e, Raw::Tok(K::Str)));
        }
    }
    if c == b'\'' {
        if let Some(e) = char_lit(b, p) {
            cands.push((e, Raw::Tok(K::Char)));
        }
    }
    // comments
    if src[p..].starts_with("--|") {
        let e = line_end(b, p);
        cands.push((e, Raw::Tok(K::TextLine)));
    } else if src[p..].starts_with("--") {
        let e = line_end(b, p);
        cands.push((e, Raw::Tok(K::LineComment)));
    }
    if src[p..].starts_with("/-") {
        cands.push((p + 2, Raw::Open));
    }
    if src[p..].starts_with("-/") {
        cands.push((p + 2, Raw::Close));
    }
    // punctuation
    for punct in ["::", "=>", "->", "<-", "(", ")", "[", "]", "{", "}", ",", ":", "=", ";", "!", "/", "|", "+", "*", ".", "@"] {
        if src[p..].starts_with(punct) {
            cands.push((p + punct.len(), Raw::Tok(K::Punct)));
        }
    }
    if let Some(best) = cands.iter().max_by_key(|(e, _)| *e) {
        // ties cannot occur between different kinds except keyword/ident (handled) and
        // punct-vs-punct prefixes (longest wins)
        return (best.1, best.0);
    }
    // unknown: one character
    let len = utf8_len(c);
    (Raw::Tok(K::Unknown), p + len)
}

fn line_end(b: &[u8], mut p: usize) -> usize {
    while p < b.len() && b[p] != b'\n' {
        p += 1;
    }
    if p < b.len() {
        p += 1;
    }
    p
}

/// Scan a whole source into code tokens and trivia.
pub fn scan(src: &str) -> Vec<Tok> {
    let b = src.as_bytes();
    let mut out = Vec::new();
    let mut p = 0;
    let mut depth = 0usize;
    let mut block_start = 0usize;
    while p < b.len() {
        if matches!(b[p], b' ' | b'\t' | b'\n' | 0x0c) {
            p += 1;
            continue;
        }
        let (raw, e) = raw_token(src, p);
        if depth > 0 {
            match raw {
                | Raw::Open => depth += 1,
                | Raw::Close => {
                    depth -= 1;
                    if depth == 0 {
                        out.push(Tok { kind: K::BlockComment, start: block_start, end: e });
                    }
                }
                | Raw::Tok(_) => {}
            }
        } else {
            match raw {
                | Raw::Open => {
                    depth = 1;
                    block_start = p;
                }
                | Raw::Close => out.push(Tok { kind: K::StrayClose, start: p, end: e }),
                | Raw::Tok(k) => out.push(Tok { kind: k, start: p, end: e }),
            }
        }
        p = e;
    }
    if depth > 0 {
        out.push(Tok { kind: K::BlockComment, start: block_start, end: b.len() });
    }
    out
}

pub fn code_tokens(src: &str) -> Vec<Tok> {
    scan(src).into_iter().filter(|t| !t.kind.is_trivia()).collect()
}
