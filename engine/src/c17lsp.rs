//! C17, language-server side: explicit exploration of the refresh / commit protocol of the real
//! `cajun::Cajun` server. Handler futures of the real `LanguageServer` implementation are created
//! in arrival order and polled by the harness (not by a free-running executor), so the only
//! asynchrony left — the point at which a finished analysis is committed relative to later
//! notifications — is a choice the explorer enumerates.
use crate::common::*;
use crate::subject::*;
use std::future::Future;
use std::pin::Pin;
use std::sync::Arc;
use std::sync::atomic::{AtomicBool, Ordering};
use std::task::{Context, Poll, Wake, Waker};
use tower_lsp::lsp_types::*;
use tower_lsp::{LanguageServer, LspService};

struct Flag(AtomicBool);
impl Wake for Flag {
    fn wake(self: Arc<Self>) {
        self.0.store(true, Ordering::SeqCst);
    }
}

#[derive(Clone, Copy, Debug, PartialEq, Eq)]
pub enum Ev {
    Open(usize),
    Change(usize),
    /// didSave, with the text included (Some) or not
    Save(Option<usize>),
    Close,
    /// let the k-th oldest unfinished handler run to completion (k = 0, 1)
    Advance(usize),
    /// a request (document symbols) answered in the middle of the history
    Query,
}

const TEXTS: [&str; 3] = [
    "let Ret = @(intrinsic(ret)) in let old_a = 1 in ret old_a",
    "let Ret = @(intrinsic(ret)) in let new_b = 2 in let new_c = 3 in ret new_b",
    "let Ret = @(intrinsic(ret)) in let bad_d : Ret = 4 in ret bad_d",
];
const DISK: &str = "let Ret = @(intrinsic(ret)) in let disk_e = 5 in ret disk_e";

pub fn alphabet() -> Vec<Ev> {
    vec![Ev::Open(0), Ev::Open(1), Ev::Change(1), Ev::Change(2), Ev::Save(None), Ev::Save(Some(0)), Ev::Close, Ev::Advance(0), Ev::Advance(1), Ev::Query]
}

/// protocol validity of a history from the client's point of view
fn valid(h: &[Ev]) -> bool {
    let mut open = false;
    let mut pending = 0usize;
    for e in h {
        match e {
            | Ev::Open(_) => {
                if open {
                    return false;
                }
                open = true;
                pending += 1;
            }
            | Ev::Change(_) | Ev::Save(_) => {
                if !open {
                    return false;
                }
                pending += 1;
            }
            | Ev::Close => {
                if !open {
                    return false;
                }
                open = false;
            }
            | Ev::Advance(k) => {
                if *k >= pending {
                    return false;
                }
                pending -= 1;
            }
            | Ev::Query => {
                // a query is itself a handler that runs to completion at once (see run_history)
            }
        }
    }
    true
}

type Handler<'a> = Pin<Box<dyn Future<Output = ()> + 'a>>;

fn symbols_json(r: &Option<DocumentSymbolResponse>) -> String {
    // names only, in order: positions are determined by the text
    fn names(v: &serde_json::Value, out: &mut Vec<String>) {
        match v {
            | serde_json::Value::Array(a) => a.iter().for_each(|x| names(x, out)),
            | serde_json::Value::Object(o) => {
                if let Some(serde_json::Value::String(n)) = o.get("name") {
                    out.push(n.clone());
                }
                if let Some(c) = o.get("children") {
                    names(c, out);
                }
            }
            | _ => {}
        }
    }
    let v = serde_json::to_value(r).unwrap_or(serde_json::Value::Null);
    let mut out = vec![];
    names(&v, &mut out);
    format!("{:?}", out)
}

/// Run one history on a fresh server; returns (final answer, answers of the in-history queries,
/// current text index or None if closed, steps executed) or a machinery error.
fn run_history(dir: &std::path::Path, history: &[Ev]) -> Result<(String, Vec<(usize, String, Option<usize>)>, Option<usize>, u64), String> {
    let file = dir.join("doc.zy");
    std::fs::write(&file, DISK).map_err(|e| e.to_string())?;
    let uri = Url::from_file_path(&file).map_err(|_| "uri".to_string())?;
    let rt = tokio::runtime::Builder::new_current_thread().enable_all().build().map_err(|e| e.to_string())?;
    let history = history.to_vec();
    rt.block_on(async move {
        use futures_util::StreamExt;
        let (service, mut socket) = LspService::new(cajun::Cajun::new);
        let drain = tokio::spawn(async move { while socket.next().await.is_some() {} });
        let server = service.inner();
        let mut pending: Vec<(Handler<'_>, Arc<Flag>)> = vec![];
        let mut version = 0;
        let mut current: Option<usize> = None;
        let mut steps = 0u64;
        let mut mid_answers = vec![];
        // wait until the handler has been woken (its analysis finished / the client channel drained)
        async fn settle(flag: &Arc<Flag>) -> Result<(), String> {
            let t = std::time::Instant::now();
            while !flag.0.load(Ordering::SeqCst) {
                tokio::task::yield_now().await;
                std::thread::sleep(std::time::Duration::from_micros(100));
                if t.elapsed().as_secs() > 20 {
                    return Err("a handler was not woken within 20 s".into());
                }
            }
            Ok(())
        }
        fn poll(h: &mut Handler<'_>, flag: &Arc<Flag>) -> bool {
            flag.0.store(false, Ordering::SeqCst);
            let waker = Waker::from(flag.clone());
            let mut cx = Context::from_waker(&waker);
            matches!(h.as_mut().poll(&mut cx), Poll::Ready(()))
        }
        async fn finish(h: &mut Handler<'_>, flag: &Arc<Flag>) -> Result<(), String> {
            loop {
                if poll(h, flag) {
                    return Ok(());
                }
                settle(flag).await?;
            }
        }
        async fn ask(server: &cajun::Cajun, uri: &Url) -> String {
            let r = server.document_symbol(DocumentSymbolParams { text_document: TextDocumentIdentifier { uri: uri.clone() }, work_done_progress_params: Default::default(), partial_result_params: Default::default() }).await;
            match r {
                | Ok(s) => symbols_json(&s),
                | Err(e) => format!("error {e}"),
            }
        }
        for (step, ev) in history.iter().enumerate() {
            steps += 1;
            match *ev {
                | Ev::Save(t) => {
                    let mut h: Handler<'_> = Box::pin(server.did_save(DidSaveTextDocumentParams { text_document: TextDocumentIdentifier { uri: uri.clone() }, text: t.map(|t| TEXTS[t].to_string()) }));
                    if let Some(t) = t {
                        current = Some(t);
                    }
                    let flag = Arc::new(Flag(AtomicBool::new(false)));
                    if !poll(&mut h, &flag) {
                        settle(&flag).await?;
                        pending.push((h, flag));
                    }
                }
                | Ev::Open(t) | Ev::Change(t) => {
                    version += 1;
                    let mut h: Handler<'_> = if matches!(ev, Ev::Open(_)) {
                        Box::pin(server.did_open(DidOpenTextDocumentParams { text_document: TextDocumentItem { uri: uri.clone(), language_id: "zydeco".into(), version, text: TEXTS[t].to_string() } }))
                    } else {
                        Box::pin(server.did_change(DidChangeTextDocumentParams {
                            text_document: VersionedTextDocumentIdentifier { uri: uri.clone(), version },
                            content_changes: vec![TextDocumentContentChangeEvent { range: None, range_length: None, text: TEXTS[t].to_string() }],
                        }))
                    };
                    current = Some(t);
                    let flag = Arc::new(Flag(AtomicBool::new(false)));
                    // first poll: the notification is applied and the analysis is started
                    if !poll(&mut h, &flag) {
                        // quiescence: the analysis finishes before anything else happens; its commit stays pending
                        settle(&flag).await?;
                        pending.push((h, flag));
                    }
                }
                | Ev::Close => {
                    let mut h: Handler<'_> = Box::pin(server.did_close(DidCloseTextDocumentParams { text_document: TextDocumentIdentifier { uri: uri.clone() } }));
                    let flag = Arc::new(Flag(AtomicBool::new(false)));
                    finish(&mut h, &flag).await?;
                    current = None;
                }
                | Ev::Advance(k) => {
                    if k >= pending.len() {
                        // the handler completed on its first poll (fast path): nothing to advance
                        continue;
                    }
                    let (mut h, flag) = pending.remove(k);
                    finish(&mut h, &flag).await?;
                }
                | Ev::Query => {
                    // requests run to completion at once (they may start their own analysis)
                    let a = ask(server, &uri).await;
                    mid_answers.push((step, a, current));
                }
            }
        }
        // remaining handlers finish in arrival order
        while !pending.is_empty() {
            let (mut h, flag) = pending.remove(0);
            finish(&mut h, &flag).await?;
            steps += 1;
        }
        let answer = ask(server, &uri).await;
        drain.abort();
        Ok((answer, mid_answers, current, steps))
    })
}

pub struct LspProtocol {
    prefixes: Vec<Vec<Ev>>,
    depth: usize,
    scratch: Option<Scratch>,
    oracle: Option<Vec<String>>,
}
impl LspProtocol {
    pub fn new(tier: Tier) -> Self {
        let depth: usize = if tier == Tier::Thorough { 7 } else { 6 };
        let ops = alphabet();
        // cases = valid prefixes of length depth-2; each case runs every valid extension by <= 2 events
        let mut prefixes: Vec<Vec<Ev>> = vec![vec![]];
        let mut frontier: Vec<Vec<Ev>> = vec![vec![]];
        for _ in 0..depth.saturating_sub(2) {
            let mut next = vec![];
            for p in &frontier {
                for o in &ops {
                    let mut q = p.clone();
                    q.push(*o);
                    if valid(&q) {
                        next.push(q);
                    }
                }
            }
            prefixes.extend(next.iter().cloned());
            frontier = next;
        }
        LspProtocol { prefixes, depth, scratch: None, oracle: None }
    }
}
impl Check for LspProtocol {
    fn property(&self) -> &'static str {
        "C17"
    }
    fn name(&self) -> String {
        "c17-lsp-commit-protocol".into()
    }
    fn len(&self) -> usize {
        self.prefixes.len()
    }
    fn level(&self) -> &'static str {
        "model_checking"
    }
    fn describe(&self, i: usize) -> String {
        format!("history prefix {:?} extended by every valid sequence of <= 2 further events, on a fresh cajun::Cajun server; document doc.zy, disk text {:?}, editor texts {:?}", self.prefixes[i], DISK, TEXTS)
    }
    fn rule(&self) -> String {
        format!("every protocol-valid history of <= {} events over {{didOpen(text 0|1), didChange(text 1|2), didSave(without text | with text 0), didClose, advance(the oldest | second-oldest unfinished handler), documentSymbol request}} on one document of a fresh cajun::Cajun (the real LanguageServer handlers, created in arrival order and polled by the harness on a current-thread tokio runtime; after a handler starts its analysis the harness waits until the analysis has finished, so the only remaining choice is when its commit runs relative to later notifications — which `advance` enumerates); unfinished handlers finish in arrival order at the end; oracle: every documentSymbol answer (in the middle and at the end) lists exactly the symbols a fresh server gives for the text the document has at that moment (for a closed document: the disk text); states = histories, transitions = events executed on the implementation; non-trivial = histories with at least one didOpen/didChange whose commit is delayed past a later notification", self.depth)
    }
    fn timeout(&self) -> std::time::Duration {
        std::time::Duration::from_secs(300)
    }
    fn run(&mut self, i: usize) -> CaseResult {
        let scratch = self.scratch.get_or_insert_with(|| Scratch::new("c17lsp"));
        let dir = scratch.dir.clone();
        // oracle answers: per text index and for the closed document
        if self.oracle.is_none() {
            let mut o = vec![];
            for t in 0..TEXTS.len() {
                match run_history(&dir, &[Ev::Open(t), Ev::Advance(0)]) {
                    | Ok((a, _, _, _)) => o.push(a),
                    | Err(e) => return CaseResult::ok("machinery").violation("MACHINERY: oracle history failed".to_string(), e),
                }
            }
            match run_history(&dir, &[]) {
                | Ok((a, _, _, _)) => o.push(a),
                | Err(e) => return CaseResult::ok("machinery").violation("MACHINERY: oracle history failed".to_string(), e),
            }
            self.oracle = Some(o);
        }
        let oracle = self.oracle.clone().unwrap();
        let want = |cur: Option<usize>| -> &String {
            match cur {
                | Some(t) => &oracle[t],
                | None => &oracle[TEXTS.len()],
            }
        };
        let prefix = self.prefixes[i].clone();
        let ops = alphabet();
        // extensions: none, one event, two events (only at the deepest prefixes, to keep every history exactly once)
        let mut histories = vec![prefix.clone()];
        if prefix.len() + 2 == self.depth {
            for a in &ops {
                let mut h1 = prefix.clone();
                h1.push(*a);
                if !valid(&h1) {
                    continue;
                }
                histories.push(h1.clone());
                for b in &ops {
                    let mut h2 = h1.clone();
                    h2.push(*b);
                    if valid(&h2) {
                        histories.push(h2);
                    }
                }
            }
        }
        let delayed = |h: &[Ev]| -> bool {
            // some Open/Change is followed by another notification before its Advance
            let mut pend: usize = 0;
            for e in h {
                match e {
                    | Ev::Open(_) | Ev::Change(_) | Ev::Save(_) => {
                        if pend > 0 {
                            return true;
                        }
                        pend += 1;
                    }
                    | Ev::Close => {
                        if pend > 0 {
                            return true;
                        }
                    }
                    | Ev::Advance(_) => pend = pend.saturating_sub(1),
                    | Ev::Query => {}
                }
            }
            false
        };
        let mut r = CaseResult::ok("prefix").nontrivial(delayed(&prefix) || prefix.len() + 2 == self.depth).key(hash64(&format!("{:?}", prefix)));
        for h in histories {
            let res = guarded(|| run_history(&dir, &h));
            match res {
                | Err(p) => r = r.violation(format!("language server panics: {}", crate::front::short_msg(&p.msg)), format!("history {:?}\n{:?}", h, p)),
                | Ok(Err(e)) => r = r.violation("MACHINERY: history could not be executed".to_string(), format!("history {:?}: {e}", h)),
                | Ok(Ok((answer, mids, current, steps))) => {
                    r = r.count("states", 1).count("transitions", steps).count("traces", 1).count("histories_with_delayed_commit", delayed(&h) as u64);
                    for (step, a, cur) in mids {
                        if &a != want(cur) {
                            r = r.violation("a request is answered from an analysis of text the document no longer has".to_string(), format!("history {:?}: the documentSymbol request at step {} answered {} but the document's text then gives {}", h, step + 1, a, want(cur)));
                        }
                    }
                    if &answer != want(current) {
                        r = r.violation("after the history a request is answered from an analysis of text the document no longer has".to_string(), format!("history {:?}: final documentSymbol answer {} but the document's text ({}) gives {}", h, answer, current.map(|t| format!("editor text {t}")).unwrap_or_else(|| "closed: disk text".into()), want(current)));
                    }
                }
            }
        }
        r
    }
}
