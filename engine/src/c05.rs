//! C05 — fixed-width numeric semantics and literal range checking.
use crate::common::*;
use crate::prim::*;
use crate::subject::*;
use zydeco_dynamics::syntax::SemValue;
use zydeco_syntax::*;

fn width(t: IntegerType) -> (u32, bool) {
    match t {
        | IntegerType::Int8 => (8, true),
        | IntegerType::Int16 => (16, true),
        | IntegerType::Int32 => (32, true),
        | IntegerType::Int64 => (64, true),
        | IntegerType::UInt8 => (8, false),
        | IntegerType::UInt16 => (16, false),
        | IntegerType::UInt32 => (32, false),
        | IntegerType::UInt64 => (64, false),
    }
}
fn tmin(t: IntegerType) -> i128 {
    let (w, s) = width(t);
    if s { -(1i128 << (w - 1)) } else { 0 }
}
fn tmax(t: IntegerType) -> i128 {
    let (w, s) = width(t);
    if s { (1i128 << (w - 1)) - 1 } else { (1i128 << w) - 1 }
}
/// Reduce a mathematical integer modulo 2^w into the type's range (reference wrap, no wrapping_* used).
fn wrap(t: IntegerType, v: i128) -> i128 {
    let (w, _) = width(t);
    let m = 1i128 << w;
    let mut r = v.rem_euclid(m);
    if r > tmax(t) {
        r -= m;
    }
    r
}
fn mk(t: IntegerType, v: i128) -> SemValue {
    let lit = match t {
        | IntegerType::Int8 => IntegerLiteral::Int8(v as i8),
        | IntegerType::Int16 => IntegerLiteral::Int16(v as i16),
        | IntegerType::Int32 => IntegerLiteral::Int32(v as i32),
        | IntegerType::Int64 => IntegerLiteral::Int64(v as i64),
        | IntegerType::UInt8 => IntegerLiteral::UInt8(v as u8),
        | IntegerType::UInt16 => IntegerLiteral::UInt16(v as u16),
        | IntegerType::UInt32 => IntegerLiteral::UInt32(v as u32),
        | IntegerType::UInt64 => IntegerLiteral::UInt64(v as u64),
    };
    assert!(v >= tmin(t) && v <= tmax(t));
    SemValue::Literal(Literal::Integer(lit))
}

/// Reference semantics of one integer operation on mathematical values.
#[derive(Debug, PartialEq)]
enum Expect {
    Value(i128),
    Branch(bool),
    Text(String),
    TrapDiv,
    TrapRem,
}
fn reference(t: IntegerType, op: IntegerOperation, a: i128, b: i128) -> Expect {
    match op {
        | IntegerOperation::Add => Expect::Value(wrap(t, a + b)),
        | IntegerOperation::Sub => Expect::Value(wrap(t, a - b)),
        | IntegerOperation::Mul => {
            // (a mod 2^w) * (b mod 2^w) < 2^128 fits u128 for w <= 64
            let (w, _) = width(t);
            let m = 1u128 << w;
            let p = (a.rem_euclid(m as i128) as u128).wrapping_mul(b.rem_euclid(m as i128) as u128) % m;
            Expect::Value(wrap(t, p as i128))
        }
        | IntegerOperation::Div => {
            if b == 0 {
                Expect::TrapDiv
            } else {
                // truncating division on mathematical integers, then wrap (MIN / -1 wraps)
                let q = a.abs() / b.abs();
                let q = if (a < 0) != (b < 0) { -q } else { q };
                Expect::Value(wrap(t, q))
            }
        }
        | IntegerOperation::Mod => {
            if b == 0 {
                Expect::TrapRem
            } else {
                let r = a.abs() % b.abs();
                let r = if a < 0 { -r } else { r };
                Expect::Value(wrap(t, r))
            }
        }
        | IntegerOperation::Eq => Expect::Branch(a == b),
        | IntegerOperation::Lt => Expect::Branch(a < b),
        | IntegerOperation::Gt => Expect::Branch(a > b),
        | IntegerOperation::ToString => Expect::Text(format!("{}", a)),
    }
}

fn observe_int(t: IntegerType, op: IntegerOperation, a: i128, b: i128) -> Result<Expect, String> {
    let role = BuiltinValueRole::Integer(t, op);
    let args = match op {
        | IntegerOperation::ToString => vec![mk(t, a)],
        | IntegerOperation::Eq | IntegerOperation::Lt | IntegerOperation::Gt => {
            vec![mk(t, a), mk(t, b), marker(1), marker(0)]
        }
        | _ => vec![mk(t, a), mk(t, b)],
    };
    let out = call_prim(role, args, 1, b"", &[]);
    if !out.output.is_empty() {
        return Err("numeric operation wrote output".into());
    }
    match out.shape {
        | Err(p) => {
            if p.msg == "attempt to divide by zero" {
                Ok(Expect::TrapDiv)
            } else if p.msg == "attempt to calculate the remainder with a divisor of zero" {
                Ok(Expect::TrapRem)
            } else {
                Err(format!("panic {:?} at {}", p.msg, p.loc))
            }
        }
        | Ok(shape) => {
            if out.stack_left != 1 {
                return Err(format!("consumed wrong number of arguments: {} left of 1 sentinel", out.stack_left));
            }
            match shape {
                | Shape::Ret(SemValue::Literal(Literal::Integer(l))) => {
                    if l.integer_type() != Some(t) {
                        return Err(format!("result literal has type {:?}", l.integer_type()));
                    }
                    Ok(Expect::Value(l.value()))
                }
                | Shape::Ret(SemValue::Literal(Literal::String(s))) => Ok(Expect::Text(s.as_str().to_string())),
                | Shape::Call(k, args) if args.is_empty() => Ok(Expect::Branch(k == 1)),
                | other => Err(format!("unexpected result shape {:?}", other)),
            }
        }
    }
}

const BIN_OPS: [IntegerOperation; 8] = [
    IntegerOperation::Add,
    IntegerOperation::Sub,
    IntegerOperation::Mul,
    IntegerOperation::Div,
    IntegerOperation::Mod,
    IntegerOperation::Eq,
    IntegerOperation::Lt,
    IntegerOperation::Gt,
];

/// Sub-check: all operand pairs for the two 8-bit types.
pub struct Ops8;
impl Check for Ops8 {
    fn property(&self) -> &'static str {
        "C05"
    }
    fn name(&self) -> String {
        "c05-ops8".into()
    }
    fn len(&self) -> usize {
        512
    }
    fn describe(&self, i: usize) -> String {
        let t = if i < 256 { IntegerType::Int8 } else { IntegerType::UInt8 };
        let a = tmin(t) + (i % 256) as i128;
        format!("{:?}: a={} against every b of the type, roles add sub mul div mod eq lt gt, plus to_string(a)", t, a)
    }
    fn rule(&self) -> String {
        "every (type in {Int8,UInt8}, a, b, op) = 2*256*256*8 operations + 512 to_string, each stepped as Computation::Prim on a live Runtime; oracle = i128 arithmetic reduced mod 2^w; case = one (type,a) row (256 b x 8 ops); non-trivial = every row (distinct by (type,a))".into()
    }
    fn run(&mut self, i: usize) -> CaseResult {
        let t = if i < 256 { IntegerType::Int8 } else { IntegerType::UInt8 };
        let a = tmin(t) + (i % 256) as i128;
        let mut r = CaseResult::ok("row").nontrivial(true).key(hash64(&format!("{:?}{}", t, a)));
        let mut n = 0;
        for bi in 0..256 {
            let b = tmin(t) + bi as i128;
            for op in BIN_OPS {
                n += 1;
                let want = reference(t, op, a, b);
                match observe_int(t, op, a, b) {
                    | Ok(got) if got == want => {}
                    | Ok(got) => {
                        r = r.violation(
                            format!("integer {:?} {:?} wrong result", t, op),
                            format!("{:?} {:?} a={} b={}: expected {:?}, got {:?}", t, op, a, b, want, got),
                        )
                    }
                    | Err(e) => {
                        r = r.violation(
                            format!("integer {:?} {:?} malformed outcome", t, op),
                            format!("{:?} {:?} a={} b={}: {}", t, op, a, b, e),
                        )
                    }
                }
            }
        }
        n += 1;
        let want = reference(t, IntegerOperation::ToString, a, 0);
        match observe_int(t, IntegerOperation::ToString, a, 0) {
            | Ok(got) if got == want => {}
            | other => {
                r = r.violation(
                    format!("integer {:?} to_string wrong", t),
                    format!("{:?} to_string a={}: expected {:?}, got {:?}", t, a, want, other),
                )
            }
        }
        r.count("operations", n)
    }
}

fn boundary(t: IntegerType) -> Vec<i128> {
    let mut v: Vec<i128> = vec![];
    for u in IntegerType::ALL {
        for d in -2..=2 {
            v.push(tmin(u) + d);
            v.push(tmax(u) + d);
        }
    }
    for k in [7u32, 8, 15, 16, 31, 32, 63] {
        for d in [-1i128, 0, 1] {
            v.push((1i128 << k) + d);
            v.push(-(1i128 << k) + d);
        }
    }
    for d in -3..=3 {
        v.push(d);
    }
    v.extend([10, -10, 100, 7, -7, 3, -3, 1000003, -1000003]);
    v.retain(|x| *x >= tmin(t) && *x <= tmax(t));
    v.sort();
    v.dedup();
    v
}

/// Sub-check: boundary cross product for the six wider integer types.
pub struct OpsWide {
    rows: Vec<(IntegerType, i128)>,
}
impl OpsWide {
    pub fn new() -> Self {
        let mut rows = vec![];
        for t in IntegerType::ALL {
            if matches!(t, IntegerType::Int8 | IntegerType::UInt8) {
                continue;
            }
            for a in boundary(t) {
                rows.push((t, a));
            }
        }
        OpsWide { rows }
    }
}
impl Check for OpsWide {
    fn property(&self) -> &'static str {
        "C05"
    }
    fn name(&self) -> String {
        "c05-opswide".into()
    }
    fn len(&self) -> usize {
        self.rows.len()
    }
    fn describe(&self, i: usize) -> String {
        let (t, a) = self.rows[i];
        format!("{:?}: a={} against every boundary b ({} values), 8 binary roles + to_string", t, a, boundary(t).len())
    }
    fn rule(&self) -> String {
        "for the six 16/32/64-bit integer types: full cross product of a boundary set B(T) (MIN/MAX of every integer type +-2, +-2^k+-1 for k in {7,8,15,16,31,32,63}, small values) x 8 binary roles + to_string; oracle = i128 arithmetic mod 2^w; case = one (type,a) row".into()
    }
    fn exhaustive(&self) -> bool {
        false
    }
    fn run(&mut self, i: usize) -> CaseResult {
        let (t, a) = self.rows[i];
        let mut r = CaseResult::ok("row").nontrivial(true).key(hash64(&format!("{:?}{}", t, a)));
        let mut n = 0;
        for b in boundary(t) {
            for op in BIN_OPS {
                n += 1;
                let want = reference(t, op, a, b);
                match observe_int(t, op, a, b) {
                    | Ok(got) if got == want => {}
                    | other => {
                        r = r.violation(
                            format!("integer {:?} {:?} wrong result", t, op),
                            format!("{:?} {:?} a={} b={}: expected {:?}, got {:?}", t, op, a, b, want, other),
                        )
                    }
                }
            }
        }
        n += 1;
        let want = reference(t, IntegerOperation::ToString, a, 0);
        match observe_int(t, IntegerOperation::ToString, a, 0) {
            | Ok(got) if got == want => {}
            | other => {
                r = r.violation(
                    format!("integer {:?} to_string wrong", t),
                    format!("{:?} to_string a={}: expected {:?}, got {:?}", t, a, want, other),
                )
            }
        }
        r.count("operations", n)
    }
}

/* ---------------------------------- floats ---------------------------------- */

fn f64_boundary() -> Vec<f64> {
    let mut v = vec![
        0.0,
        -0.0,
        f64::from_bits(1),
        -f64::from_bits(1),
        f64::MIN_POSITIVE,
        -f64::MIN_POSITIVE,
        1.0,
        -1.0,
        1.0 + f64::EPSILON,
        1.0 - f64::EPSILON / 2.0,
        f64::MAX,
        -f64::MAX,
        f64::INFINITY,
        f64::NEG_INFINITY,
        f64::NAN,
        0.1,
        0.2,
        0.3,
        1.0 / 3.0,
        3.0,
        2.0,
        0.5,
        1e308,
        1e-308,
        16777217.0,         // 2^24+1: not representable in f32
        3.4028234663852886e38, // f32::MAX
        3.4028235677973366e38, // f32::MAX + half ulp
        1.401298464324817e-45, // f32 min subnormal
        1e-46,
        9007199254740993.0,
        4.9e-324,
        1.7976931348623157e308,
        123456.789,
        -2.5,
    ];
    v.push(f64::from_bits(f64::MAX.to_bits() - 1));
    v
}
fn f32_boundary() -> Vec<f32> {
    let mut v = vec![
        0.0f32,
        -0.0,
        f32::from_bits(1),
        -f32::from_bits(1),
        f32::MIN_POSITIVE,
        -f32::MIN_POSITIVE,
        1.0,
        -1.0,
        1.0 + f32::EPSILON,
        1.0 - f32::EPSILON / 2.0,
        f32::MAX,
        -f32::MAX,
        f32::INFINITY,
        f32::NEG_INFINITY,
        f32::NAN,
        0.1,
        0.2,
        0.3,
        1.0 / 3.0,
        3.0,
        2.0,
        0.5,
        1e38,
        1e-38,
        16777216.0,
        16777215.0,
        8388609.0,
        1e-45,
        123456.79,
        -2.5,
        7.0,
        1e20,
    ];
    v.push(f32::from_bits(f32::MAX.to_bits() - 1));
    v
}

const FBIN: [FloatOperation; 7] = [
    FloatOperation::Add,
    FloatOperation::Sub,
    FloatOperation::Mul,
    FloatOperation::Div,
    FloatOperation::Eq,
    FloatOperation::Lt,
    FloatOperation::Gt,
];

fn fsem(t: FloatType, bits: u64) -> SemValue {
    SemValue::Literal(Literal::Float(match t {
        | FloatType::Float32 => FloatLiteral::Float32(bits as u32),
        | FloatType::Float64 => FloatLiteral::Float64(bits),
    }))
}

#[derive(Debug)]
enum FGot {
    Bits(u64),
    Branch(bool),
    Text(String),
}

fn observe_float(t: FloatType, op: FloatOperation, a: u64, b: u64) -> Result<FGot, String> {
    let role = BuiltinValueRole::Float(t, op);
    let args = match op {
        | FloatOperation::ToString => vec![fsem(t, a)],
        | FloatOperation::Eq | FloatOperation::Lt | FloatOperation::Gt => {
            vec![fsem(t, a), fsem(t, b), marker(1), marker(0)]
        }
        | _ => vec![fsem(t, a), fsem(t, b)],
    };
    let out = call_prim(role, args, 1, b"", &[]);
    match out.shape {
        | Err(p) => Err(format!("panic {:?} at {}", p.msg, p.loc)),
        | Ok(shape) => {
            if out.stack_left != 1 {
                return Err(format!("consumed wrong number of arguments ({} left of 1)", out.stack_left));
            }
            match shape {
                | Shape::Ret(SemValue::Literal(Literal::Float(l))) => {
                    if l.float_type() != t {
                        return Err(format!("result has width {:?}", l.float_type()));
                    }
                    Ok(FGot::Bits(l.to_bits()))
                }
                | Shape::Ret(SemValue::Literal(Literal::String(s))) => Ok(FGot::Text(s.as_str().to_string())),
                | Shape::Call(k, args) if args.is_empty() => Ok(FGot::Branch(k == 1)),
                | other => Err(format!("unexpected shape {:?}", other)),
            }
        }
    }
}

/// Sub-check: float operations over the boundary cross product.
pub struct OpsFloat;
impl Check for OpsFloat {
    fn property(&self) -> &'static str {
        "C05"
    }
    fn name(&self) -> String {
        "c05-opsfloat".into()
    }
    fn len(&self) -> usize {
        f32_boundary().len() + f64_boundary().len()
    }
    fn describe(&self, i: usize) -> String {
        let n32 = f32_boundary().len();
        if i < n32 {
            format!("Float32 a={:e} (bits {:#x}) against every boundary b, 7 binary roles + to_string", f32_boundary()[i], f32_boundary()[i].to_bits())
        } else {
            format!("Float64 a={:e} (bits {:#x}) against every boundary b, 7 binary roles + to_string", f64_boundary()[i - n32], f64_boundary()[i - n32].to_bits())
        }
    }
    fn rule(&self) -> String {
        "boundary sets (signed zeros, subnormals, 1+-ulp, MAX, inf, NaN, f32/f64 rounding-sensitive values) squared x {add,sub,mul,div,eq,lt,gt} + to_string for both widths; Float32 oracle = f64 arithmetic narrowed (exact by the 2p+2 rule), Float64 oracle = harness-side IEEE operation; NaN compared as is-NaN; to_string must parse back to the same bits".into()
    }
    fn exhaustive(&self) -> bool {
        false
    }
    fn run(&mut self, i: usize) -> CaseResult {
        let n32 = f32_boundary().len();
        let mut r = CaseResult::ok("row").nontrivial(true);
        let mut n = 0u64;
        if i < n32 {
            let a = f32_boundary()[i];
            r = r.key(hash64(&format!("f32 {}", a.to_bits())));
            for b in f32_boundary() {
                for op in FBIN {
                    n += 1;
                    let (af, bf) = (a as f64, b as f64);
                    let got = observe_float(FloatType::Float32, op, a.to_bits() as u64, b.to_bits() as u64);
                    let ok = match (&got, op) {
                        | (Ok(FGot::Bits(bits)), FloatOperation::Add) => same32(*bits as u32, (af + bf) as f32),
                        | (Ok(FGot::Bits(bits)), FloatOperation::Sub) => same32(*bits as u32, (af - bf) as f32),
                        | (Ok(FGot::Bits(bits)), FloatOperation::Mul) => same32(*bits as u32, (af * bf) as f32),
                        | (Ok(FGot::Bits(bits)), FloatOperation::Div) => same32(*bits as u32, (af / bf) as f32),
                        | (Ok(FGot::Branch(x)), FloatOperation::Eq) => *x == (af == bf),
                        | (Ok(FGot::Branch(x)), FloatOperation::Lt) => *x == (af < bf),
                        | (Ok(FGot::Branch(x)), FloatOperation::Gt) => *x == (af > bf),
                        | _ => false,
                    };
                    if !ok {
                        r = r.violation(
                            format!("Float32 {:?} wrong result", op),
                            format!("Float32 {:?} a={:e} ({:#x}) b={:e} ({:#x}): got {:?}", op, a, a.to_bits(), b, b.to_bits(), got),
                        );
                    }
                }
            }
            n += 1;
            let got = observe_float(FloatType::Float32, FloatOperation::ToString, a.to_bits() as u64, 0);
            let ok = match &got {
                | Ok(FGot::Text(s)) => match s.parse::<f32>() {
                    | Ok(p) => same32(p.to_bits(), a),
                    | Err(_) => false,
                },
                | _ => false,
            };
            if !ok {
                r = r.violation("Float32 to_string does not round-trip", format!("a={:e} ({:#x}): got {:?}", a, a.to_bits(), got));
            }
        } else {
            let a = f64_boundary()[i - n32];
            r = r.key(hash64(&format!("f64 {}", a.to_bits())));
            for b in f64_boundary() {
                for op in FBIN {
                    n += 1;
                    let got = observe_float(FloatType::Float64, op, a.to_bits(), b.to_bits());
                    let ok = match (&got, op) {
                        | (Ok(FGot::Bits(bits)), FloatOperation::Add) => same64(*bits, a + b),
                        | (Ok(FGot::Bits(bits)), FloatOperation::Sub) => same64(*bits, a - b),
                        | (Ok(FGot::Bits(bits)), FloatOperation::Mul) => same64(*bits, a * b),
                        | (Ok(FGot::Bits(bits)), FloatOperation::Div) => same64(*bits, a / b),
                        | (Ok(FGot::Branch(x)), FloatOperation::Eq) => *x == (a == b),
                        | (Ok(FGot::Branch(x)), FloatOperation::Lt) => *x == (a < b),
                        | (Ok(FGot::Branch(x)), FloatOperation::Gt) => *x == (a > b),
                        | _ => false,
                    };
                    if !ok {
                        r = r.violation(
                            format!("Float64 {:?} wrong result", op),
                            format!("Float64 {:?} a={:e} b={:e}: got {:?}", op, a, b, got),
                        );
                    }
                }
            }
            n += 1;
            let got = observe_float(FloatType::Float64, FloatOperation::ToString, a.to_bits(), 0);
            let ok = match &got {
                | Ok(FGot::Text(s)) => match s.parse::<f64>() {
                    | Ok(p) => same64(p.to_bits(), a),
                    | Err(_) => false,
                },
                | _ => false,
            };
            if !ok {
                r = r.violation("Float64 to_string does not round-trip", format!("a={:e}: got {:?}", a, got));
            }
        }
        r.count("operations", n)
    }
}
fn same32(bits: u32, want: f32) -> bool {
    if want.is_nan() { f32::from_bits(bits).is_nan() } else { bits == want.to_bits() }
}
fn same64(bits: u64, want: f64) -> bool {
    if want.is_nan() { f64::from_bits(bits).is_nan() } else { bits == want.to_bits() }
}

/* --------------------------------- literals --------------------------------- */

#[derive(Clone, Debug)]
enum LitCase {
    /// `let x : T = <text> in ret x`: must be accepted iff in range, and return exactly the value
    IntAt { ty: IntegerType, text: String, value: i128 },
    /// `ret <text>` with nothing selecting a type: Int64
    IntDefault { text: String, value: i128 },
    /// float literal text at a float type
    FloatAt { ty: FloatType, text: String },
    /// a literal of the wrong literal class at a type (int literal at String, float literal at Int64...)
    Mismatch { ty_intrinsic: &'static str, text: String },
    /// an Int64-typed variable used at another integer type: no implicit conversion
    NoConversion { from: &'static str, to: &'static str, text: String },
}

pub struct Literals {
    cases: Vec<LitCase>,
    scratch: Option<Scratch>,
}

fn intrinsic_of(t: IntegerType) -> &'static str {
    PrimitiveType::Integer(t).intrinsic_name()
}

impl Literals {
    pub fn new() -> Self {
        let mut cases = vec![];
        let mut values: Vec<i128> = vec![];
        for u in IntegerType::ALL {
            for d in -2..=2 {
                values.push(tmin(u) + d);
                values.push(tmax(u) + d);
            }
        }
        values.extend([0, 1, -1, 2, 42, -42]);
        values.sort();
        values.dedup();
        for ty in IntegerType::ALL {
            for &v in &values {
                cases.push(LitCase::IntAt { ty, text: format!("{}", v), value: v });
                if v >= 0 {
                    cases.push(LitCase::IntAt { ty, text: format!("+{}", v), value: v });
                    cases.push(LitCase::IntAt { ty, text: format!("00{}", v), value: v });
                }
            }
        }
        for &v in &values {
            cases.push(LitCase::IntDefault { text: format!("{}", v), value: v });
        }
        let float_texts = [
            "0.0", "-0.0", "1.0", "1.5", "-2.5", "0.1", "3.4028234663852886e38", "3.4028235e38", "3.4028235677973362e38",
            "3.4028235677973366e38", "3.402823567797337e38", "3.4028236e38", "3.5e38", "-3.4028235677973366e38", "-3.5e38", "1e38", "1e39",
            "1.7976931348623157e308", "1e308", "1e-45", "1e-46", "4.9e-324", "1e-400", "1e400", "-1e400", "2.5e-324", "16777217.0",
            "0.30000000000000004", "123456789.123456789", "1E2", "1e+2", "+1.0", "1.0e0", "9007199254740993.0",
            "0.000000000000000000000000000000000000000000001", "340282350000000000000000000000000000000.0",
            "340282356779733661637539395458142568448.0",
        ];
        for ty in [FloatType::Float32, FloatType::Float64] {
            for t in float_texts {
                cases.push(LitCase::FloatAt { ty, text: t.to_string() });
            }
        }
        for (ty, text) in [
            ("string", "1"), ("string", "1.0"), ("i64", "1.0"), ("i64", "\"s\""), ("i8", "1.0"), ("f64", "1"), ("f32", "1"),
            ("f64", "\"s\""), ("char", "1"), ("i64", "'c'"), ("u8", "'c'"), ("unit", "0"), ("string", "'c'"), ("char", "\"c\""),
        ] {
            cases.push(LitCase::Mismatch { ty_intrinsic: ty, text: text.to_string() });
        }
        let ints = ["i8", "i16", "i32", "i64", "u8", "u16", "u32", "u64"];
        for from in ints {
            for to in ints {
                if from != to {
                    cases.push(LitCase::NoConversion { from, to, text: "1".into() });
                }
            }
        }
        for (from, to) in [("f32", "f64"), ("f64", "f32")] {
            cases.push(LitCase::NoConversion { from, to, text: "1.0".into() });
        }
        Literals { cases, scratch: None }
    }

    fn program(&self, c: &LitCase) -> String {
        let pre = "let Ret = @(intrinsic(ret)) in\n";
        match c {
            | LitCase::IntAt { ty, text, .. } => {
                format!("{pre}let T = @(intrinsic({})) in\nlet x : T = {} in\nret x\n", intrinsic_of(*ty), text)
            }
            | LitCase::IntDefault { text, .. } => format!("{pre}ret {}\n", text),
            | LitCase::FloatAt { ty, text } => format!(
                "{pre}let T = @(intrinsic({})) in\nlet x : T = {} in\nret x\n",
                match ty {
                    | FloatType::Float32 => "f32",
                    | FloatType::Float64 => "f64",
                },
                text
            ),
            | LitCase::Mismatch { ty_intrinsic, text } => {
                format!("{pre}let T = @(intrinsic({})) in\nlet x : T = {} in\nret x\n", ty_intrinsic, text)
            }
            | LitCase::NoConversion { from, to, text } => format!(
                "{pre}let A = @(intrinsic({})) in\nlet B = @(intrinsic({})) in\nlet x : A = {} in\nlet y : B = x in\nret y\n",
                from, to, text
            ),
        }
    }
}

impl Check for Literals {
    fn property(&self) -> &'static str {
        "C05"
    }
    fn name(&self) -> String {
        "c05-literals".into()
    }
    fn len(&self) -> usize {
        self.cases.len()
    }
    fn describe(&self, i: usize) -> String {
        format!("{:?}\n{}", self.cases[i], self.program(&self.cases[i]))
    }
    fn rule(&self) -> String {
        "closed programs `let x : T = <literal> in ret x` for all 8 integer types x {MIN-2..MIN+2, MAX-2..MAX+2 of every integer type, small values} in 3 spellings, `ret <literal>` (defaulting), decimal literals around f32/f64 overflow/underflow at both float types, literal-class mismatches, and variable-at-other-numeric-type programs; oracle: accepted iff mathematical value in range (Float32: the f64 reading is finite after narrowing), returned literal carries exactly that value at that type; non-trivial = accepted cases, distinct by program text".into()
    }
    fn run(&mut self, i: usize) -> CaseResult {
        let c = self.cases[i].clone();
        let text = self.program(&c);
        let scratch = self.scratch.get_or_insert_with(|| Scratch::new("c05"));
        let path = scratch.write("main.zydeco", &text);
        let res = guarded(|| {
            let s = Subject::analyze(&path);
            let v = s.verdict();
            let run = if v.accepted() { Some(s.run(b"", &[], 1000)) } else { None };
            (v, run)
        });
        let (verdict, run) = match res {
            | Ok(x) => x,
            | Err(p) => {
                return CaseResult::ok("panic").violation(
                    format!("front end panicked on a numeric literal program: {} at {}", p.msg, p.loc),
                    format!("{:?}", p),
                );
            }
        };
        let key = hash64(&text);
        let ret_text = |r: &Option<RunResult>| match r {
            | Some(RunResult { end: RunEnd::Ret(s), .. }) => Some(s.clone()),
            | _ => None,
        };
        match &c {
            | LitCase::IntAt { ty, value, .. } => {
                let in_range = *value >= tmin(*ty) && *value <= tmax(*ty);
                if in_range != verdict.accepted() {
                    return CaseResult::ok("mismatch").key(key).violation(
                        format!("integer literal range check wrong at {:?}", ty),
                        format!("value {} at {:?}: in range = {}, verdict = {:?}", value, ty, in_range, verdict),
                    );
                }
                if !in_range {
                    if !matches!(verdict, Verdict::Rejected(_)) {
                        return CaseResult::ok("mismatch").key(key).violation(
                            "out-of-range integer literal not rejected by the type checker",
                            format!("value {} at {:?}: verdict {:?}", value, ty, verdict),
                        );
                    }
                    return CaseResult::ok("rejected-out-of-range").key(key);
                }
                match ret_text(&run) {
                    | Some(s) if s == format!("Integer({})", value) => CaseResult::ok("accepted-exact").nontrivial(true).key(key),
                    | other => CaseResult::ok("mismatch").key(key).violation(
                        format!("integer literal run-time value wrong at {:?}", ty),
                        format!("value {} at {:?}: run gave {:?} / {:?}", value, ty, other, run),
                    ),
                }
            }
            | LitCase::IntDefault { value, .. } => {
                let in_range = *value >= tmin(IntegerType::Int64) && *value <= tmax(IntegerType::Int64);
                if in_range != verdict.accepted() {
                    return CaseResult::ok("mismatch").key(key).violation(
                        "defaulted integer literal: acceptance differs from Int64 range",
                        format!("value {}: verdict {:?}", value, verdict),
                    );
                }
                if !in_range {
                    return CaseResult::ok("rejected-out-of-range").key(key);
                }
                match ret_text(&run) {
                    | Some(s) if s == format!("Integer({})", value) => CaseResult::ok("accepted-exact").nontrivial(true).key(key),
                    | other => CaseResult::ok("mismatch").key(key).violation(
                        "defaulted integer literal run-time value wrong",
                        format!("value {}: run gave {:?}", value, other),
                    ),
                }
            }
            | LitCase::FloatAt { ty, text } => {
                let v: f64 = text.parse().expect("harness float text parses");
                let (accept, want) = match ty {
                    | FloatType::Float64 => (true, format!("Float({:?})", v)),
                    | FloatType::Float32 => {
                        let n = v as f32;
                        (n.is_finite(), format!("Float({:?})", n as f64))
                    }
                };
                // Float64 literals that overflow f64 itself: the statement only constrains Float32 narrowing;
                // record but do not judge acceptance at Float64.
                if !v.is_finite() {
                    return CaseResult::ok(format!("f64-overflow-{}", verdict.tag())).key(key);
                }
                if accept != verdict.accepted() {
                    return CaseResult::ok("mismatch").key(key).violation(
                        format!("decimal literal acceptance wrong at {:?}", ty),
                        format!("literal {} at {:?}: finite after narrowing = {}, verdict {:?}", text, ty, accept, verdict),
                    );
                }
                if !accept {
                    return CaseResult::ok("rejected-not-finite").key(key);
                }
                match ret_text(&run) {
                    | Some(s) if s == want => CaseResult::ok("accepted-exact").nontrivial(true).key(key),
                    | other => CaseResult::ok("mismatch").key(key).violation(
                        format!("decimal literal run-time value wrong at {:?}", ty),
                        format!("literal {} at {:?}: expected {}, run gave {:?}", text, ty, want, other),
                    ),
                }
            }
            | LitCase::Mismatch { ty_intrinsic, text } => {
                if verdict.accepted() {
                    CaseResult::ok("mismatch").key(key).violation(
                        "literal of another class accepted (implicit conversion)",
                        format!("literal {} at intrinsic {}: accepted", text, ty_intrinsic),
                    )
                } else {
                    CaseResult::ok(format!("class-mismatch-{}", verdict.tag())).key(key)
                }
            }
            | LitCase::NoConversion { from, to, .. } => {
                if verdict.accepted() {
                    CaseResult::ok("mismatch").key(key).violation(
                        "implicit numeric conversion accepted",
                        format!("variable of {} used at {}: accepted", from, to),
                    )
                } else {
                    CaseResult::ok(format!("no-conversion-{}", verdict.tag())).key(key)
                }
            }
        }
    }
}

pub fn checks() -> Vec<Box<dyn Check>> {
    vec![Box::new(Ops8), Box::new(OpsWide::new()), Box::new(OpsFloat), Box::new(Literals::new())]
}
