//! System-F fragment: explicit type abstraction / application, type aliases for quantified types,
//! free and bound type variables. A self-contained mini universe (own AST, size-exact type-directed
//! enumerator, reference checker written from the declarative rules, erasure evaluator, printer,
//! mutation catalogue) used by C01 (accepted programs never go wrong), C02 (results agree with the
//! reference) and C03 (well typed <=> accepted), plus a type-equivalence matrix for C03.
use crate::common::*;
use crate::subject::*;
use std::collections::BTreeSet;
use std::rc::Rc;

/* ------------------------------------ types ------------------------------------ */

pub type TV = u16;

#[derive(Clone, Debug, PartialEq, Eq, Hash, PartialOrd, Ord)]
pub enum Ty {
    Int,
    Two,
    Var(TV),
    Thk(Box<CTy>),
    /// binary product
    Pair(Box<Ty>, Box<Ty>),
    /// `exists (X : VType) . T`
    Ex(TV, Box<Ty>),
    /// a type operator (index into OPERATORS) applied to an argument
    App(usize, Box<Ty>),
    /// value-level (pure) function type `A -> B` with B a value type
    VFn(Box<Ty>, Box<Ty>),
    /// value-level universal type `forall (X : VType) . T` with T a value type
    VAll(TV, Box<Ty>),
    /// a named component `(l :: T)` (label index into LABELS)
    Named(u8, Box<Ty>),
}
pub const LABELS: [&str; 3] = ["a", "b", "c"];
fn named(l: u8, t: Ty) -> Ty {
    Ty::Named(l, Box::new(t))
}
/// every occurrence of the field `l` in the transparent named / product structure of `t`:
/// (route through the products: false = first component, true = second; payload type)
pub fn find_field(t: &Ty, l: u8) -> Vec<(Vec<bool>, Ty)> {
    fn go(t: &Ty, l: u8, route: &mut Vec<bool>, out: &mut Vec<(Vec<bool>, Ty)>) {
        match expand_t(t) {
            | Ty::Named(m, inner) => {
                if m == l {
                    out.push((route.clone(), (*inner).clone()));
                }
                go(&inner, l, route, out);
            }
            | Ty::Pair(a, b) => {
                route.push(false);
                go(&a, l, route, out);
                route.pop();
                route.push(true);
                go(&b, l, route, out);
                route.pop();
            }
            | _ => {}
        }
    }
    let mut out = vec![];
    go(t, l, &mut vec![], &mut out);
    out
}
#[derive(Clone, Debug, PartialEq, Eq, Hash, PartialOrd, Ord)]
pub enum CTy {
    Ret(Box<Ty>),
    Fn(Box<Ty>, Box<CTy>),
    All(TV, Box<CTy>),
    /// closed alias (index into ALIASES)
    Alias(usize),
}

fn ret(t: Ty) -> CTy {
    CTy::Ret(Box::new(t))
}
fn func(a: Ty, b: CTy) -> CTy {
    CTy::Fn(Box::new(a), Box::new(b))
}
fn all(x: TV, b: CTy) -> CTy {
    CTy::All(x, Box::new(b))
}
fn thk(c: CTy) -> Ty {
    Ty::Thk(Box::new(c))
}

/// alias binders use ids >= 1000 (never produced by the generator)
pub const ID: usize = 0;
pub const CPS: usize = 1;
pub fn aliases() -> Vec<(&'static str, CTy)> {
    vec![
        ("Id", all(1000, func(Ty::Var(1000), ret(Ty::Var(1000))))),
        ("Cps", all(1001, func(Ty::Var(1001), func(thk(func(Ty::Var(1001), ret(Ty::Int))), ret(Ty::Int))))),
    ]
}

/// type operators `Name (P : VType) = body` (parameter ids >= 2000)
pub const CONT: usize = 0;
pub fn operators() -> Vec<(&'static str, TV, Ty)> {
    vec![("Cont", 2000, thk(func(Ty::Var(2000), ret(Ty::Int))))]
}
/// head-normalise a value type (beta-reduce operator applications)
pub fn expand_t(t: &Ty) -> Ty {
    match t {
        | Ty::App(k, a) => {
            let (_, p, body) = &operators()[*k];
            subst_t(body, *p, a)
        }
        | other => other.clone(),
    }
}
fn vfn(a: Ty, b: Ty) -> Ty {
    Ty::VFn(Box::new(a), Box::new(b))
}
fn vall(x: TV, b: Ty) -> Ty {
    Ty::VAll(x, Box::new(b))
}
fn pair(a: Ty, b: Ty) -> Ty {
    Ty::Pair(Box::new(a), Box::new(b))
}
fn ex(x: TV, b: Ty) -> Ty {
    Ty::Ex(x, Box::new(b))
}

pub fn expand(c: &CTy) -> CTy {
    match c {
        | CTy::Alias(k) => aliases()[*k].1.clone(),
        | other => other.clone(),
    }
}

fn subst_t(t: &Ty, x: TV, with: &Ty) -> Ty {
    match t {
        | Ty::Var(y) if *y == x => with.clone(),
        | Ty::Thk(c) => Ty::Thk(Box::new(subst_c(c, x, with))),
        | Ty::Pair(a, b) => pair(subst_t(a, x, with), subst_t(b, x, with)),
        | Ty::App(k, a) => Ty::App(*k, Box::new(subst_t(a, x, with))),
        | Ty::VFn(a, b) => vfn(subst_t(a, x, with), subst_t(b, x, with)),
        | Ty::Named(l, a) => named(*l, subst_t(a, x, with)),
        | Ty::VAll(y, b) if *y == x => Ty::VAll(*y, b.clone()),
        | Ty::VAll(y, b) => {
            let mut fv = BTreeSet::new();
            ftv_t(with, &mut fv);
            if fv.contains(y) {
                let fresh = 20000 + *y;
                let b2 = subst_t(b, *y, &Ty::Var(fresh));
                vall(fresh, subst_t(&b2, x, with))
            } else {
                vall(*y, subst_t(b, x, with))
            }
        }
        | Ty::Ex(y, b) if *y == x => Ty::Ex(*y, b.clone()),
        | Ty::Ex(y, b) => {
            let mut fv = BTreeSet::new();
            ftv_t(with, &mut fv);
            if fv.contains(y) {
                let fresh = 20000 + *y;
                let b2 = subst_t(b, *y, &Ty::Var(fresh));
                ex(fresh, subst_t(&b2, x, with))
            } else {
                ex(*y, subst_t(b, x, with))
            }
        }
        | other => other.clone(),
    }
}
/// capture is impossible by construction: generator binders are unique per program and alias
/// binders are reserved ids; a binder equal to `x` shadows
fn subst_c(c: &CTy, x: TV, with: &Ty) -> CTy {
    match c {
        | CTy::Ret(t) => ret(subst_t(t, x, with)),
        | CTy::Fn(a, b) => func(subst_t(a, x, with), subst_c(b, x, with)),
        | CTy::All(y, b) if *y == x => CTy::All(*y, b.clone()),
        | CTy::All(y, b) => {
            // rename the binder if it would capture a variable of `with`
            let mut fv = BTreeSet::new();
            ftv_t(with, &mut fv);
            if fv.contains(y) {
                let fresh = 20000 + *y;
                let b2 = subst_c(b, *y, &Ty::Var(fresh));
                CTy::All(fresh, Box::new(subst_c(&b2, x, with)))
            } else {
                CTy::All(*y, Box::new(subst_c(b, x, with)))
            }
        }
        | CTy::Alias(k) => CTy::Alias(*k),
    }
}
fn ftv_t(t: &Ty, out: &mut BTreeSet<TV>) {
    match t {
        | Ty::Var(x) => {
            out.insert(*x);
        }
        | Ty::Thk(c) => ftv_c(c, out),
        | Ty::Pair(a, b) => {
            ftv_t(a, out);
            ftv_t(b, out);
        }
        | Ty::App(_, a) | Ty::Named(_, a) => ftv_t(a, out),
        | Ty::VFn(a, b) => {
            ftv_t(a, out);
            ftv_t(b, out);
        }
        | Ty::Ex(x, b) | Ty::VAll(x, b) => {
            let mut inner = BTreeSet::new();
            ftv_t(b, &mut inner);
            inner.remove(x);
            out.extend(inner);
        }
        | _ => {}
    }
}
fn ftv_c(c: &CTy, out: &mut BTreeSet<TV>) {
    match c {
        | CTy::Ret(t) => ftv_t(t, out),
        | CTy::Fn(a, b) => {
            ftv_t(a, out);
            ftv_c(b, out);
        }
        | CTy::All(x, b) => {
            let mut inner = BTreeSet::new();
            ftv_c(b, &mut inner);
            inner.remove(x);
            out.extend(inner);
        }
        | CTy::Alias(_) => {}
    }
}

/// alpha-equivalence with alias expansion; `m` pairs bound variables
pub fn aeq_t(a: &Ty, b: &Ty, m: &mut Vec<(TV, TV)>) -> bool {
    match (&expand_t(a), &expand_t(b)) {
        | (Ty::Int, Ty::Int) | (Ty::Two, Ty::Two) => true,
        | (Ty::Var(x), Ty::Var(y)) => {
            for (l, r) in m.iter().rev() {
                if l == x || r == y {
                    return l == x && r == y;
                }
            }
            x == y
        }
        | (Ty::Thk(c), Ty::Thk(d)) => aeq_c(c, d, m),
        | (Ty::Pair(a1, b1), Ty::Pair(a2, b2)) => aeq_t(a1, a2, m) && aeq_t(b1, b2, m),
        | (Ty::Ex(x, s), Ty::Ex(y, t)) | (Ty::VAll(x, s), Ty::VAll(y, t)) => {
            m.push((*x, *y));
            let r = aeq_t(s, t, m);
            m.pop();
            r
        }
        | (Ty::VFn(a1, b1), Ty::VFn(a2, b2)) => aeq_t(a1, a2, m) && aeq_t(b1, b2, m),
        | (Ty::Named(l1, a1), Ty::Named(l2, a2)) => l1 == l2 && aeq_t(a1, a2, m),
        | _ => false,
    }
}
pub fn aeq_c(a: &CTy, b: &CTy, m: &mut Vec<(TV, TV)>) -> bool {
    match (expand(a), expand(b)) {
        | (CTy::Ret(s), CTy::Ret(t)) => aeq_t(&s, &t, m),
        | (CTy::Fn(a1, b1), CTy::Fn(a2, b2)) => aeq_t(&a1, &a2, m) && aeq_c(&b1, &b2, m),
        | (CTy::All(x, s), CTy::All(y, t)) => {
            m.push((x, y));
            let r = aeq_c(&s, &t, m);
            m.pop();
            r
        }
        | _ => false,
    }
}
pub fn teq(a: &Ty, b: &Ty) -> bool {
    aeq_t(a, b, &mut vec![])
}
pub fn ceq(a: &CTy, b: &CTy) -> bool {
    aeq_c(a, b, &mut vec![])
}

/* ------------------------------------ terms ------------------------------------ */

pub type Var = u16;

#[derive(Clone, Debug, PartialEq, Eq, Hash)]
pub enum Val {
    Var(Var),
    Int(i64),
    A,
    B,
    Thunk(Box<Cmp>),
    Pair(Box<Val>, Box<Val>),
    /// `(T, payload)` at an existential type; only directly under an annotated `let`
    Pack(Ty, Box<Val>),
    /// value-level function `fn (x : T) => v`
    VLam(Var, Ty, Box<Val>),
    /// value-level application `f a`
    VApp(Box<Val>, Box<Val>),
    /// value-level type abstraction `fn (X : VType) => v` and application `f T`
    VTLam(TV, Box<Val>),
    VTApp(Box<Val>, Ty),
    /// `(l = v)`
    Named(u8, Box<Val>),
    /// `v/l` with the resolved route through the receiver's products
    Proj(Box<Val>, u8, Vec<bool>),
}
#[derive(Clone, Debug, PartialEq, Eq, Hash)]
pub enum Cmp {
    Ret(Val),
    /// `do (x : T) <- c1; c2`
    Do(Var, Ty, Box<Cmp>, Box<Cmp>),
    Fn(Var, Ty, Box<Cmp>),
    TFn(TV, Box<Cmp>),
    App(Box<Cmp>, Val),
    TApp(Box<Cmp>, Ty),
    Force(Val),
    Let(Var, Ty, Val, Box<Cmp>),
    Match(Val, Box<Cmp>, Box<Cmp>),
    /// `let (X, x) = p in c`: open an existential package
    Unpack(TV, Var, Val, Box<Cmp>),
    /// `let (a, b) = v in c`
    LetPair(Var, Var, Val, Box<Cmp>),
    /// `let (/X = T; /l = x; ..) = p in c`: a group of projection patterns on a record or on an
    /// existential package (opened once; the witness selected — (binder label, bound name) — or anonymous)
    Open(Option<(TV, TV)>, Vec<(u8, Vec<bool>, Var)>, Val, Box<Cmp>),
}

/* ------------------------------- reference checker ------------------------------- */

#[derive(Clone, Default)]
pub struct Scope {
    pub vars: Vec<(Var, Ty)>,
    pub tvs: Vec<TV>,
    /// witnesses opened without a name: in scope, but no annotation can mention them
    pub anon: Vec<TV>,
}
impl Scope {
    fn with_var(&self, x: Var, t: Ty) -> Scope {
        let mut s = self.clone();
        s.vars.push((x, t));
        s
    }
    fn with_tv(&self, x: TV) -> Scope {
        let mut s = self.clone();
        s.tvs.push(x);
        s
    }
    fn with_anon(&self, x: TV) -> Scope {
        let mut s = self.clone();
        s.anon.push(x);
        s
    }
    fn fresh_anon(&self) -> TV {
        3000 + (self.tvs.len() + self.anon.len()) as TV
    }
    fn lookup(&self, x: Var) -> Option<&Ty> {
        self.vars.iter().rev().find(|(y, _)| *y == x).map(|(_, t)| t)
    }
}

fn wf_t(s: &Scope, t: &Ty) -> Result<(), String> {
    let mut fv = BTreeSet::new();
    ftv_t(t, &mut fv);
    for x in fv {
        if !s.tvs.contains(&x) && !s.anon.contains(&x) {
            return Err(format!("type variable T{x} is not in scope"));
        }
    }
    Ok(())
}

pub fn synth_v(s: &Scope, v: &Val) -> Result<Ty, String> {
    Ok(match v {
        | Val::Var(x) => s.lookup(*x).cloned().ok_or_else(|| format!("unbound v{x}"))?,
        | Val::Int(_) => Ty::Int,
        | Val::A | Val::B => Ty::Two,
        | Val::Thunk(c) => thk(synth_c(s, c)?),
        | Val::Pair(a, b) => pair(synth_v(s, a)?, synth_v(s, b)?),
        | Val::Pack(..) => return Err("a package needs an annotation".into()),
        | Val::VLam(x, t, b) => {
            wf_t(s, t)?;
            vfn(t.clone(), synth_v(&s.with_var(*x, t.clone()), b)?)
        }
        | Val::VTLam(x, b) => vall(*x, synth_v(&s.with_tv(*x), b)?),
        | Val::VApp(f, a) => match expand_t(&synth_v(s, f)?) {
            | Ty::VFn(d, c) => {
                let t = synth_v(s, a)?;
                if !teq(&t, &d) {
                    return Err(format!("value argument of type {} where {} is expected", show_t(&t), show_t(&d)));
                }
                *c
            }
            | other => return Err(format!("value application of a value of type {}", show_t(&other))),
        },
        | Val::VTApp(f, t) => match expand_t(&synth_v(s, f)?) {
            | Ty::VAll(x, b) => {
                wf_t(s, t)?;
                subst_t(&b, x, t)
            }
            | other => return Err(format!("value type application of a value of type {}", show_t(&other))),
        },
        | Val::Named(l, v) => named(*l, synth_v(s, v)?),
        | Val::Proj(v, l, route) => {
            let t = synth_v(s, v)?;
            let found = find_field(&t, *l);
            match found.as_slice() {
                | [(r, payload)] => {
                    assert!(r == route, "stale projection route in the harness AST");
                    payload.clone()
                }
                | [] => return Err(format!("no field {} in {}", LABELS[*l as usize], show_t(&t))),
                | _ => return Err(format!("ambiguous field {} in {}", LABELS[*l as usize], show_t(&t))),
            }
        }
    })
}
/// checking mode for the one form that needs it
fn check_v(s: &Scope, v: &Val, t: &Ty) -> Result<(), String> {
    match v {
        | Val::Pack(w, payload) => match expand_t(t) {
            | Ty::Ex(x, b) => {
                wf_t(s, w)?;
                let want = subst_t(&b, x, w);
                let got = synth_v(s, payload)?;
                if !teq(&got, &want) {
                    return Err(format!("package payload of type {} where {} is expected", show_t(&got), show_t(&want)));
                }
                Ok(())
            }
            | other => Err(format!("a package at the non-existential type {}", show_t(&other))),
        },
        | _ => {
            let tv = synth_v(s, v)?;
            if !teq(&tv, t) {
                return Err(format!("let binds a value of type {} at annotation {}", show_t(&tv), show_t(t)));
            }
            Ok(())
        }
    }
}
pub fn synth_c(s: &Scope, c: &Cmp) -> Result<CTy, String> {
    Ok(match c {
        | Cmp::Ret(v) => ret(synth_v(s, v)?),
        | Cmp::Do(x, t, c1, c2) => match expand(&synth_c(s, c1)?) {
            | CTy::Ret(a) => {
                wf_t(s, t)?;
                if !teq(&a, t) {
                    return Err(format!("do binds a result of type {} at annotation {}", show_t(&a), show_t(t)));
                }
                synth_c(&s.with_var(*x, t.clone()), c2)?
            }
            | other => return Err(format!("do binds a computation of type {}", show_c(&other))),
        },
        | Cmp::Fn(x, t, b) => {
            wf_t(s, t)?;
            func(t.clone(), synth_c(&s.with_var(*x, t.clone()), b)?)
        }
        | Cmp::TFn(x, b) => all(*x, synth_c(&s.with_tv(*x), b)?),
        | Cmp::App(f, v) => match expand(&synth_c(s, f)?) {
            | CTy::Fn(a, b) => {
                let t = synth_v(s, v)?;
                if !teq(&t, &a) {
                    return Err(format!("argument of type {} where {} is expected", show_t(&t), show_t(&a)));
                }
                *b
            }
            | other => return Err(format!("application of a computation of type {}", show_c(&other))),
        },
        | Cmp::TApp(f, t) => match expand(&synth_c(s, f)?) {
            | CTy::All(x, b) => {
                wf_t(s, t)?;
                subst_c(&b, x, t)
            }
            | other => return Err(format!("type application of a computation of type {}", show_c(&other))),
        },
        | Cmp::Force(v) => match expand_t(&synth_v(s, v)?) {
            | Ty::Thk(c) => *c,
            | other => return Err(format!("force of a value of type {}", show_t(&other))),
        },
        | Cmp::Let(x, t, v, b) => {
            wf_t(s, t)?;
            check_v(s, v, t)?;
            synth_c(&s.with_var(*x, t.clone()), b)?
        }
        | Cmp::Unpack(x, y, p, b) => match expand_t(&synth_v(s, p)?) {
            | Ty::Ex(z, body) => {
                let t = subst_t(&body, z, &Ty::Var(*x));
                let r = synth_c(&s.with_tv(*x).with_var(*y, t), b)?;
                let mut fv = BTreeSet::new();
                ftv_c(&r, &mut fv);
                if fv.contains(x) {
                    return Err(format!("the abstract type T{x} escapes in {}", show_c(&r)));
                }
                r
            }
            // `let (X, y) = pair` is an ordinary pair pattern with a capitalised variable
            | other @ Ty::Pair(..) => return Err(format!("UNCLASSIFIED: unpacking a value of type {}", show_t(&other))),
            | other => return Err(format!("unpacking a value of type {}", show_t(&other))),
        },
        | Cmp::LetPair(x, y, v, b) => match expand_t(&synth_v(s, v)?) {
            | Ty::Pair(a, c) => synth_c(&s.with_var(*x, *a).with_var(*y, *c), b)?,
            // `let (x, y) = package` is the language's unpacking with a lower-case type binder
            | other @ Ty::Ex(..) => return Err(format!("UNCLASSIFIED: pair pattern on a value of type {}", show_t(&other))),
            | other => return Err(format!("pair pattern on a value of type {}", show_t(&other))),
        },
        | Cmp::Open(w, fields, p, b) => {
            let (s2, body_ty, witness) = open_scope(s, w, &synth_v(s, p)?)?;
            let mut s3 = s2;
            for (l, route, x) in fields {
                let found = find_field(&body_ty, *l);
                match found.as_slice() {
                    | [(r, payload)] => {
                        assert!(r == route, "stale projection route in the harness AST");
                        s3 = s3.with_var(*x, payload.clone());
                    }
                    | [] => return Err(format!("no field {} in {}", LABELS[*l as usize], show_t(&body_ty))),
                    | _ => return Err(format!("ambiguous field {} in {}", LABELS[*l as usize], show_t(&body_ty))),
                }
            }
            let r = synth_c(&s3, b)?;
            if let Some(wv) = witness {
                let mut fv = BTreeSet::new();
                ftv_c(&r, &mut fv);
                if fv.contains(&wv) {
                    return Err(format!("the abstract type T{wv} escapes in {}", show_c(&r)));
                }
            }
            r
        }
        | Cmp::Match(v, c1, c2) => {
            let t = expand_t(&synth_v(s, v)?);
            if t != Ty::Two {
                return Err(format!("match on a value of type {}", show_t(&t)));
            }
            let t1 = synth_c(s, c1)?;
            let t2 = synth_c(s, c2)?;
            if !ceq(&t1, &t2) {
                return Err(format!("arms of types {} and {}", show_c(&t1), show_c(&t2)));
            }
            t1
        }
    })
}

/// the scope, the record type and the witness variable inside a group of projection patterns on a value of type `t`
fn open_scope(s: &Scope, w: &Option<(TV, TV)>, t: &Ty) -> Result<(Scope, Ty, Option<TV>), String> {
    match (expand_t(t), w) {
        | (Ty::Ex(z, body), Some((label, x))) => {
            if *label != z {
                return Err(format!("no type field T{label} in the package"));
            }
            Ok((s.with_tv(*x), subst_t(&body, z, &Ty::Var(*x)), Some(*x)))
        }
        | (Ty::Ex(z, body), None) => {
            let a = s.fresh_anon();
            Ok((s.with_anon(a), subst_t(&body, z, &Ty::Var(a)), Some(a)))
        }
        | (other, Some((label, _))) => Err(format!("no type field T{label} in {}", show_t(&other))),
        | (other, None) => Ok((s.clone(), other, None)),
    }
}

/* ------------------------------- erasure evaluator ------------------------------- */

#[derive(Clone, Debug)]
pub enum RV {
    Int(i64),
    A,
    B,
    Thunk(Rc<Cmp>, REnv),
    Pair(Box<RV>, Box<RV>),
    VClosure(Var, Rc<Val>, REnv),
    VTClosure(Rc<Val>, REnv),
}
pub type REnv = im::OrdMap<Var, RV>;
enum Frame {
    Arg(RV),
    TyArg,
    Kont(Var, Rc<Cmp>, REnv),
}
pub fn show_rv(v: &RV) -> String {
    match v {
        | RV::Int(n) => format!("Integer({n})"),
        | RV::A => "+A(())".into(),
        | RV::B => "+B(())".into(),
        | RV::Thunk(..) => "<thunk>".into(),
        | RV::VClosure(..) | RV::VTClosure(..) => "<vclosure>".into(),
        | RV::Pair(a, b) => {
            // right-nested products are flat
            let bs = show_rv(b);
            if matches!(b.as_ref(), RV::Pair(..)) { format!("({},{}", show_rv(a), &bs[1..]) } else { format!("({},{})", show_rv(a), bs) }
        }
    }
}
/// Ok(rendered result) | Err(reason the reference got stuck or ran out of fuel)
pub fn eval(c: &Cmp, mut fuel: u64) -> Result<String, String> {
    let mut stack: Vec<Frame> = vec![];
    let mut cur = Rc::new(c.clone());
    let mut env = REnv::new();
    fn value(v: &Val, env: &REnv) -> Result<RV, String> {
        Ok(match v {
            | Val::Var(x) => env.get(x).cloned().ok_or_else(|| format!("unbound v{x}"))?,
            | Val::Int(n) => RV::Int(*n),
            | Val::A => RV::A,
            | Val::B => RV::B,
            | Val::Thunk(c) => RV::Thunk(Rc::new((**c).clone()), env.clone()),
            | Val::Pair(a, b) => RV::Pair(Box::new(value(a, env)?), Box::new(value(b, env)?)),
            // types are erased: a package is its payload
            | Val::Pack(_, payload) => value(payload, env)?,
            | Val::VLam(x, _, b) => RV::VClosure(*x, Rc::new((**b).clone()), env.clone()),
            | Val::VTLam(_, b) => RV::VTClosure(Rc::new((**b).clone()), env.clone()),
            | Val::VApp(f, a) => match value(f, env)? {
                | RV::VClosure(x, b, e) => {
                    let arg = value(a, env)?;
                    value(&b, &e.update(x, arg))?
                }
                | other => return Err(format!("STUCK: value application of {}", show_rv(&other))),
            },
            | Val::VTApp(f, _) => match value(f, env)? {
                | RV::VTClosure(b, e) => value(&b, &e)?,
                | other => return Err(format!("STUCK: value type application of {}", show_rv(&other))),
            },
            // names are erased
            | Val::Named(_, v) => value(v, env)?,
            | Val::Proj(v, _, route) => follow(value(v, env)?, route)?,
        })
    }
    fn follow(mut rv: RV, route: &[bool]) -> Result<RV, String> {
        for step in route {
            rv = match rv {
                | RV::Pair(a, b) => {
                    if *step {
                        *b
                    } else {
                        *a
                    }
                }
                | other => return Err(format!("STUCK: projection from {}", show_rv(&other))),
            };
        }
        Ok(rv)
    }
    loop {
        if fuel == 0 {
            return Err("fuel".into());
        }
        fuel -= 1;
        let node = cur.clone();
        match node.as_ref() {
            | Cmp::Ret(v) => {
                let rv = value(v, &env)?;
                match stack.pop() {
                    | None => return Ok(show_rv(&rv)),
                    | Some(Frame::Kont(x, k, kenv)) => {
                        env = kenv.update(x, rv);
                        cur = k;
                    }
                    | Some(_) => return Err("STUCK: ret with an argument on the stack".into()),
                }
            }
            | Cmp::Do(x, _, c1, c2) => {
                stack.push(Frame::Kont(*x, Rc::new((**c2).clone()), env.clone()));
                cur = Rc::new((**c1).clone());
            }
            | Cmp::Fn(x, _, b) => match stack.pop() {
                | Some(Frame::Arg(a)) => {
                    env = env.update(*x, a);
                    cur = Rc::new((**b).clone());
                }
                | _ => return Err("STUCK: fn without a value argument".into()),
            },
            | Cmp::TFn(_, b) => match stack.pop() {
                | Some(Frame::TyArg) => cur = Rc::new((**b).clone()),
                | _ => return Err("STUCK: type abstraction without a type argument".into()),
            },
            | Cmp::App(f, v) => {
                stack.push(Frame::Arg(value(v, &env)?));
                cur = Rc::new((**f).clone());
            }
            | Cmp::TApp(f, _) => {
                stack.push(Frame::TyArg);
                cur = Rc::new((**f).clone());
            }
            | Cmp::Force(v) => match value(v, &env)? {
                | RV::Thunk(b, e) => {
                    env = e;
                    cur = b;
                }
                | other => return Err(format!("STUCK: force of {}", show_rv(&other))),
            },
            | Cmp::Let(x, _, v, b) => {
                let rv = value(v, &env)?;
                env = env.update(*x, rv);
                cur = Rc::new((**b).clone());
            }
            | Cmp::Match(v, c1, c2) => match value(v, &env)? {
                | RV::A => cur = Rc::new((**c1).clone()),
                | RV::B => cur = Rc::new((**c2).clone()),
                | other => return Err(format!("STUCK: match on {}", show_rv(&other))),
            },
            | Cmp::Unpack(_, y, p, b) => {
                let rv = value(p, &env)?;
                env = env.update(*y, rv);
                cur = Rc::new((**b).clone());
            }
            | Cmp::LetPair(x, y, v, b) => match value(v, &env)? {
                | RV::Pair(a, c) => {
                    env = env.update(*x, *a).update(*y, *c);
                    cur = Rc::new((**b).clone());
                }
                | other => return Err(format!("STUCK: pair pattern on {}", show_rv(&other))),
            },
            | Cmp::Open(_, fields, p, b) => {
                let rv = value(p, &env)?;
                for (_, route, x) in fields {
                    env = env.update(*x, follow(rv.clone(), route)?);
                }
                cur = Rc::new((**b).clone());
            }
        }
    }
}

/* ------------------------------------ printer ------------------------------------ */

pub fn show_t(t: &Ty) -> String {
    match t {
        | Ty::Int => "Int64".into(),
        | Ty::Two => "Two".into(),
        | Ty::Var(x) => tv_name(*x),
        | Ty::Thk(c) => format!("Thk ({})", show_c(c)),
        | Ty::Pair(a, b) => format!("{} * {}", show_t_atom_arrow(a), show_t_atom_arrow(b)),
        | Ty::Ex(x, b) => format!("exists ({} : VType) . {}", tv_name(*x), show_t(b)),
        | Ty::App(k, a) => format!("{} {}", operators()[*k].0, show_t_atom(a)),
        | Ty::VFn(a, b) => format!("{} -> {}", show_t_arrow_param(a), show_t_arrow_cod(b)),
        | Ty::VAll(x, b) => format!("forall ({} : VType) . {}", tv_name(*x), show_t(b)),
        | Ty::Named(l, a) => format!("({} :: {})", LABELS[*l as usize], show_t_atom_arrow(a)),
    }
}
fn show_t_arrow_param(t: &Ty) -> String {
    match t {
        | Ty::VFn(..) | Ty::VAll(..) | Ty::Pair(..) | Ty::Ex(..) => format!("({})", show_t(t)),
        | _ => show_t(t),
    }
}
fn show_t_arrow_cod(t: &Ty) -> String {
    match t {
        | Ty::VAll(..) | Ty::Ex(..) => format!("({})", show_t(t)),
        | _ => show_t(t),
    }
}
fn show_t_atom(t: &Ty) -> String {
    match t {
        | Ty::Thk(_) | Ty::Pair(..) | Ty::Ex(..) | Ty::App(..) | Ty::VFn(..) | Ty::VAll(..) => format!("({})", show_t(t)),
        | _ => show_t(t),
    }
}
pub fn show_c(c: &CTy) -> String {
    match c {
        | CTy::Ret(t) => format!("Ret {}", show_t_atom(t)),
        | CTy::Fn(a, b) => match b.as_ref() {
            // a quantifier is looser than an arrow in the grammar
            | CTy::All(..) => format!("{} -> ({})", show_t_atom_arrow(a), show_c(b)),
            | _ => format!("{} -> {}", show_t_atom_arrow(a), show_c(b)),
        },
        | CTy::All(x, b) => format!("forall ({} : VType) . {}", tv_name(*x), show_c(b)),
        | CTy::Alias(k) => aliases()[*k].0.to_string(),
    }
}
fn show_t_atom_arrow(t: &Ty) -> String {
    // `Thk (..)` and operator applications bind tighter than `->` and `*`
    match t {
        | Ty::Pair(..) | Ty::Ex(..) | Ty::VFn(..) | Ty::VAll(..) => format!("({})", show_t(t)),
        | _ => show_t(t),
    }
}
thread_local! {
    /// printing mode: every type binder of the program (not of the prelude) gets the one name `T`
    static SAME_NAME: std::cell::Cell<bool> = const { std::cell::Cell::new(false) };
}
fn tv_name(x: TV) -> String {
    if x < 1000 && SAME_NAME.with(|s| s.get()) {
        return "T".into();
    }
    if x >= 2000 {
        format!("P{}", x - 2000)
    } else if x >= 1000 {
        format!("X{}", x - 1000)
    } else {
        format!("T{x}")
    }
}
/// expand every alias (printing mode `inline`)
fn inline_t(t: &Ty) -> Ty {
    match t {
        | Ty::Thk(c) => thk(inline_c(c)),
        | Ty::Pair(a, b) => pair(inline_t(a), inline_t(b)),
        | Ty::Ex(x, b) => ex(*x, inline_t(b)),
        | Ty::App(..) => inline_t(&expand_t(t)),
        | Ty::VFn(a, b) => vfn(inline_t(a), inline_t(b)),
        | Ty::VAll(x, b) => vall(*x, inline_t(b)),
        | Ty::Named(l, a) => named(*l, inline_t(a)),
        | o => o.clone(),
    }
}
fn inline_c(c: &CTy) -> CTy {
    match c {
        | CTy::Ret(t) => ret(inline_t(t)),
        | CTy::Fn(a, b) => func(inline_t(a), inline_c(b)),
        | CTy::All(x, b) => all(*x, inline_c(b)),
        | CTy::Alias(k) => inline_c(&aliases()[*k].1),
    }
}

fn pv(v: &Val, inline: bool) -> String {
    match v {
        | Val::Var(x) => format!("v{x}"),
        | Val::Int(n) => format!("{n}"),
        // constructors of a structural data type do not synthesise: annotate them
        | Val::A => "(+A() : Two)".into(),
        | Val::B => "(+B() : Two)".into(),
        | Val::Thunk(c) => format!("{{ {} }}", pc(c, inline)),
        | Val::Pair(a, b) => format!("({}, {})", pv(a, inline), pv(b, inline)),
        | Val::Pack(w, payload) => {
            let ws = pt(w, inline);
            match payload.as_ref() {
                // a package over a pair is written flat: products nest to the right
                | Val::Pair(a, b) => format!("({}, {}, {})", ws, pv(a, inline), pv(b, inline)),
                | other => format!("({}, {})", ws, pv(other, inline)),
            }
        }
        | Val::VLam(x, t, b) => format!("(fn (v{x} : {}) => {})", pt(t, inline), pv(b, inline)),
        | Val::VTLam(x, b) => format!("(fn ({} : VType) => {})", tv_name(*x), pv(b, inline)),
        | Val::VApp(f, a) => format!("({} {})", pv(f, inline), pv(a, inline)),
        | Val::VTApp(f, t) => {
            let ts = pt(t, inline);
            let ts = if matches!(t, Ty::Int | Ty::Two | Ty::Var(_)) { ts } else { format!("({ts})") };
            format!("({} {})", pv(f, inline), ts)
        }
        | Val::Named(l, v) => format!("({} = {})", LABELS[*l as usize], pv(v, inline)),
        | Val::Proj(v, l, _) => format!("({}/{})", pv(v, inline), LABELS[*l as usize]),
    }
}
fn pt(t: &Ty, inline: bool) -> String {
    if inline { show_t(&inline_t(t)) } else { show_t(t) }
}
fn head(c: &Cmp, inline: bool) -> String {
    match c {
        | Cmp::Force(_) | Cmp::App(..) | Cmp::TApp(..) => pc(c, inline),
        | _ => format!("({})", pc(c, inline)),
    }
}
pub fn pc(c: &Cmp, inline: bool) -> String {
    match c {
        | Cmp::Ret(v) => format!("ret {}", pv(v, inline)),
        | Cmp::Do(x, t, c1, c2) => {
            let a = match c1.as_ref() {
                | Cmp::Do(..) | Cmp::Let(..) | Cmp::Fn(..) | Cmp::TFn(..) | Cmp::Match(..) | Cmp::Unpack(..) | Cmp::LetPair(..) | Cmp::Open(..) => format!("({})", pc(c1, inline)),
                | _ => pc(c1, inline),
            };
            format!("do (v{x} : {}) <- {a}; {}", pt(t, inline), pc(c2, inline))
        }
        | Cmp::Fn(x, t, b) => format!("fn (v{x} : {}) => {}", pt(t, inline), pc(b, inline)),
        | Cmp::TFn(x, b) => format!("fn ({} : VType) => {}", tv_name(*x), pc(b, inline)),
        | Cmp::App(f, v) => format!("{} {}", head(f, inline), pv(v, inline)),
        | Cmp::TApp(f, t) => {
            let ts = pt(t, inline);
            let ts = if matches!(t, Ty::Thk(_) | Ty::Pair(..) | Ty::Ex(..) | Ty::App(..) | Ty::VFn(..) | Ty::VAll(..)) { format!("({ts})") } else { ts };
            format!("{} {}", head(f, inline), ts)
        }
        | Cmp::Force(v) => format!("! {}", pv(v, inline)),
        | Cmp::Let(x, t, v, b) => format!("let v{x} : {} = {} in {}", pt(t, inline), pv(v, inline), pc(b, inline)),
        | Cmp::Match(v, c1, c2) => format!("match {} | +A() => {} | +B() => {} end", pv(v, inline), pc(c1, inline), pc(c2, inline)),
        | Cmp::Unpack(x, y, p, b) => format!("let ({}, v{y}) = {} in {}", tv_name(*x), pv(p, inline), pc(b, inline)),
        | Cmp::LetPair(x, y, v, b) => format!("let (v{x}, v{y}) = {} in {}", pv(v, inline), pc(b, inline)),
        | Cmp::Open(w, fields, p, b) => {
            let mut members: Vec<String> = vec![];
            if let Some((label, x)) = w {
                members.push(format!("/{} = {}", tv_name(*label), tv_name(*x)));
            }
            members.extend(fields.iter().map(|(l, _, x)| format!("/{} = v{x}", LABELS[*l as usize])));
            format!("let ({}) = {} in {}", members.join("; "), pv(p, inline), pc(b, inline))
        }
    }
}
pub fn program(c: &Cmp, inline: bool) -> String {
    let mut s = String::from("begin\n  let VType = @(intrinsic(vtype)) that\n  let Ret = @(intrinsic(ret)) that\n  let Thk = @(intrinsic(thk)) that\n  let Unit = @(intrinsic(unit)) that\n  let Int64 = @(intrinsic(i64)) that\n  let Two = data | +A : Unit | +B : Unit end that\n");
    if !inline {
        for (n, t) in aliases() {
            s.push_str(&format!("  let {n} = {} that\n", show_c(&t)));
        }
        for (n, p, body) in operators() {
            s.push_str(&format!("  let {n} ({} : VType) = {} that\n", tv_name(p), show_t(&body)));
        }
    }
    s.push_str(&format!("  {}\nend\n", pc(c, inline)));
    s
}

/// Is it legal to give every type binder of the program the same name? Yes iff every occurrence
/// of a type variable refers to the innermost binder in scope at that point (term-level binders:
/// type abstraction, unpacking; type-level binders: forall, exists).
pub fn innermost_only(c: &Cmp) -> bool {
    fn t(ty: &Ty, st: &mut Vec<TV>) -> bool {
        match ty {
            | Ty::Var(x) => *x >= 1000 || st.last() == Some(x),
            | Ty::Thk(c) => ct(c, st),
            | Ty::Pair(a, b) => t(a, st) && t(b, st),
            | Ty::App(_, a) | Ty::Named(_, a) => t(a, st),
            | Ty::VFn(a, b) => t(a, st) && t(b, st),
            | Ty::Ex(x, b) | Ty::VAll(x, b) => {
                st.push(*x);
                let r = t(b, st);
                st.pop();
                r
            }
            | _ => true,
        }
    }
    fn ct(c: &CTy, st: &mut Vec<TV>) -> bool {
        match c {
            | CTy::Ret(a) => t(a, st),
            | CTy::Fn(a, b) => t(a, st) && ct(b, st),
            | CTy::All(x, b) => {
                st.push(*x);
                let r = ct(b, st);
                st.pop();
                r
            }
            | CTy::Alias(_) => true,
        }
    }
    fn v(x: &Val, st: &mut Vec<TV>) -> bool {
        match x {
            | Val::Thunk(c) => go(c, st),
            | Val::Pair(a, b) => v(a, st) && v(b, st),
            | Val::Pack(w, p) => t(w, st) && v(p, st),
            | Val::VLam(_, ty, b) => t(ty, st) && v(b, st),
            | Val::VApp(f, a) => v(f, st) && v(a, st),
            | Val::VTLam(x, b) => {
                st.push(*x);
                let r = v(b, st);
                st.pop();
                r
            }
            | Val::VTApp(f, ty) => v(f, st) && t(ty, st),
            | Val::Named(_, a) | Val::Proj(a, _, _) => v(a, st),
            | _ => true,
        }
    }
    fn go(c: &Cmp, st: &mut Vec<TV>) -> bool {
        match c {
            | Cmp::Ret(x) | Cmp::Force(x) => v(x, st),
            | Cmp::Do(_, ty, a, b) => t(ty, st) && go(a, st) && go(b, st),
            | Cmp::Fn(_, ty, b) => t(ty, st) && go(b, st),
            | Cmp::TFn(x, b) => {
                st.push(*x);
                let r = go(b, st);
                st.pop();
                r
            }
            | Cmp::App(f, x) => go(f, st) && v(x, st),
            | Cmp::TApp(f, ty) => go(f, st) && t(ty, st),
            | Cmp::Let(_, ty, x, b) => t(ty, st) && v(x, st) && go(b, st),
            | Cmp::Match(x, a, b) => v(x, st) && go(a, st) && go(b, st),
            | Cmp::Unpack(x, _, p, b) => {
                if !v(p, st) {
                    return false;
                }
                st.push(*x);
                let r = go(b, st);
                st.pop();
                r
            }
            | Cmp::LetPair(_, _, x, b) => v(x, st) && go(b, st),
            | Cmp::Open(w, _, p, b) => {
                if !v(p, st) {
                    return false;
                }
                match w {
                    | Some((_, x)) => {
                        st.push(*x);
                        let r = go(b, st);
                        st.pop();
                        r
                    }
                    | None => go(b, st),
                }
            }
        }
    }
    go(c, &mut vec![])
}

/// print with every type binder named `T` (only for programs where `innermost_only` holds)
pub fn program_same_name(c: &Cmp) -> String {
    SAME_NAME.with(|s| s.set(true));
    let out = program(c, false);
    SAME_NAME.with(|s| s.set(false));
    out
}

/* ------------------------------------ generator ------------------------------------ */

pub struct Gen {
    pub max_vars_per_type: usize,
    /// F-omega menu: existential packages, a type operator, pairs (instead of the quantifier menu)
    pub omega: bool,
    /// value-level (pure) functions: `A -> B` and `forall X . T` as value types, with abstraction and
    /// application inside values (instead of the other menus)
    pub vfun: bool,
    /// records: named components, projection, groups of projection patterns, packages with named
    /// fields (instead of the other menus)
    pub rec: bool,
    /// with `rec`: offer only the package type in the let menu (deeper programs at the same budget)
    pub rec_box: bool,
    /// set by the `let` generator for the value directly under the annotation (packages need one)
    pub pack_ok: std::cell::Cell<bool>,
}

fn splits(n: usize, k: usize) -> Vec<Vec<usize>> {
    // all ways to write n as an ordered sum of k positive integers
    if k == 0 {
        return if n == 0 { vec![vec![]] } else { vec![] };
    }
    if k == 1 {
        return if n >= 1 { vec![vec![n]] } else { vec![] };
    }
    let mut out = vec![];
    for first in 1..n {
        for mut rest in splits(n - first, k - 1) {
            let mut v = vec![first];
            v.append(&mut rest);
            out.push(v);
        }
    }
    out
}

impl Gen {
    fn fresh_var(s: &Scope) -> Var {
        s.vars.len() as Var
    }
    fn fresh_tv(s: &Scope) -> TV {
        s.tvs.len() as TV
    }
    /// annotation menu for let-bound thunks in this scope
    fn let_menu(&self, s: &Scope) -> Vec<Ty> {
        let z = 500 + s.tvs.len() as TV; // binder id reserved for menu types at this depth
        if self.rec {
            // an abstract data type with named fields
            let boxed = ex(z, pair(named(0, Ty::Var(z)), named(1, thk(func(Ty::Var(z), ret(Ty::Int))))));
            if self.rec_box {
                return vec![boxed];
            }
            return vec![
                // a flat record
                pair(named(0, Ty::Int), named(1, Ty::Two)),
                boxed,
                // a record nested in a named component on the left
                pair(named(2, pair(named(0, Ty::Int), Ty::Int)), named(1, Ty::Two)),
                // the label a occurs twice: projection is ambiguous, positional access works
                pair(named(0, Ty::Int), named(0, Ty::Two)),
            ];
        }
        if self.vfun {
            let mut m = vec![vfn(Ty::Int, Ty::Int), vfn(Ty::Two, Ty::Int), vfn(Ty::Int, vfn(Ty::Int, Ty::Int)), vall(z, vfn(Ty::Var(z), Ty::Var(z))), vfn(vfn(Ty::Int, Ty::Int), Ty::Int), vfn(Ty::Int, thk(ret(Ty::Int))), pair(Ty::Int, Ty::Two)];
            for x in &s.tvs {
                m.push(vfn(Ty::Var(*x), Ty::Var(*x)));
            }
            return m;
        }
        if self.omega {
            // an abstract data type: a hidden representation with an observer
            let mut m = vec![ex(z, pair(Ty::Var(z), thk(func(Ty::Var(z), ret(Ty::Int)))))];
            m.push(ex(z, pair(Ty::Var(z), Ty::App(CONT, Box::new(Ty::Var(z))))));
            m.push(Ty::App(CONT, Box::new(Ty::Int)));
            m.push(Ty::App(CONT, Box::new(Ty::Two)));
            for x in &s.tvs {
                m.push(Ty::App(CONT, Box::new(Ty::Var(*x))));
            }
            m.push(pair(Ty::Int, Ty::Two));
            m.push(thk(func(Ty::Two, ret(Ty::Int))));
            return m;
        }
        let mut m = vec![thk(CTy::Alias(ID)), thk(CTy::Alias(CPS))];
        // an inline alpha-variant of Id
        m.push(thk(all(z, func(Ty::Var(z), ret(Ty::Var(z))))));
        for x in &s.tvs {
            // quantified types with a free occurrence of an enclosing variable
            m.push(thk(all(z, func(Ty::Var(z), ret(Ty::Var(*x))))));
            m.push(thk(func(Ty::Var(*x), ret(Ty::Var(*x)))));
        }
        m.push(thk(func(Ty::Int, ret(Ty::Int))));
        m
    }
    fn insts(&self, s: &Scope) -> Vec<Ty> {
        let mut v = vec![Ty::Int, Ty::Two];
        v.extend(s.tvs.iter().map(|x| Ty::Var(*x)));
        v
    }
    /// usable variables of a type: the most recent `max_vars_per_type`
    fn vars_of(&self, s: &Scope, t: &Ty) -> Vec<Var> {
        let mut v: Vec<Var> = s.vars.iter().rev().filter(|(_, u)| teq(u, t)).map(|(x, _)| *x).take(self.max_vars_per_type).collect();
        v.reverse();
        v
    }

    pub fn vals(&self, s: &Scope, t: &Ty, n: usize) -> Vec<Val> {
        let allow_pack = self.pack_ok.replace(false);
        let mut out = vec![];
        if n == 0 {
            return out;
        }
        if n == 1 {
            out.extend(self.vars_of(s, t).into_iter().map(Val::Var));
            match t {
                | Ty::Int if self.rec => out.push(Val::Int(1)),
                | Ty::Int => out.extend([Val::Int(1), Val::Int(2)]),
                | Ty::Two => out.extend([Val::A, Val::B]),
                | _ => {}
            }
            return out;
        }
        match expand_t(t) {
            | Ty::Thk(c) => {
                for b in self.cmps(s, &c, n - 1) {
                    out.push(Val::Thunk(Box::new(b)));
                }
            }
            | Ty::Pair(a, b) => {
                for k in 1..n - 1 {
                    let ls = self.vals(s, &a, k);
                    if ls.is_empty() {
                        continue;
                    }
                    let rs = self.vals(s, &b, n - 1 - k);
                    for l in &ls {
                        for r in &rs {
                            out.push(Val::Pair(Box::new(l.clone()), Box::new(r.clone())));
                        }
                    }
                }
            }
            | Ty::VFn(a, b) if self.vfun => {
                let x = Self::fresh_var(s);
                for body in self.vals(&s.with_var(x, (*a).clone()), &b, n - 1) {
                    out.push(Val::VLam(x, (*a).clone(), Box::new(body)));
                }
            }
            | Ty::VAll(x, b) if self.vfun => {
                let y = Self::fresh_tv(s);
                let b2 = subst_t(&b, x, &Ty::Var(y));
                for body in self.vals(&s.with_tv(y), &b2, n - 1) {
                    out.push(Val::VTLam(y, Box::new(body)));
                }
            }
            | Ty::Named(l, a) if self.rec => {
                for v in self.vals(s, &a, n - 1) {
                    out.push(Val::Named(l, Box::new(v)));
                }
            }
            | Ty::Ex(x, b) => {
                // a package is only generated directly under an annotated let (see cmps)
                if (self.omega || self.rec) && allow_pack {
                    for w in self.insts(s) {
                        for payload in self.vals(s, &subst_t(&b, x, &w), n - 1) {
                            out.push(Val::Pack(w.clone(), Box::new(payload)));
                        }
                    }
                }
            }
            | _ => {}
        }
        if self.rec && n == 2 {
            // projection of a uniquely named field of a record variable
            for (x, vt) in s.vars.iter() {
                if matches!(expand_t(vt), Ty::Ex(..)) || !self.vars_of(s, vt).contains(x) {
                    continue;
                }
                for l in 0..LABELS.len() as u8 {
                    if let [(route, payload)] = find_field(vt, l).as_slice() {
                        if teq(payload, t) {
                            out.push(Val::Proj(Box::new(Val::Var(*x)), l, route.clone()));
                        }
                    }
                }
            }
        }
        if self.vfun && n >= 3 {
            // value-level eliminations of variables of function / universal value types
            for (x, vt) in s.vars.iter() {
                if matches!(expand_t(vt), Ty::VFn(..) | Ty::VAll(..)) && self.vars_of(s, vt).contains(x) {
                    self.vspine(s, Val::Var(*x), vt, t, n - 1, &mut out);
                }
            }
        }
        out
    }

    /// all ways to eliminate the value `head : ty_head` down to `want` with exactly `n` more nodes
    fn vspine(&self, s: &Scope, head: Val, ty_head: &Ty, want: &Ty, n: usize, out: &mut Vec<Val>) {
        if n == 0 {
            if teq(ty_head, want) && !matches!(head, Val::Var(_)) {
                out.push(head);
            }
            return;
        }
        match expand_t(ty_head) {
            | Ty::VFn(a, b) => {
                for k in 1..=n {
                    for v in self.vals(s, &a, k) {
                        self.vspine(s, Val::VApp(Box::new(head.clone()), Box::new(v)), &b, want, n - k, out);
                    }
                }
            }
            | Ty::VAll(x, b) => {
                for t in self.insts(s) {
                    self.vspine(s, Val::VTApp(Box::new(head.clone()), t.clone()), &subst_t(&b, x, &t), want, n - 1, out);
                }
            }
            | _ => {}
        }
    }

    /// all ways to eliminate `head : ty_head` down to `want` with exactly `n` more nodes
    fn spine(&self, s: &Scope, head: Cmp, ty_head: &CTy, want: &CTy, n: usize, out: &mut Vec<Cmp>) {
        if n == 0 {
            if ceq(ty_head, want) {
                out.push(head);
            }
            return;
        }
        match expand(ty_head) {
            | CTy::Fn(a, b) => {
                for k in 1..=n {
                    for v in self.vals(s, &a, k) {
                        self.spine(s, Cmp::App(Box::new(head.clone()), v), &b, want, n - k, out);
                    }
                }
            }
            | CTy::All(x, b) => {
                for t in self.insts(s) {
                    self.spine(s, Cmp::TApp(Box::new(head.clone()), t.clone()), &subst_c(&b, x, &t), want, n - 1, out);
                }
            }
            | CTy::Ret(_) | CTy::Alias(_) => {}
        }
    }

    pub fn cmps(&self, s: &Scope, t: &CTy, n: usize) -> Vec<Cmp> {
        let mut out = vec![];
        if n < 2 {
            return out;
        }
        // introductions
        match expand(t) {
            | CTy::Ret(a) => {
                for v in self.vals(s, &a, n - 1) {
                    out.push(Cmp::Ret(v));
                }
            }
            | CTy::Fn(a, b) => {
                let x = Self::fresh_var(s);
                for body in self.cmps(&s.with_var(x, (*a).clone()), &b, n - 1) {
                    out.push(Cmp::Fn(x, (*a).clone(), Box::new(body)));
                }
            }
            | CTy::All(x, b) => {
                let y = Self::fresh_tv(s);
                let b2 = subst_c(&b, x, &Ty::Var(y));
                for body in self.cmps(&s.with_tv(y), &b2, n - 1) {
                    out.push(Cmp::TFn(y, Box::new(body)));
                }
            }
            | CTy::Alias(_) => unreachable!(),
        }
        // eliminations of thunk variables
        for (x, vt) in s.vars.iter() {
            if let Ty::Thk(c) = expand_t(vt) {
                if !self.vars_of(s, vt).contains(x) {
                    continue;
                }
                self.spine(s, Cmp::Force(Val::Var(*x)), &c, t, n - 2, &mut out);
            }
        }
        if self.rec && n >= 4 {
            // groups of projection patterns on a record / package held in a variable
            for (x, vt) in s.vars.iter() {
                if !self.vars_of(s, vt).contains(x) {
                    continue;
                }
                let exp = expand_t(vt);
                let mut witnesses: Vec<Option<(TV, TV)>> = vec![None];
                if let Ty::Ex(z, _) = &exp {
                    witnesses.push(Some((*z, Self::fresh_tv(s))));
                }
                for w in witnesses {
                    let Ok((s2, body_ty, _)) = open_scope(s, &w, vt) else { continue };
                    let avail: Vec<(u8, Vec<bool>, Ty)> = (0..LABELS.len() as u8).filter_map(|l| match find_field(&body_ty, l).as_slice() { | [(r, p)] => Some((l, r.clone(), p.clone())), | _ => None }).collect();
                    if avail.is_empty() {
                        continue;
                    }
                    // every non-empty subset in label order, and the full set reversed
                    let mut groups: Vec<Vec<usize>> = (1..(1usize << avail.len())).map(|m| (0..avail.len()).filter(|i| m >> i & 1 == 1).collect()).collect();
                    if avail.len() >= 2 {
                        groups.push((0..avail.len()).rev().collect());
                    }
                    for g in groups {
                        let mut s3 = s2.clone();
                        let mut fields = vec![];
                        for i in &g {
                            let y = Self::fresh_var(&s3);
                            s3 = s3.with_var(y, avail[*i].2.clone());
                            fields.push((avail[*i].0, avail[*i].1.clone(), y));
                        }
                        for body in self.cmps(&s3, t, n - 2) {
                            out.push(Cmp::Open(w, fields.clone(), Val::Var(*x), Box::new(body)));
                        }
                    }
                }
            }
        }
        if (self.omega || self.rec) && n >= 4 {
            // open a package / split a pair held in a variable
            for (x, vt) in s.vars.iter() {
                if !self.vars_of(s, vt).contains(x) {
                    continue;
                }
                match expand_t(vt) {
                    | Ty::Ex(z, b) => {
                        let tv = Self::fresh_tv(s);
                        let y = Self::fresh_var(s);
                        let s2 = s.with_tv(tv).with_var(y, subst_t(&b, z, &Ty::Var(tv)));
                        for body in self.cmps(&s2, t, n - 2) {
                            out.push(Cmp::Unpack(tv, y, Val::Var(*x), Box::new(body)));
                        }
                    }
                    | Ty::Pair(a, b) => {
                        let y = Self::fresh_var(s);
                        let s2 = s.with_var(y, (*a).clone()).with_var(y + 1, (*b).clone());
                        for body in self.cmps(&s2, t, n - 2) {
                            out.push(Cmp::LetPair(y, y + 1, Val::Var(*x), Box::new(body)));
                        }
                    }
                    | _ => {}
                }
            }
        }
        // do: bind an intermediate result of a ground or variable type
        if n >= 5 {
            let mut mids = vec![Ty::Int, Ty::Two];
            mids.extend(s.tvs.iter().map(|x| Ty::Var(*x)));
            let x = Self::fresh_var(s);
            for mid in mids {
                for k in 2..=(n - 3) {
                    let firsts: Vec<Cmp> = self.cmps(s, &ret(mid.clone()), k).into_iter().filter(|c| !matches!(c, Cmp::Ret(_))).collect();
                    if firsts.is_empty() {
                        continue;
                    }
                    let seconds = self.cmps(&s.with_var(x, mid.clone()), t, n - 1 - k);
                    for a in &firsts {
                        for b in &seconds {
                            out.push(Cmp::Do(x, mid.clone(), Box::new(a.clone()), Box::new(b.clone())));
                        }
                    }
                }
            }
        }
        // let: bind a thunk at an annotation from the menu
        if n >= 6 {
            let x = Self::fresh_var(s);
            for ann in self.let_menu(s) {
                for k in 3..=(n - 3) {
                    self.pack_ok.set(true);
                    let vs = self.vals(s, &ann, k);
                    self.pack_ok.set(false);
                    if vs.is_empty() {
                        continue;
                    }
                    let bodies = self.cmps(&s.with_var(x, ann.clone()), t, n - 1 - k);
                    for v in &vs {
                        if matches!(v, Val::Var(_)) {
                            continue;
                        }
                        for b in &bodies {
                            out.push(Cmp::Let(x, ann.clone(), v.clone(), Box::new(b.clone())));
                        }
                    }
                }
            }
        }
        // match on a Two-typed variable
        if n >= 6 {
            for x in self.vars_of(s, &Ty::Two) {
                for sp in splits(n - 2, 2) {
                    if sp[0] < 2 || sp[1] < 2 {
                        continue;
                    }
                    let l = self.cmps(s, t, sp[0]);
                    if l.is_empty() {
                        continue;
                    }
                    let r = self.cmps(s, t, sp[1]);
                    for a in &l {
                        for b in &r {
                            out.push(Cmp::Match(Val::Var(x), Box::new(a.clone()), Box::new(b.clone())));
                        }
                    }
                }
            }
        }
        out
    }
}

/// programs whose body uses at least one type abstraction or application
fn is_poly(c: &Cmp) -> bool {
    fn v(x: &Val) -> bool {
        match x {
            | Val::Thunk(c) => is_poly(c),
            | Val::Pack(..) | Val::VLam(..) | Val::VApp(..) | Val::VTLam(..) | Val::VTApp(..) => true,
            | Val::Pair(a, b) => v(a) || v(b),
            | Val::Named(..) | Val::Proj(..) => true,
            | _ => false,
        }
    }
    match c {
        | Cmp::TFn(..) | Cmp::TApp(..) | Cmp::Open(..) => true,
        | Cmp::Ret(x) | Cmp::Force(x) => v(x),
        | Cmp::Do(_, _, a, b) | Cmp::Match(_, a, b) => is_poly(a) || is_poly(b),
        | Cmp::Fn(_, _, b) => is_poly(b),
        | Cmp::App(f, x) => is_poly(f) || v(x),
        | Cmp::Let(_, _, x, b) => v(x) || is_poly(b),
        | Cmp::Unpack(..) => true,
        | Cmp::LetPair(_, _, x, b) => v(x) || is_poly(b),
    }
}

/// `let main : Thk <alias> = { BODY } in <observe main at Two>`: the generated part is a computation of
/// a quantified type, checked against the alias; the observation matches on what comes back, so a
/// value of the wrong type goes wrong visibly
fn wrap(alias: usize, body: Cmp) -> Cmp {
    let main: Var = 900;
    let r: Var = 901;
    let t: Var = 902;
    let pick = |v: Var| Cmp::Match(Val::Var(v), Box::new(Cmp::Ret(Val::Int(1))), Box::new(Cmp::Ret(Val::Int(2))));
    let call = Cmp::App(Box::new(Cmp::TApp(Box::new(Cmp::Force(Val::Var(main))), Ty::Two)), Val::B);
    let observe = if alias == ID {
        Cmp::Do(r, Ty::Two, Box::new(call), Box::new(pick(r)))
    } else {
        Cmp::App(Box::new(call), Val::Thunk(Box::new(Cmp::Fn(t, Ty::Two, Box::new(pick(t))))))
    };
    Cmp::Let(main, thk(CTy::Alias(alias)), Val::Thunk(Box::new(body)), Box::new(observe))
}

/// the F-omega part: existential packages, a type operator, pairs
pub fn universe_omega(tier: Tier) -> Vec<Cmp> {
    let g = Gen { max_vars_per_type: 2, omega: true, vfun: false, rec: false, rec_box: false, pack_ok: std::cell::Cell::new(false) };
    let n = if tier == Tier::Thorough { 15 } else { 13 };
    let mut out = vec![];
    for root in [ret(Ty::Int), ret(Ty::Two)] {
        for k in 2..=n {
            // keep programs that open a package, split a pair or bind at an operator application
            out.extend(g.cmps(&Scope::default(), &root, k).into_iter().filter(|c| {
                let d = format!("{:?}", c);
                d.contains("Unpack(") || d.contains("LetPair(") || d.contains("App(0")
            }));
        }
    }
    out
}

/// the value-function part: pure functions as values
pub fn universe_vfun(tier: Tier) -> Vec<Cmp> {
    let g = Gen { max_vars_per_type: 2, omega: false, vfun: true, rec: false, rec_box: false, pack_ok: std::cell::Cell::new(false) };
    let n = if tier == Tier::Thorough { 13 } else { 12 };
    let mut out = vec![];
    for root in [ret(Ty::Int), ret(Ty::Two)] {
        for k in 2..=n {
            out.extend(g.cmps(&Scope::default(), &root, k).into_iter().filter(uses_vfun));
        }
    }
    out
}

/// the record part: named components, projections, groups of projection patterns
pub fn universe_rec(tier: Tier) -> Vec<Cmp> {
    let mut out = vec![];
    // the whole menu up to a small size, then the package type alone up to a size that reaches
    // introduction + opening + use of both fields
    for (rec_box, n) in [(false, if tier == Tier::Thorough { 15 } else { 14 }), (true, if tier == Tier::Thorough { 18 } else { 17 })] {
        let g = Gen { max_vars_per_type: 2, omega: false, vfun: false, rec: true, rec_box, pack_ok: std::cell::Cell::new(false) };
        for root in [ret(Ty::Int), ret(Ty::Two)] {
            for k in 2..=n {
                out.extend(g.cmps(&Scope::default(), &root, k).into_iter().filter(uses_rec));
            }
        }
    }
    out.sort_by_key(|c| format!("{:?}", c));
    out.dedup();
    out
}

fn uses_rec(c: &Cmp) -> bool {
    let d = format!("{:?}", c);
    d.contains("Named(") || d.contains("Proj(") || d.contains("Open(")
}

fn uses_vfun(c: &Cmp) -> bool {
    let d = format!("{:?}", c);
    d.contains("VLam(") || d.contains("VApp(") || d.contains("VTLam(") || d.contains("VTApp(")
}

fn uses_omega(c: &Cmp) -> bool {
    let d = format!("{:?}", c);
    d.contains("Pack(") || d.contains("Unpack(") || d.contains("LetPair(") || d.contains("App(0") || d.contains("Pair(")
}

pub fn universe(tier: Tier) -> Vec<Cmp> {
    let g = Gen { max_vars_per_type: 2, omega: false, vfun: false, rec: false, rec_box: false, pack_ok: std::cell::Cell::new(false) };
    let (n_plain, n_id, n_cps) = if tier == Tier::Thorough { (17, 15, 14) } else { (15, 13, 12) };
    let mut out = vec![];
    for root in [ret(Ty::Int), ret(Ty::Two)] {
        for k in 2..=n_plain {
            out.extend(g.cmps(&Scope::default(), &root, k).into_iter().filter(is_poly));
        }
    }
    for (alias, n) in [(ID, n_id), (CPS, n_cps)] {
        for k in 2..=n {
            out.extend(g.cmps(&Scope::default(), &CTy::Alias(alias), k).into_iter().map(|b| wrap(alias, b)));
        }
    }
    out.extend(universe_omega(tier));
    out.extend(universe_vfun(tier));
    out.extend(universe_rec(tier));
    out
}

/* ------------------------------------ mutations ------------------------------------ */

/// every program obtained by one of: replacing a variable occurrence by another variable in scope;
/// replacing a type argument by another candidate; replacing a `let` annotation by another menu
/// entry; replacing a parameter annotation by another candidate type
pub fn mutants(c: &Cmp) -> Vec<(String, Cmp)> {
    let g = Gen { max_vars_per_type: 99, omega: uses_omega(c), vfun: uses_vfun(c), rec: uses_rec(c), rec_box: false, pack_ok: std::cell::Cell::new(false) };
    let mut out = vec![];
    fn go_v(g: &Gen, s: &Scope, v: &Val, rebuild: &dyn Fn(Val) -> Cmp, out: &mut Vec<(String, Cmp)>) {
        match v {
            | Val::Var(x) => {
                for (y, _) in s.vars.iter() {
                    if y != x {
                        out.push((format!("occurrence of v{x} replaced by v{y}"), rebuild(Val::Var(*y))));
                    }
                }
            }
            | Val::Thunk(c) => go_c(g, s, c, &|c2| rebuild(Val::Thunk(Box::new(c2))), out),
            | Val::Pair(a, b) => {
                go_v(g, s, a, &|a2| rebuild(Val::Pair(Box::new(a2), b.clone())), out);
                go_v(g, s, b, &|b2| rebuild(Val::Pair(a.clone(), Box::new(b2))), out);
            }
            | Val::Pack(w, payload) => {
                for w2 in g.insts(s) {
                    if w2 != *w {
                        out.push((format!("type argument {} replaced by {} (package witness)", show_t(w), show_t(&w2)), rebuild(Val::Pack(w2, payload.clone()))));
                    }
                }
                go_v(g, s, payload, &|p2| rebuild(Val::Pack(w.clone(), Box::new(p2))), out);
            }
            | Val::VLam(x, t, b) => {
                for t2 in g.insts(s) {
                    if t2 != *t {
                        out.push((format!("parameter v{x} annotated {} instead of {}", show_t(&t2), show_t(t)), rebuild(Val::VLam(*x, t2, b.clone()))));
                    }
                }
                go_v(g, &s.with_var(*x, t.clone()), b, &|b2| rebuild(Val::VLam(*x, t.clone(), Box::new(b2))), out);
            }
            | Val::VTLam(x, b) => go_v(g, &s.with_tv(*x), b, &|b2| rebuild(Val::VTLam(*x, Box::new(b2))), out),
            | Val::VApp(f, a) => {
                go_v(g, s, f, &|f2| rebuild(Val::VApp(Box::new(f2), a.clone())), out);
                go_v(g, s, a, &|a2| rebuild(Val::VApp(f.clone(), Box::new(a2))), out);
                // drop the argument / apply once more
                out.push(("occurrence: value application replaced by its function".to_string(), rebuild((**f).clone())));
            }
            | Val::VTApp(f, t) => {
                for t2 in g.insts(s) {
                    if t2 != *t {
                        out.push((format!("type argument {} replaced by {}", show_t(t), show_t(&t2)), rebuild(Val::VTApp(f.clone(), t2))));
                    }
                }
                go_v(g, s, f, &|f2| rebuild(Val::VTApp(Box::new(f2), t.clone())), out);
            }
            | Val::Named(l, a) => {
                for l2 in 0..LABELS.len() as u8 {
                    if l2 != *l {
                        out.push((format!("field label {} replaced by {} (introduction)", LABELS[*l as usize], LABELS[l2 as usize]), rebuild(Val::Named(l2, a.clone()))));
                    }
                }
                go_v(g, s, a, &|a2| rebuild(Val::Named(*l, Box::new(a2))), out);
            }
            | Val::Proj(a, l, _) => {
                for l2 in 0..LABELS.len() as u8 {
                    if l2 != *l {
                        let route = match synth_v(s, a).map(|t| find_field(&t, l2)) {
                            | Ok(found) if found.len() == 1 => found[0].0.clone(),
                            | _ => vec![],
                        };
                        out.push((format!("field label {} replaced by {} (projection)", LABELS[*l as usize], LABELS[l2 as usize]), rebuild(Val::Proj(a.clone(), l2, route))));
                    }
                }
            }
            | _ => {}
        }
    }
    fn go_c(g: &Gen, s: &Scope, c: &Cmp, rebuild: &dyn Fn(Cmp) -> Cmp, out: &mut Vec<(String, Cmp)>) {
        match c {
            | Cmp::Ret(v) => go_v(g, s, v, &|v2| rebuild(Cmp::Ret(v2)), out),
            | Cmp::Force(v) => go_v(g, s, v, &|v2| rebuild(Cmp::Force(v2)), out),
            | Cmp::Do(x, t, a, b) => {
                for t2 in g.insts(s) {
                    if t2 != *t {
                        out.push((format!("parameter v{x} annotated {} instead of {}", show_t(&t2), show_t(t)), rebuild(Cmp::Do(*x, t2, a.clone(), b.clone()))));
                    }
                }
                go_c(g, s, a, &|a2| rebuild(Cmp::Do(*x, t.clone(), Box::new(a2), b.clone())), out);
                go_c(g, &s.with_var(*x, t.clone()), b, &|b2| rebuild(Cmp::Do(*x, t.clone(), a.clone(), Box::new(b2))), out);
            }
            | Cmp::Fn(x, t, b) => {
                for t2 in g.insts(s) {
                    if t2 != *t {
                        out.push((format!("parameter v{x} annotated {} instead of {}", show_t(&t2), show_t(t)), rebuild(Cmp::Fn(*x, t2, b.clone()))));
                    }
                }
                go_c(g, &s.with_var(*x, t.clone()), b, &|b2| rebuild(Cmp::Fn(*x, t.clone(), Box::new(b2))), out);
            }
            | Cmp::TFn(x, b) => go_c(g, &s.with_tv(*x), b, &|b2| rebuild(Cmp::TFn(*x, Box::new(b2))), out),
            | Cmp::App(f, v) => {
                go_c(g, s, f, &|f2| rebuild(Cmp::App(Box::new(f2), v.clone())), out);
                go_v(g, s, v, &|v2| rebuild(Cmp::App(f.clone(), v2)), out);
            }
            | Cmp::TApp(f, t) => {
                for t2 in g.insts(s) {
                    if t2 != *t {
                        out.push((format!("type argument {} replaced by {}", show_t(t), show_t(&t2)), rebuild(Cmp::TApp(f.clone(), t2))));
                    }
                }
                go_c(g, s, f, &|f2| rebuild(Cmp::TApp(Box::new(f2), t.clone())), out);
            }
            | Cmp::Let(x, t, v, b) => {
                for t2 in g.let_menu(s) {
                    if t2 != *t {
                        out.push((format!("let annotation {} replaced by {}", show_t(t), show_t(&t2)), rebuild(Cmp::Let(*x, t2, v.clone(), b.clone()))));
                    }
                }
                go_v(g, s, v, &|v2| rebuild(Cmp::Let(*x, t.clone(), v2, b.clone())), out);
                go_c(g, &s.with_var(*x, t.clone()), b, &|b2| rebuild(Cmp::Let(*x, t.clone(), v.clone(), Box::new(b2))), out);
            }
            | Cmp::Match(v, a, b) => {
                go_v(g, s, v, &|v2| rebuild(Cmp::Match(v2, a.clone(), b.clone())), out);
                go_c(g, s, a, &|a2| rebuild(Cmp::Match(v.clone(), Box::new(a2), b.clone())), out);
                go_c(g, s, b, &|b2| rebuild(Cmp::Match(v.clone(), a.clone(), Box::new(b2))), out);
            }
            | Cmp::Unpack(x, y, p, b) => {
                // let the abstract type escape through the result
                out.push((format!("occurrence: body of the unpacking of v{y} replaced by `ret v{y}`"), rebuild(Cmp::Unpack(*x, *y, p.clone(), Box::new(Cmp::Ret(Val::Var(*y)))))));
                go_v(g, s, p, &|p2| rebuild(Cmp::Unpack(*x, *y, p2, b.clone())), out);
                if let Ok(Ty::Ex(z, body)) = synth_v(s, p).map(|t| expand_t(&t)) {
                    let s2 = s.with_tv(*x).with_var(*y, subst_t(&body, z, &Ty::Var(*x)));
                    go_c(g, &s2, b, &|b2| rebuild(Cmp::Unpack(*x, *y, p.clone(), Box::new(b2))), out);
                }
            }
            | Cmp::LetPair(x, y, v, b) => {
                go_v(g, s, v, &|v2| rebuild(Cmp::LetPair(*x, *y, v2, b.clone())), out);
                if let Ok(Ty::Pair(ta, tb)) = synth_v(s, v).map(|t| expand_t(&t)) {
                    let s2 = s.with_var(*x, *ta).with_var(*y, *tb);
                    go_c(g, &s2, b, &|b2| rebuild(Cmp::LetPair(*x, *y, v.clone(), Box::new(b2))), out);
                }
            }
            | Cmp::Open(w, fields, p, b) => {
                // let a selected field escape through the result
                for (_, _, x) in fields {
                    out.push((format!("occurrence: body of the opening that binds v{x} replaced by `ret v{x}`"), rebuild(Cmp::Open(*w, fields.clone(), p.clone(), Box::new(Cmp::Ret(Val::Var(*x)))))));
                }
                // the witness is no longer selected
                if w.is_some() {
                    out.push(("type argument: the witness of the package is no longer selected".to_string(), rebuild(Cmp::Open(None, fields.clone(), p.clone(), b.clone()))));
                }
                let Ok(pt) = synth_v(s, p) else { return };
                let Ok((s2, body_ty, _)) = open_scope(s, w, &pt) else { return };
                // another label
                for (k, (l, _, x)) in fields.iter().enumerate() {
                    for l2 in 0..LABELS.len() as u8 {
                        if l2 != *l {
                            let route = match find_field(&body_ty, l2).as_slice() {
                                | [(r, _)] => r.clone(),
                                | _ => vec![],
                            };
                            let mut f2 = fields.clone();
                            f2[k] = (l2, route, *x);
                            out.push((format!("field label {} replaced by {} (projection pattern)", LABELS[*l as usize], LABELS[l2 as usize]), rebuild(Cmp::Open(*w, f2, p.clone(), b.clone()))));
                        }
                    }
                }
                let mut s3 = s2;
                for (l, _, x) in fields {
                    match find_field(&body_ty, *l).as_slice() {
                        | [(_, payload)] => s3 = s3.with_var(*x, payload.clone()),
                        | _ => return,
                    }
                }
                go_c(g, &s3, b, &|b2| rebuild(Cmp::Open(*w, fields.clone(), p.clone(), Box::new(b2))), out);
            }
        }
    }
    go_c(&g, &Scope::default(), c, &|c2| c2, &mut out);
    out
}

/// does the program contain a thunk bound at `Thk <alias k>` lexically inside a type abstraction
/// that is itself checked against alias k (directly under a `let .. : Thk <alias k>`)?
fn same_alias_nested(c: &Cmp) -> bool {
    fn v(x: &Val, open: &Vec<usize>) -> bool {
        match x {
            | Val::Thunk(c) => go(c, open),
            | Val::Pair(a, b) => v(a, open) || v(b, open),
            | Val::Pack(_, p) | Val::VLam(_, _, p) | Val::VTLam(_, p) | Val::VTApp(p, _) => v(p, open),
            | Val::VApp(f, a) => v(f, open) || v(a, open),
            | Val::Named(_, p) | Val::Proj(p, _, _) => v(p, open),
            | _ => false,
        }
    }
    fn go(c: &Cmp, open: &Vec<usize>) -> bool {
        match c {
            | Cmp::Let(_, Ty::Thk(t), val, b) => {
                if let CTy::Alias(k) = t.as_ref() {
                    if open.contains(k) {
                        return true;
                    }
                    let mut o2 = open.clone();
                    o2.push(*k);
                    if v(val, &o2) {
                        return true;
                    }
                } else if v(val, open) {
                    return true;
                }
                go(b, open)
            }
            | Cmp::Let(_, _, val, b) => v(val, open) || go(b, open),
            | Cmp::Ret(x) | Cmp::Force(x) => v(x, open),
            | Cmp::Do(_, _, a, b) | Cmp::Match(_, a, b) => go(a, open) || go(b, open),
            | Cmp::Fn(_, _, b) | Cmp::TFn(_, b) => go(b, open),
            | Cmp::App(f, x) => go(f, open) || v(x, open),
            | Cmp::TApp(f, _) => go(f, open),
            | Cmp::Unpack(_, _, x, b) | Cmp::LetPair(_, _, x, b) | Cmp::Open(_, _, x, b) => v(x, open) || go(b, open),
        }
    }
    go(c, &vec![])
}

/* -------------------------------------- checks -------------------------------------- */

pub struct PolyUniverse {
    prop: &'static str,
    progs: Vec<Cmp>,
    chunk: usize,
    scratch: Option<Scratch>,
}
impl PolyUniverse {
    pub fn new(prop: &'static str, tier: Tier) -> Self {
        PolyUniverse { prop, progs: universe(tier), chunk: 16, scratch: None }
    }
    /// (verdict accepted?, run end) of one printed program
    fn subject(scratch: &Scratch, src: &str) -> (Verdict, Option<RunResult>) {
        let path = scratch.write("p.zydeco", src);
        let s = Subject::analyze(&path);
        let v = s.verdict();
        if v.accepted() {
            let r = s.run(b"", &[], 20_000);
            (v, Some(r))
        } else {
            (v, None)
        }
    }
}
impl Check for PolyUniverse {
    fn property(&self) -> &'static str {
        self.prop
    }
    fn name(&self) -> String {
        format!("{}-polymorphism", self.prop.to_lowercase())
    }
    fn len(&self) -> usize {
        self.progs.len().div_ceil(self.chunk)
    }
    fn describe(&self, i: usize) -> String {
        let a = i * self.chunk;
        format!("programs {}..{} of the System-F universe; first:\n{}", a, (a + self.chunk).min(self.progs.len()), program(&self.progs[a], false))
    }
    fn rule(&self) -> String {
        format!("every closed computation of type Ret Int64 / Ret Two with at most {} nodes in a System-F fragment (ret, do, annotated fn, type abstraction, application to values and to types drawn from {{Int64, Two, type variables in scope}}, force, let at an annotation from a menu of thunk types — the aliases Id = forall X . X -> Ret X and Cps, an inline alpha-variant, quantified types with a free enclosing variable, monomorphic function types —, match) that uses at least one type abstraction or application, plus an F-omega part with at most 13 (thorough 15) nodes whose let menu offers existential packages over a pair of a hidden representation and an observer, the type operator Cont (P : VType) = Thk (P -> Ret Int64) applied to Int64 / Two / variables, and pairs, with package introduction (witness from the candidates), unpacking and pair patterns, plus a value-function part with at most 12 (thorough 13) nodes (value types A -> B and forall X . T, abstraction and application inside values, at a menu of first-order, curried, higher-order, polymorphic and thunk-returning function types) ({} programs in all), each printed twice (aliases by name / aliases expanded), plus every single-site mutant (variable occurrence -> another variable in scope, type argument -> another candidate, let annotation -> another menu entry, parameter annotation -> another candidate, package witness -> another candidate, body of an unpacking -> `ret payload`, which lets the abstract type escape); reference: a synthesis-only checker for the explicitly typed fragment with alpha-equivalence and alias expansion, and a type-erasing evaluator; oracle for {}: {}; non-trivial = every program (all use polymorphism)",
            if self.progs.is_empty() { 0 } else { 12 },
            self.progs.len(),
            self.prop,
            match self.prop {
                | "C03" => "a well-typed program (original or mutant) is accepted under both printings; an ill-typed mutant is rejected",
                | "C01" => "whatever is accepted (original or mutant, either printing) runs without going wrong",
                | "C07" => "a program in which every type-variable occurrence refers to the innermost binder, printed with every type binder named `T` (maximal shadowing of type variables), is accepted and returns the same result as under fresh names",
                | _ => "an accepted well-typed program returns the reference evaluator's result under both printings",
            }
        )
    }
    fn timeout(&self) -> std::time::Duration {
        std::time::Duration::from_secs(120)
    }
    fn run(&mut self, i: usize) -> CaseResult {
        let scratch = self.scratch.get_or_insert_with(|| Scratch::new("poly"));
        let a = i * self.chunk;
        let b = (a + self.chunk).min(self.progs.len());
        let mut r = CaseResult::ok("chunk").nontrivial(true).key(i as u64);
        let prop = self.prop;
        for p in &self.progs[a..b] {
            // the original
            let reference = eval(p, 20_000);
            let mut candidates: Vec<(String, Cmp, bool)> = vec![("original".into(), p.clone(), true)];
            for (d, m) in if prop == "C07" { vec![] } else { mutants(p) } {
                match synth_c(&Scope::default(), &m) {
                    // the pattern syntax of unpacking and of pairs is shared (`let (X, y) = pair`, `let (x, y) =
                    // package`): this AST cannot say so, the mutant is not classified
                    | Err(e) if e.starts_with("UNCLASSIFIED") => r = r.count("mutants_not_classified", 1),
                    | Err(_) => candidates.push((d, m, false)),
                    // still well typed at a returning type: just another program
                    | Ok(t) if matches!(expand(&t), CTy::Ret(_)) => candidates.push((d, m, true)),
                    // well typed at a function / quantified type: not a runnable root, nothing is claimed
                    | Ok(_) => r = r.count("mutants_with_non_returning_root", 1),
                }
            }
            r = r.count("programs", 1).count("mutants", candidates.len() as u64 - 1);
            for (desc, q, well_typed) in &candidates {
                if desc != "original" && *well_typed {
                    // a well-typed mutant is just another program of the universe (or slightly outside its menu)
                    r = r.count("mutants_still_well_typed", 1);
                }
                for pmode in 0..3 {
                    if pmode > 0 && desc != "original" {
                        continue;
                    }
                    if pmode == 2 && !innermost_only(q) {
                        continue;
                    }
                    if prop == "C07" && pmode == 1 {
                        continue;
                    }
                    let src = match pmode {
                        | 0 => program(q, false),
                        | 1 => program(q, true),
                        | _ => program_same_name(q),
                    };
                    if pmode == 2 {
                        r = r.count("printed_with_one_type_binder_name", 1);
                    }
                    let (verdict, run) = Self::subject(scratch, &src);
                    let mode = ["aliases by name", "aliases expanded", "one name for every type binder"][pmode];
                    match (well_typed, verdict.accepted()) {
                        | (true, false) => {
                            if prop == "C03" || (prop == "C07" && pmode == 2) {
                                r = r.violation(format!("well-typed polymorphic program rejected ({mode}): {}", crate::front::short_msg(&format!("{:?}", verdict))), format!("{desc}\n{:?}\n{}", verdict, src));
                            }
                        }
                        | (false, true) => {
                            r = r.count("ill_typed_accepted", 1);
                            let why = synth_c(&Scope::default(), q).err().unwrap_or_else(|| "result type differs".into());
                            let class = if same_alias_nested(q) { " (nested type abstraction against the same forall alias)" } else { "" };
                            if prop == "C03" {
                                r = r.violation(format!("ill-typed polymorphic mutant accepted{class}: {}", mutation_kind(desc)), format!("{desc}; reference: {why}\n{}", src));
                            }
                            if prop == "C01" {
                                if let Some(run) = &run {
                                    if let RunEnd::Panic(p) = &run.end {
                                        r = r.violation(format!("accepted ill-typed polymorphic mutant goes wrong{class}: {} at {}", crate::front::short_msg(&p.msg), crate::front::short_loc(&p.loc)), format!("{desc}; reference: {why}\n{:?}\n{}", run.end, src));
                                    }
                                }
                            }
                        }
                        | (false, false) => r = r.count("ill_typed_rejected", 1),
                        | (true, true) => {
                            let run = run.unwrap();
                            let want = if desc == "original" { reference.clone() } else { eval(q, 20_000) };
                            match (&run.end, &want) {
                                | (RunEnd::Panic(p), _) => {
                                    if prop == "C01" {
                                        r = r.violation(format!("accepted polymorphic program goes wrong: {} at {}", crate::front::short_msg(&p.msg), crate::front::short_loc(&p.loc)), format!("{desc}\n{:?}\n{}", run.end, src));
                                    }
                                }
                                | (RunEnd::Ret(got), Ok(w)) => {
                                    if got != w && (prop == "C02" || (prop == "C07" && pmode == 2)) {
                                        r = r.violation(format!("polymorphic program returns a different result than the reference ({mode})"), format!("{desc}: got {got}, reference {w}\n{}", src));
                                    }
                                    r = r.count("agreements", (got == w) as u64);
                                }
                                | (_, Err(e)) if e.starts_with("STUCK") => {
                                    r = r.violation("MACHINERY: the reference evaluator is stuck on a program its checker accepts".to_string(), format!("{e}\n{src}"));
                                }
                                | (RunEnd::OutOfFuel, _) | (_, Err(_)) => {}
                                | (other, Ok(w)) => {
                                    if prop == "C02" {
                                        r = r.violation("polymorphic program does not end with a result".to_string(), format!("{desc}: {:?}, reference {w}\n{}", other, src));
                                    }
                                }
                            }
                        }
                    }
                }
            }
        }
        r
    }
}

fn mutation_kind(desc: &str) -> &'static str {
    if desc.starts_with("field label") {
        "field label replaced"
    } else if desc.starts_with("occurrence: body") {
        "abstract type escapes its unpacking"
    } else if desc.starts_with("occurrence") {
        "variable occurrence replaced"
    } else if desc.starts_with("type argument") {
        "type argument replaced"
    } else if desc.starts_with("let annotation") {
        "let annotation replaced"
    } else {
        "parameter annotation replaced"
    }
}

/* ------------------------------ type-equivalence matrix ------------------------------ */

/// all value types with exactly `n` nodes over {Int64, the free variable X (id 0), bound variables,
/// ->, Ret, Thk, forall, the alias Id}
fn types_t(n: usize, bound: &Vec<TV>, omega: bool) -> Vec<Ty> {
    let mut out = vec![];
    if n == 1 {
        out.push(Ty::Int);
        out.push(Ty::Var(0));
        out.extend(bound.iter().map(|b| Ty::Var(*b)));
        return out;
    }
    for c in types_c(n - 1, bound, omega) {
        out.push(thk(c));
    }
    // operator application, pairs, existentials
    if !omega {
        return out;
    }
    for a in types_t(n - 1, bound, omega) {
        out.push(Ty::App(CONT, Box::new(a)));
    }
    if n >= 3 {
        for k in 1..n - 1 {
            for a in types_t(k, bound, omega) {
                for b in types_t(n - 1 - k, bound, omega) {
                    out.push(pair(a.clone(), b));
                }
            }
        }
        let z = 10 + bound.len() as TV;
        let mut b2 = bound.clone();
        b2.push(z);
        for b in types_t(n - 1, &b2, omega) {
            let mut fv = BTreeSet::new();
            ftv_t(&b, &mut fv);
            if fv.contains(&z) {
                out.push(ex(z, b));
            }
        }
    }
    out
}
fn types_c(n: usize, bound: &Vec<TV>, omega: bool) -> Vec<CTy> {
    let mut out = vec![];
    if n == 0 {
        return out;
    }
    if n == 1 {
        out.push(CTy::Alias(ID));
        return out;
    }
    for t in types_t(n - 1, bound, omega) {
        out.push(ret(t));
    }
    for k in 1..n - 1 {
        for a in types_t(k, bound, omega) {
            for b in types_c(n - 1 - k, bound, omega) {
                out.push(func(a.clone(), b));
            }
        }
    }
    let z = 10 + bound.len() as TV;
    let mut b2 = bound.clone();
    b2.push(z);
    for b in types_c(n - 1, &b2, omega) {
        // a quantifier that binds nothing adds no information
        let mut fv = BTreeSet::new();
        ftv_c(&b, &mut fv);
        if fv.contains(&z) {
            out.push(all(z, b));
        }
    }
    out
}

pub fn count_types(n: usize) -> usize {
    types_t(n, &vec![], true).len()
}

pub struct PolyMatrix {
    types: Vec<Ty>,
}
impl PolyMatrix {
    pub fn new(tier: Tier) -> Self {
        // deep quantifier/thunk types, plus every type over the full grammar (operator application,
        // pairs, existentials) up to a smaller size
        let (n_thk, n_all) = if tier == Tier::Thorough { (9, 6) } else { (8, 5) };
        let mut types: Vec<Ty> = vec![];
        for k in 2..=n_thk {
            types.extend(types_t(k, &vec![], false).into_iter().filter(|t| matches!(t, Ty::Thk(_))));
        }
        for k in 2..=n_all {
            for t in types_t(k, &vec![], true) {
                if !types.contains(&t) {
                    types.push(t);
                }
            }
        }
        PolyMatrix { types }
    }
    fn source(a: &Ty, b: &Ty) -> String {
        // the enclosing abstraction is checked against the alias Id, so `X0` (printed for variable 0)
        // is the alias's own opened variable
        format!(
            "begin\n  let VType = @(intrinsic(vtype)) that\n  let Ret = @(intrinsic(ret)) that\n  let Thk = @(intrinsic(thk)) that\n  let Int64 = @(intrinsic(i64)) that\n  let Id = forall (X0 : VType) . X0 -> Ret X0 that\n  let Cont (P0 : VType) = Thk (P0 -> Ret Int64) that\n  let outer : Thk Id = {{ fn (T0 : VType) (x : T0) =>\n    let f : Thk ({} -> Ret Int64) = {{ fn (a : {}) => let b : {} = a in ret 0 }} in\n    ret x }} in\n  ret 0\nend\n",
            show_t_atom_arrow(a),
            show_t_atom_arrow(a),
            show_t_atom_arrow(b)
        )
    }
}
impl Check for PolyMatrix {
    fn property(&self) -> &'static str {
        "C03"
    }
    fn name(&self) -> String {
        "c03-type-equivalence-matrix".into()
    }
    fn len(&self) -> usize {
        self.types.len()
    }
    fn describe(&self, i: usize) -> String {
        format!("row {}: a value of type {} bound at each of the {} types; e.g.\n{}", i, show_t(&self.types[i]), self.types.len(), Self::source(&self.types[i], &self.types[0]))
    }
    fn rule(&self) -> String {
        format!("all ordered pairs (A, B) of the {} thunk types with at most {} nodes over {{Int64, a free type variable (the opened variable of the enclosing abstraction, which is checked against the alias Id), bound variables, ->, Ret, Thk, forall, the alias Id itself}} united with all types of at most 5 (thorough 6) nodes over that grammar extended by pairs, existentials and applications of the type operator Cont; program: inside that abstraction, `fn (a : A) => let b : B = a in ret 0`; oracle: accepted iff A and B are alpha-equivalent (aliases expanded); non-trivial = every row", self.types.len(), 8)
    }
    fn timeout(&self) -> std::time::Duration {
        std::time::Duration::from_secs(300)
    }
    fn run(&mut self, i: usize) -> CaseResult {
        let scratch = Scratch::new("polym");
        let a = &self.types[i];
        let mut r = CaseResult::ok("row").nontrivial(true).key(i as u64);
        for b in &self.types {
            let want = teq(a, b);
            let src = Self::source(a, b);
            let path = scratch.write("m.zydeco", &src);
            let res = guarded(|| Subject::analyze(&path).verdict());
            r = r.count("pairs", 1).count("equivalent_pairs", want as u64);
            match res {
                | Err(p) => r = r.violation(format!("type checker panics on a type pair: {}", crate::front::short_msg(&p.msg)), format!("{:?}\n{}", p, src)),
                | Ok(v) => {
                    if v.accepted() != want {
                        let fp = if want { "equivalent types rejected".to_string() } else { format!("inequivalent types accepted as equal ({})", pair_class(a, b)) };
                        r = r.violation(fp, format!("A = {}\nB = {}\nverdict {:?}\n{}", show_t(a), show_t(b), v, src));
                    }
                }
            }
        }
        r
    }
}

fn pair_class(a: &Ty, b: &Ty) -> &'static str {
    let mut fa = BTreeSet::new();
    let mut fb = BTreeSet::new();
    ftv_t(a, &mut fa);
    ftv_t(b, &mut fb);
    let alias = |t: &Ty| format!("{:?}", t).contains("Alias");
    match (fa.contains(&0) || fb.contains(&0), alias(a) || alias(b)) {
        | (true, true) => "a free enclosing variable against the alias's bound variable",
        | (true, false) => "involving a free enclosing variable",
        | (false, true) => "involving the alias",
        | (false, false) => "closed types",
    }
}


/* ------------------------------------ kinding matrix ------------------------------------ */

#[derive(Clone, Debug, PartialEq, Eq, Hash)]
pub enum Kd {
    V,
    C,
    Arr(Box<Kd>, Box<Kd>),
}
#[derive(Clone, Debug, PartialEq, Eq, Hash)]
pub enum TE {
    Int,
    Ret,
    Thk,
    Cont,
    Var(u8),
    App(Box<TE>, Box<TE>),
    Arrow(Box<TE>, Box<TE>),
    Pair(Box<TE>, Box<TE>),
    Forall(u8, Kd, Box<TE>),
    Exists(u8, Kd, Box<TE>),
    Lam(u8, Kd, Box<TE>),
}

fn kd_show(k: &Kd) -> String {
    match k {
        | Kd::V => "VType".into(),
        | Kd::C => "CType".into(),
        | Kd::Arr(a, b) => format!("{} -> {}", if matches!(a.as_ref(), Kd::Arr(..)) { format!("({})", kd_show(a)) } else { kd_show(a) }, kd_show(b)),
    }
}
fn te_show(t: &TE) -> String {
    let atom = |t: &TE| -> String {
        match t {
            | TE::Int | TE::Ret | TE::Thk | TE::Cont | TE::Var(_) => te_show(t),
            | _ => format!("({})", te_show(t)),
        }
    };
    match t {
        | TE::Int => "Int64".into(),
        | TE::Ret => "Ret".into(),
        | TE::Thk => "Thk".into(),
        | TE::Cont => "Cont".into(),
        | TE::Var(x) => format!("K{x}"),
        | TE::App(f, a) => format!("{} {}", atom(f), atom(a)),
        | TE::Arrow(a, b) => format!("{} -> {}", atom(a), atom(b)),
        | TE::Pair(a, b) => format!("{} * {}", atom(a), atom(b)),
        | TE::Forall(x, k, b) => format!("forall (K{x} : {}) . {}", kd_show(k), atom(b)),
        | TE::Exists(x, k, b) => format!("exists (K{x} : {}) . {}", kd_show(k), atom(b)),
        | TE::Lam(x, k, b) => format!("fn (K{x} : {}) => {}", kd_show(k), atom(b)),
    }
}
/// the reference kinding judgment (standard F-omega rules plus the two overloads of the language:
/// `A -> B` and `forall` are value types when their codomain / body is a value type)
fn kind_of(t: &TE, env: &Vec<(u8, Kd)>) -> Option<Kd> {
    Some(match t {
        | TE::Int => Kd::V,
        | TE::Ret => Kd::Arr(Box::new(Kd::V), Box::new(Kd::C)),
        | TE::Thk => Kd::Arr(Box::new(Kd::C), Box::new(Kd::V)),
        | TE::Cont => Kd::Arr(Box::new(Kd::V), Box::new(Kd::V)),
        | TE::Var(x) => env.iter().rev().find(|(y, _)| y == x)?.1.clone(),
        | TE::App(f, a) => match kind_of(f, env)? {
            | Kd::Arr(d, c) if *d == kind_of(a, env)? => *c,
            | _ => return None,
        },
        | TE::Arrow(a, b) => {
            if kind_of(a, env)? != Kd::V {
                return None;
            }
            match kind_of(b, env)? {
                | Kd::C => Kd::C,
                | Kd::V => Kd::V,
                | _ => return None,
            }
        }
        | TE::Pair(a, b) => {
            if kind_of(a, env)? != Kd::V || kind_of(b, env)? != Kd::V {
                return None;
            }
            Kd::V
        }
        | TE::Forall(x, k, b) => {
            let mut e = env.clone();
            e.push((*x, k.clone()));
            match kind_of(b, &e)? {
                | Kd::C => Kd::C,
                | Kd::V => Kd::V,
                | _ => return None,
            }
        }
        | TE::Exists(x, k, b) => {
            let mut e = env.clone();
            e.push((*x, k.clone()));
            match kind_of(b, &e)? {
                | Kd::V => Kd::V,
                | _ => return None,
            }
        }
        | TE::Lam(x, k, b) => {
            let mut e = env.clone();
            e.push((*x, k.clone()));
            Kd::Arr(Box::new(k.clone()), Box::new(kind_of(b, &e)?))
        }
    })
}
fn te_all(n: usize, bound: &Vec<u8>) -> Vec<TE> {
    let mut out = vec![];
    if n == 1 {
        out.extend([TE::Int, TE::Ret, TE::Thk, TE::Cont]);
        out.extend(bound.iter().map(|x| TE::Var(*x)));
        return out;
    }
    for k in 1..n - 1 {
        let ls = te_all(k, bound);
        let rs = te_all(n - 1 - k, bound);
        for l in &ls {
            for r in &rs {
                out.push(TE::App(Box::new(l.clone()), Box::new(r.clone())));
                out.push(TE::Arrow(Box::new(l.clone()), Box::new(r.clone())));
                out.push(TE::Pair(Box::new(l.clone()), Box::new(r.clone())));
            }
        }
    }
    let x = bound.len() as u8;
    let mut b2 = bound.clone();
    b2.push(x);
    for b in te_all(n - 1, &b2) {
        for k in [Kd::V, Kd::C, Kd::Arr(Box::new(Kd::V), Box::new(Kd::V))] {
            out.push(TE::Forall(x, k.clone(), Box::new(b.clone())));
            out.push(TE::Exists(x, k.clone(), Box::new(b.clone())));
            out.push(TE::Lam(x, k.clone(), Box::new(b.clone())));
        }
    }
    out
}

pub struct KindMatrix {
    exprs: Vec<TE>,
    chunk: usize,
}
impl KindMatrix {
    pub fn new(tier: Tier) -> Self {
        let n = if tier == Tier::Thorough { 5 } else { 4 };
        let mut exprs = vec![];
        for k in 1..=n {
            exprs.extend(te_all(k, &vec![]));
        }
        KindMatrix { exprs, chunk: 64 }
    }
    fn source(t: &TE) -> String {
        format!("begin\n  let VType = @(intrinsic(vtype)) that\n  let CType = @(intrinsic(ctype)) that\n  let Ret = @(intrinsic(ret)) that\n  let Thk = @(intrinsic(thk)) that\n  let Int64 = @(intrinsic(i64)) that\n  let Cont (P : VType) = Thk (P -> Ret Int64) that\n  let T = {} that\n  ret 0\nend\n", te_show(t))
    }
}
impl Check for KindMatrix {
    fn property(&self) -> &'static str {
        "C03"
    }
    fn name(&self) -> String {
        "c03-kinding-matrix".into()
    }
    fn len(&self) -> usize {
        self.exprs.len().div_ceil(self.chunk)
    }
    fn describe(&self, i: usize) -> String {
        format!("type expressions #{}..; first:\n{}", i * self.chunk, Self::source(&self.exprs[i * self.chunk]))
    }
    fn rule(&self) -> String {
        format!("every type expression with at most {} nodes over {{Int64, Ret, Thk, a user-defined operator Cont : VType -> VType, bound variables, application, ->, *, forall / exists / type-level fn with binder kinds VType, CType, VType -> VType}} ({} expressions, well kinded or not), each bound by `let T = <expression>`; oracle: accepted iff the reference kinding judgment (standard F-omega rules; `->` and forall are value types when their codomain / body is one) assigns it a kind; non-trivial = every chunk", if self.exprs.len() > 100_000 { 5 } else { 4 }, self.exprs.len())
    }
    fn timeout(&self) -> std::time::Duration {
        std::time::Duration::from_secs(300)
    }
    fn run(&mut self, i: usize) -> CaseResult {
        let scratch = Scratch::new("kindm");
        let a = i * self.chunk;
        let b = (a + self.chunk).min(self.exprs.len());
        let mut r = CaseResult::ok("chunk").nontrivial(true).key(i as u64);
        for t in &self.exprs[a..b] {
            let want = kind_of(t, &vec![]).is_some();
            let src = Self::source(t);
            let path = scratch.write("k.zydeco", &src);
            r = r.count("expressions", 1).count("well_kinded", want as u64);
            match guarded(|| Subject::analyze(&path).verdict()) {
                | Err(p) => r = r.violation(format!("type checker panics on a type expression: {}", crate::front::short_msg(&p.msg)), format!("{:?}\n{}", p, src)),
                | Ok(v) => {
                    if v.accepted() != want {
                        r = r.violation(if want { "a well-kinded type expression is rejected".to_string() } else { "an ill-kinded type expression is accepted".to_string() }, format!("{} : {:?}\nverdict {:?}\n{}", te_show(t), kind_of(t, &vec![]).map(|k| kd_show(&k)), v, src));
                    }
                }
            }
        }
        r
    }
}
