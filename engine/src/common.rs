//! Shared machinery: tiers, the subprocess worker pool (crash/timeout isolation), evidence and
//! known-findings handling. Every sequential check is a `Check`: a deterministic, indexable list of
//! cases; workers (child processes of this binary) run case indices and stream one JSON line per case.
use serde::{Deserialize, Serialize};
use std::collections::{BTreeMap, HashSet};
use std::io::{BufRead, BufReader, Write};
use std::process::{Child, Command, Stdio};
use std::sync::atomic::{AtomicUsize, Ordering};
use std::sync::{Arc, Mutex, mpsc};
use std::time::{Duration, Instant};

#[derive(Clone, Copy, Debug, PartialEq, Eq)]
pub enum Tier {
    Quick,
    Thorough,
}

impl Tier {
    pub fn name(self) -> &'static str {
        match self {
            | Tier::Quick => "quick",
            | Tier::Thorough => "thorough",
        }
    }
    pub fn parse(s: &str) -> Tier {
        if s == "thorough" { Tier::Thorough } else { Tier::Quick }
    }
}

pub fn verif_root() -> std::path::PathBuf {
    std::env::var("VERIF_ROOT").map(Into::into).unwrap_or_else(|_| "/verif".into())
}
pub fn repo_root() -> std::path::PathBuf {
    std::env::var("VERIF_REPO").map(Into::into).unwrap_or_else(|_| "/repo".into())
}
pub fn seed() -> u64 {
    std::env::var("VERIF_SEED").ok().and_then(|s| s.parse().ok()).unwrap_or(0)
}

/// A property violation observed on one case.
#[derive(Clone, Debug, Serialize, Deserialize)]
pub struct Violation {
    /// Stable identification of *what* fails (used to match known findings): short, no indices.
    pub fingerprint: String,
    /// Human-readable detail: inputs, expected vs actual.
    pub detail: String,
}

/// Result of running one case.
#[derive(Clone, Debug, Default, Serialize, Deserialize)]
pub struct CaseResult {
    /// Coarse outcome class, histogrammed in evidence to expose vacuity.
    pub class: String,
    /// Non-trivial by the check's stated rule.
    pub nontrivial: bool,
    /// Key for counting distinct cases (hash of the normalised case); 0 = use index.
    pub key: u64,
    pub violations: Vec<Violation>,
    /// Extra numeric counters summed into evidence (e.g. steps executed, states, transitions).
    #[serde(default)]
    pub counters: BTreeMap<String, u64>,
}

impl CaseResult {
    pub fn ok(class: impl Into<String>) -> Self {
        CaseResult { class: class.into(), ..Default::default() }
    }
    pub fn nontrivial(mut self, b: bool) -> Self {
        self.nontrivial = b;
        self
    }
    pub fn key(mut self, k: u64) -> Self {
        self.key = k;
        self
    }
    pub fn count(mut self, name: &str, n: u64) -> Self {
        *self.counters.entry(name.to_string()).or_insert(0) += n;
        self
    }
    pub fn violation(mut self, fingerprint: impl Into<String>, detail: impl Into<String>) -> Self {
        self.violations.push(Violation { fingerprint: fingerprint.into(), detail: detail.into() });
        self
    }
}

pub fn hash64(s: &str) -> u64 {
    // FNV-1a, deterministic across processes
    let mut h: u64 = 0xcbf29ce484222325;
    for b in s.as_bytes() {
        h ^= *b as u64;
        h = h.wrapping_mul(0x100000001b3);
    }
    h | 1
}

/// A check = a deterministic indexable case list. Constructed afresh in every worker.
pub trait Check {
    fn property(&self) -> &'static str;
    /// Sub-check name (one property may have several sub-checks); used in replay files.
    fn name(&self) -> String;
    fn len(&self) -> usize;
    /// Self-contained description of case `i` (inputs written out) for samples and replay files.
    fn describe(&self, i: usize) -> String;
    fn run(&mut self, i: usize) -> CaseResult;
    /// Per-case wall-clock limit enforced by the parent (the worker is killed).
    fn timeout(&self) -> Duration {
        Duration::from_secs(20)
    }
    /// Whether a crash (abort/stack overflow) or timeout of the subject on a case violates the
    /// property (true for properties that forbid panics/loops), else it is a machinery error.
    fn crash_is_violation(&self) -> bool {
        false
    }
    fn rule(&self) -> String;
    fn level(&self) -> &'static str {
        "exploration"
    }
    /// Whether the enumerated space was finite and completely covered.
    fn exhaustive(&self) -> bool {
        true
    }
}

#[derive(Clone, Debug, Default, Serialize, Deserialize)]
pub struct Aggregate {
    pub check: String,
    pub cases: usize,
    pub evaluations: u64,
    pub nontrivial_keys: HashSet<u64>,
    pub classes: BTreeMap<String, u64>,
    pub counters: BTreeMap<String, u64>,
    pub violations: Vec<(usize, Violation)>,
    pub timeouts: Vec<usize>,
    pub crashes: Vec<usize>,
    pub samples: Vec<String>,
    pub rule: String,
    pub exhaustive: bool,
}

/// Worker side: serve `RUN a b` requests on stdin.
pub fn serve(check: &mut dyn Check) {
    let stdin = std::io::stdin();
    // The protocol runs over a private duplicate of stdout; fd 1 itself is pointed at /dev/null so
    // that subject code printing to stdout cannot corrupt the protocol.
    let stdout = unsafe {
        use std::os::fd::FromRawFd;
        let proto = libc::dup(1);
        let null = libc::open(c"/dev/null".as_ptr(), libc::O_WRONLY);
        libc::dup2(null, 1);
        std::sync::Mutex::new(std::fs::File::from_raw_fd(proto))
    };
    let mut line = String::new();
    loop {
        line.clear();
        if stdin.lock().read_line(&mut line).unwrap_or(0) == 0 {
            return;
        }
        let parts: Vec<&str> = line.split_whitespace().collect();
        if parts.len() == 3 && parts[0] == "RUN" {
            let a: usize = parts[1].parse().unwrap();
            let b: usize = parts[2].parse().unwrap();
            for i in a..b {
                {
                    let mut out = stdout.lock().unwrap();
                    writeln!(out, "S {i}").unwrap();
                    out.flush().unwrap();
                }
                let r = check.run(i);
                let mut out = stdout.lock().unwrap();
                writeln!(out, "R {} {}", i, serde_json::to_string(&r).unwrap()).unwrap();
                out.flush().unwrap();
            }
            let mut out = stdout.lock().unwrap();
            writeln!(out, "DONE").unwrap();
            out.flush().unwrap();
        } else if parts.first() == Some(&"QUIT") {
            return;
        }
    }
}

struct Worker {
    child: Child,
    stdin: std::process::ChildStdin,
    rx: mpsc::Receiver<String>,
}

fn spawn_worker(check_name: &str, tier: Tier) -> Worker {
    let exe = std::env::current_exe().expect("current exe");
    let mut cmd = Command::new(exe);
    let so = verif_root().join("build/libzyv_getrandom.so");
    if so.exists() {
        cmd.env("LD_PRELOAD", &so).env("VERIF_HASH_SEED", seed().to_string());
    }
    let mut child = cmd
        .arg("worker")
        .arg(check_name)
        .arg(tier.name())
        .stdin(Stdio::piped())
        .stdout(Stdio::piped())
        .stderr(if std::env::var("VERIF_DEBUG").is_ok() { Stdio::inherit() } else { Stdio::null() })
        .spawn()
        .expect("spawn worker");
    let stdin = child.stdin.take().unwrap();
    let stdout = child.stdout.take().unwrap();
    let (tx, rx) = mpsc::channel();
    std::thread::spawn(move || {
        let reader = BufReader::new(stdout);
        for line in reader.lines() {
            match line {
                | Ok(l) => {
                    if tx.send(l).is_err() {
                        break;
                    }
                }
                | Err(_) => break,
            }
        }
    });
    Worker { child, stdin, rx }
}

/// Parent side: run all cases of `check` over a pool of worker processes.
pub fn run_pool(check: &dyn Check, tier: Tier, limit: Option<usize>) -> Aggregate {
    let n = limit.map_or(check.len(), |l| l.min(check.len()));
    let name = check.name();
    let timeout = check.timeout();
    let workers = std::env::var("VERIF_WORKERS")
        .ok()
        .and_then(|s| s.parse().ok())
        .unwrap_or_else(|| std::thread::available_parallelism().map(|n| n.get()).unwrap_or(8))
        .min(n.max(1));
    let chunk = (n / (workers * 24)).clamp(1, 512);
    let next = Arc::new(AtomicUsize::new(0));
    let agg = Arc::new(Mutex::new(Aggregate {
        check: name.clone(),
        cases: n,
        rule: check.rule(),
        exhaustive: check.exhaustive() && limit.is_none(),
        ..Default::default()
    }));
    // shard rotation by seed: changes which worker gets which chunk, not the case set
    let mut handles = Vec::new();
    for _w in 0..workers {
        let next = next.clone();
        let agg = agg.clone();
        let name = name.clone();
        handles.push(std::thread::spawn(move || {
            let mut worker = spawn_worker(&name, tier);
            let mut local = Aggregate::default();
            loop {
                let a = next.fetch_add(chunk, Ordering::SeqCst);
                if a >= n {
                    break;
                }
                let b = (a + chunk).min(n);
                let mut cur = a;
                'chunk: while cur < b {
                    if writeln!(worker.stdin, "RUN {cur} {b}").and_then(|_| worker.stdin.flush()).is_err() {
                        // worker died before accepting work: respawn and retry once
                        let _ = worker.child.kill();
                        let _ = worker.child.wait();
                        worker = spawn_worker(&name, tier);
                        if writeln!(worker.stdin, "RUN {cur} {b}").and_then(|_| worker.stdin.flush()).is_err() {
                            local.crashes.push(cur);
                            cur += 1;
                            continue;
                        }
                    }
                    let mut started: Option<usize> = None;
                    // allow generous time for the worker's own start-up (case generation)
                    let mut deadline = Instant::now() + timeout + Duration::from_secs(120);
                    loop {
                        let wait = deadline.saturating_duration_since(Instant::now());
                        match worker.rx.recv_timeout(wait) {
                            | Ok(line) => {
                                if let Some(rest) = line.strip_prefix("S ") {
                                    started = rest.trim().parse().ok();
                                    deadline = Instant::now() + timeout;
                                } else if let Some(rest) = line.strip_prefix("R ") {
                                    let (idx, json) = rest.split_once(' ').unwrap();
                                    let idx: usize = idx.parse().unwrap();
                                    let r: CaseResult = serde_json::from_str(json).expect("case result json");
                                    absorb(&mut local, idx, r);
                                    cur = idx + 1;
                                    started = None;
                                    deadline = Instant::now() + timeout;
                                } else if line == "DONE" {
                                    cur = b;
                                    continue 'chunk;
                                }
                            }
                            | Err(mpsc::RecvTimeoutError::Timeout) => {
                                let at = started.unwrap_or(cur);
                                local.timeouts.push(at);
                                let _ = worker.child.kill();
                                let _ = worker.child.wait();
                                worker = spawn_worker(&name, tier);
                                cur = at + 1;
                                continue 'chunk;
                            }
                            | Err(mpsc::RecvTimeoutError::Disconnected) => {
                                let at = started.unwrap_or(cur);
                                local.crashes.push(at);
                                let _ = worker.child.kill();
                                let _ = worker.child.wait();
                                worker = spawn_worker(&name, tier);
                                cur = at + 1;
                                continue 'chunk;
                            }
                        }
                    }
                }
            }
            let _ = writeln!(worker.stdin, "QUIT");
            let _ = worker.child.wait();
            let mut g = agg.lock().unwrap();
            g.evaluations += local.evaluations;
            g.nontrivial_keys.extend(local.nontrivial_keys);
            for (k, v) in local.classes {
                *g.classes.entry(k).or_insert(0) += v;
            }
            for (k, v) in local.counters {
                *g.counters.entry(k).or_insert(0) += v;
            }
            g.violations.extend(local.violations);
            g.timeouts.extend(local.timeouts);
            g.crashes.extend(local.crashes);
        }));
    }
    for h in handles {
        h.join().expect("pool thread");
    }
    let mut g = Arc::try_unwrap(agg).unwrap().into_inner().unwrap();
    // A case that timed out while 16 workers (and whatever else runs on the machine) competed for the
    // cores is run once more, alone, with three times the budget: only a case that still does not
    // finish is reported as a timeout. (A timeout is a statement about the subject, not about load.)
    if !g.timeouts.is_empty() {
        let again: Vec<usize> = std::mem::take(&mut g.timeouts);
        let mut retried = 0u64;
        for at in again {
            let mut worker = spawn_worker(&name, tier);
            let mut finished = false;
            if writeln!(worker.stdin, "RUN {at} {}", at + 1).and_then(|_| worker.stdin.flush()).is_ok() {
                let deadline = Instant::now() + timeout * 3 + Duration::from_secs(120);
                loop {
                    let wait = deadline.saturating_duration_since(Instant::now());
                    match worker.rx.recv_timeout(wait) {
                        | Ok(line) => {
                            if let Some(rest) = line.strip_prefix("R ") {
                                let (idx, json) = rest.split_once(' ').unwrap();
                                let idx: usize = idx.parse().unwrap();
                                let r: CaseResult = serde_json::from_str(json).expect("case result json");
                                absorb(&mut g, idx, r);
                                finished = true;
                            } else if line == "DONE" {
                                break;
                            }
                        }
                        | Err(_) => break,
                    }
                }
            }
            let _ = worker.child.kill();
            let _ = worker.child.wait();
            if finished {
                retried += 1;
            } else {
                g.timeouts.push(at);
            }
        }
        if retried > 0 {
            *g.counters.entry("cases_finished_on_a_solitary_retry_after_a_timeout_under_load".into()).or_insert(0) += retried;
        }
    }
    g.violations.sort_by_key(|(i, _)| *i);
    g.timeouts.sort();
    g.crashes.sort();
    // samples: first, middle, last case descriptions
    let mut picks = vec![0usize];
    if n > 2 {
        picks.push(n / 2);
    }
    if n > 1 {
        picks.push(n - 1);
    }
    for i in picks {
        let mut d = check.describe(i);
        if d.len() > 1500 {
            let mut cut = 1500;
            while !d.is_char_boundary(cut) {
                cut -= 1;
            }
            d.truncate(cut);
            d.push_str("…");
        }
        g.samples.push(d);
    }
    g
}

fn absorb(local: &mut Aggregate, idx: usize, r: CaseResult) {
    local.evaluations += 1;
    if r.nontrivial {
        local.nontrivial_keys.insert(if r.key == 0 { idx as u64 * 2 } else { r.key });
    }
    *local.classes.entry(r.class).or_insert(0) += 1;
    for (k, v) in r.counters {
        *local.counters.entry(k).or_insert(0) += v;
    }
    for v in r.violations {
        local.violations.push((idx, v));
    }
}

/* ------------------------------ known findings ------------------------------ */

#[derive(Clone, Debug, Deserialize)]
pub struct KnownFinding {
    pub property: String,
    /// substring that must occur in the violation's fingerprint
    pub fingerprint: String,
    pub what: String,
}

#[derive(Clone, Debug, Deserialize, Default)]
pub struct KnownFindings {
    #[serde(default)]
    pub findings: Vec<KnownFinding>,
    #[serde(default)]
    pub fixed: Vec<String>,
}

pub fn load_known() -> KnownFindings {
    let path = verif_root().join("known_findings.json");
    match std::fs::read_to_string(&path) {
        | Ok(s) => serde_json::from_str(&s).expect("known_findings.json parses"),
        | Err(_) => KnownFindings::default(),
    }
}

/* --------------------------------- reporting -------------------------------- */

pub struct Report {
    pub property: String,
    pub tier: Tier,
    pub level: String,
    pub started: Instant,
    pub aggregates: Vec<Aggregate>,
    pub assumptions: Vec<String>,
    pub extra: BTreeMap<String, serde_json::Value>,
    pub crash_is_violation: bool,
}

impl Report {
    pub fn new(property: &str, tier: Tier, level: &str) -> Self {
        Report {
            property: property.to_string(),
            tier,
            level: level.to_string(),
            started: Instant::now(),
            aggregates: vec![],
            assumptions: vec![],
            extra: BTreeMap::new(),
            crash_is_violation: false,
        }
    }

    pub fn run(&mut self, check: &dyn Check) {
        let limit = std::env::var("VERIF_LIMIT").ok().and_then(|s| s.parse().ok());
        let t = Instant::now();
        let agg = run_pool(check, self.tier, limit);
        eprintln!(
            "[{}] {}: {} cases, {} nontrivial-distinct, {} violations, {} timeouts, {} crashes, {:.1}s; classes={:?}",
            self.property,
            agg.check,
            agg.evaluations,
            agg.nontrivial_keys.len(),
            agg.violations.len(),
            agg.timeouts.len(),
            agg.crashes.len(),
            t.elapsed().as_secs_f64(),
            agg.classes
        );
        if check.crash_is_violation() {
            self.crash_is_violation = true;
        }
        if !agg.timeouts.is_empty() || !agg.crashes.is_empty() {
            eprintln!("[{}] timeouts at cases {:?}, crashes at cases {:?}", self.property, &agg.timeouts[..agg.timeouts.len().min(8)], &agg.crashes[..agg.crashes.len().min(8)]);
        }
        let mut agg = agg;
        // crashes and timeouts become violations or machinery errors
        for &i in agg.timeouts.clone().iter() {
            let d = check.describe(i);
            if check.crash_is_violation() {
                agg.violations.push((
                    i,
                    Violation {
                        fingerprint: format!("timeout after {:?} in {}", check.timeout(), agg.check),
                        detail: format!("subject did not finish within {:?} on case {}: {}", check.timeout(), i, d),
                    },
                ));
            }
        }
        for &i in agg.crashes.clone().iter() {
            let d = check.describe(i);
            if check.crash_is_violation() {
                agg.violations.push((
                    i,
                    Violation {
                        fingerprint: format!("worker process died (abort/stack overflow) in {} on {}", agg.check, d.lines().next().unwrap_or("").chars().take(70).collect::<String>()),
                        detail: format!("worker died on case {}: {}", i, d),
                    },
                ));
            }
        }
        // attach descriptions to violations for replay files
        for (i, v) in agg.violations.iter_mut() {
            if !v.detail.contains("\u{1}DESC") {
                v.detail = format!("{}\n--- case {} of {} ---\n{}", v.detail, i, agg.check, check.describe(*i));
            }
        }
        self.aggregates.push(agg);
    }

    /// Write evidence, replay files, print KNOWN-FINDING / VIOLATION lines; return exit code.
    pub fn finish(self) -> i32 {
        let root = verif_root();
        let known = load_known();
        let mut machinery_errors = 0usize;
        let mut new_violations: Vec<(String, usize, Violation)> = Vec::new();
        let mut known_hits: BTreeMap<usize, u64> = BTreeMap::new();
        for agg in &self.aggregates {
            if !self.crash_is_violation {
                machinery_errors += agg.timeouts.len() + agg.crashes.len();
            }
            for (i, v) in &agg.violations {
                let hit = known
                    .findings
                    .iter()
                    .position(|k| k.property.split(',').any(|p| p.trim() == self.property) && v.fingerprint.contains(&k.fingerprint));
                match hit {
                    | Some(k) => *known_hits.entry(k).or_insert(0) += 1,
                    | None => new_violations.push((agg.check.clone(), *i, v.clone())),
                }
            }
        }
        for (k, n) in &known_hits {
            println!(
                "KNOWN-FINDING: property={} {} [{} case(s) this run]",
                self.property, known.findings[*k].what, n
            );
        }
        // replay files: group new violations by fingerprint, keep the first (smallest index) of each
        let replay_dir = root.join("replays").join(&self.property);
        let _ = std::fs::remove_dir_all(&replay_dir);
        let mut seen_fp: BTreeMap<String, usize> = BTreeMap::new();
        let mut lines = Vec::new();
        for (check, i, v) in &new_violations {
            let cnt = seen_fp.entry(v.fingerprint.clone()).or_insert(0);
            *cnt += 1;
            if *cnt > 1 {
                continue;
            }
            std::fs::create_dir_all(&replay_dir).ok();
            let path = replay_dir.join(format!("{}-{}.json", check.replace(['/', ' '], "_"), i));
            let payload = serde_json::json!({
                "property": self.property,
                "check": check,
                "tier": self.tier.name(),
                "index": i,
                "fingerprint": v.fingerprint,
                "detail": v.detail,
            });
            std::fs::write(&path, serde_json::to_string_pretty(&payload).unwrap()).ok();
            lines.push(format!("VIOLATION property={} replay={}", self.property, path.display()));
        }
        // evidence
        let evaluations: u64 = self.aggregates.iter().map(|a| a.evaluations).sum();
        let distinct: usize = self.aggregates.iter().map(|a| a.nontrivial_keys.len()).sum();
        let mut coverage = serde_json::Map::new();
        coverage.insert("evaluations".into(), evaluations.into());
        coverage.insert("distinct_nontrivial".into(), distinct.into());
        let rule = self
            .aggregates
            .iter()
            .map(|a| format!("[{}] {}", a.check, a.rule))
            .collect::<Vec<_>>()
            .join(" || ");
        coverage.insert("rule".into(), rule.into());
        let samples: Vec<serde_json::Value> = self
            .aggregates
            .iter()
            .flat_map(|a| a.samples.iter().map(|s| serde_json::json!({"check": a.check, "case": s})))
            .collect();
        coverage.insert("samples".into(), samples.into());
        coverage.insert("exhaustive".into(), self.aggregates.iter().all(|a| a.exhaustive).into());
        let mut counters: BTreeMap<String, u64> = BTreeMap::new();
        for a in &self.aggregates {
            for (k, v) in &a.counters {
                *counters.entry(k.clone()).or_insert(0) += v;
            }
        }
        if self.level == "translation_validation" {
            coverage.insert("programs".into(), counters.get("lowered").copied().unwrap_or(evaluations).max(1).into());
            coverage.insert("disagreements_checked".into(), counters.get("lowered").copied().unwrap_or(evaluations).into());
        }
        if self.level == "model_checking" {
            let states = counters.get("states").copied().unwrap_or(evaluations).max(1);
            let transitions = counters.get("transitions").copied().unwrap_or(evaluations).max(1);
            coverage.insert("states".into(), states.into());
            coverage.insert("transitions".into(), transitions.into());
            coverage.insert(
                "traces_validated_against_impl".into(),
                counters.get("traces").copied().unwrap_or(evaluations).into(),
            );
        }
        let sub: Vec<serde_json::Value> = self
            .aggregates
            .iter()
            .map(|a| {
                serde_json::json!({
                    "check": a.check, "cases": a.cases, "evaluations": a.evaluations,
                    "distinct_nontrivial": a.nontrivial_keys.len(),
                    "outcome_classes": a.classes, "counters": a.counters,
                    "violations": a.violations.len(), "timeouts": a.timeouts.len(), "crashes": a.crashes.len(),
                    "exhaustive": a.exhaustive,
                })
            })
            .collect();
        coverage.insert("sub_checks".into(), sub.into());
        coverage.insert("counters".into(), serde_json::to_value(&counters).unwrap());
        coverage.insert(
            "known_findings_hit".into(),
            known_hits
                .iter()
                .map(|(k, n)| serde_json::json!({"what": known.findings[*k].what, "cases": n}))
                .collect::<Vec<_>>()
                .into(),
        );
        for (k, v) in &self.extra {
            coverage.insert(k.clone(), v.clone());
        }
        let evidence = serde_json::json!({
            "property_id": self.property,
            "tier": self.tier.name(),
            "seed": seed(),
            "level": self.level,
            "coverage": coverage,
            "assumptions": self.assumptions,
            "wall_s": self.started.elapsed().as_secs_f64(),
            "violations": new_violations.len(),
        });
        let ev_dir = root.join("evidence");
        std::fs::create_dir_all(&ev_dir).ok();
        std::fs::write(ev_dir.join(format!("{}.json", self.property)), serde_json::to_string_pretty(&evidence).unwrap())
            .expect("write evidence");
        for l in &lines {
            println!("{l}");
        }
        if !new_violations.is_empty() {
            eprintln!(
                "[{}] {} new violation(s) in {} distinct fingerprint(s)",
                self.property,
                new_violations.len(),
                seen_fp.len()
            );
            for (fp, n) in &seen_fp {
                eprintln!("   {n:6} x {fp}");
            }
            return 1;
        }
        if machinery_errors > 0 {
            eprintln!("[{}] MACHINERY ERROR: {} worker timeouts/crashes (not a verdict)", self.property, machinery_errors);
            return 3;
        }
        0
    }
}
